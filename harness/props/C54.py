"""C54 -- Sticky cookies are only sent to hosts and paths they belong to
(mitmproxy/addons/stickycookie.py, mitmproxy/net/http/cookies.py)."""
import email.utils
import ipaddress
import itertools
import re
import time

from lib.coqterm import cbytes, cbool, copt, cN, clist, hx, unhx

ID = "C54"
QUICK_N = 3000
THOROUGH_N = 15000
SHARD = 250
RULE = ("a case is a history of 2-9 response/request events driven through one real StickyCookie instance. 70%: "
        "responses from a host of a related-host family (base, sub, parent, look-alikes that contain the base as an "
        "inner substring, IPs, trailing/leading dots, upper case) with 1-3 Set-Cookie entries (host-only, Domain "
        "with/without/with extra dots, foreign Domain, Path variants, Expires/Max-Age past/future/garbage, bare "
        "Domain/Path/Max-Age tokens), then requests aimed at the stored keys (same/related/unrelated host, same/other "
        "port, path = cookie path, segment below it, sibling with the same string prefix, query variants); 30%: the "
        "same with byte-level mutations of hosts, domains and paths; every tier adds direct calls of domain_match on every (host, Domain) of a label algebra (the domain embedded as prefix/suffix/infix of longer hosts at and off label boundaries: X.D, XD, D.X, X.D.Y, XD.Y, X.D.YD, ..., dots, case, IPs) and of the path test on all pairs of a path dictionary, plus 16% random/mutated such calls; requests of histories also use the embedded hosts; thorough adds every (responding host, Domain, request host) over 14x16x14 and every (cookie path, request path) over 13x13 dictionaries. Non-trivial = at least one cookie was stored "
        "and at least one request was made while the jar was non-empty; distinct by canonical JSON.")
TRUSTED = ["Coq 8.16.1 kernel (coqc), vm_compute for case evaluation",
           "harness/props/C54.py generator, observation of the addon (jar snapshots, Cookie header) and Corr/C54.v",
           "hand model of CPython 3.12 http.cookiejar.domain_match/is_HDN (incl. the regex IPV4_RE and str.rfind) and of "
           "cookies.format_cookie_header, tied by correspondence only",
           "cookies.parse_set_cookie_header(s), CookieAttrs lookup, email.utils date parsing, flowfilter.match: not modelled; their results "
           "are observed on the real code and fed to the model as inputs; cookies.is_expired is modelled for Max-Age (direct EX cases) and "
           "judged by an RFC 6265 reference in the oracle"]
ASSUMPTIONS = ["host names and Domain attributes are ASCII (str.lower modelled as ASCII lower); all other strings are "
               "arbitrary and compared as UTF-8 bytes",
               "request.host, request.port, request.path are str/int/str (HTTP flows)"]
ALLOWED_AXIOMS = []
CASE_TYPE = "case"
COQ_PRELUDE = "From MV Require Import Model.StickyCookie.\n"

BASES = ["example.com", "evil.org", "test.co.uk", "localhost", "com", "10.1.2.3", "b.example.com"]
PORTS = [80, 443, 8080]
PATHS = ["/", "/foo", "/foo/", "/foo/bar", "/a/b", "", "foo", "/foo?x", "/FOO", "/f", "/foo/bar/"]
NAMES = ["sid", "a", "b", "SID", "x-y", "k"]
VALUES = ["1", "abc", "x y", 'q"\\', "", None, "é", "a=b", "v,w", "tok;en", "\x7f"]
EXP_PAST = ["Thu, 01-Jan-1970 00:00:00 GMT", "Sat, 01-Jan-2000 00:00:00 GMT", "Thu, 01 Jan 2015 10:00:00 GMT"]
EXP_FUTURE = ["Wed, 01-Jan-2098 00:00:00 GMT", "Fri, 01 Jan 2094 00:00:00 GMT"]
EXP_GARBAGE = ["garbage", "tomorrow", "12345"]
MAX_AGES = ["0", "1", "5", "86400", "100000", "-1", "-0", "-5", "-99999", "00", "-007", "99999999999999999999",
            "-99999999999999999999", "+5", "+0", "abc", "", "1.5", "-", "--1", "1e3", "0x0", "-1_0", "1_0", "_1", "5 6"]


def expiry_attr(rng):
    """independent of the implementation: the Max-Age / Expires grammar"""
    r = rng.random()
    if r < 0.40:
        return None
    parts = []
    if r < 0.70 or r >= 0.88:
        if rng.chance(0.04):
            parts.append("Max-Age")
        else:
            parts.append("Max-Age=" + (rng.choice(MAX_AGES[:9]) if rng.chance(0.7) else rng.choice(MAX_AGES)))
    if r >= 0.70:
        k = rng.below(20)
        if k == 0:
            parts.append("Expires")
        elif k == 1:
            parts.append("Expires=Wed, 13-Jan-99999 22:23:01 GMT")
        else:
            parts.append("Expires=" + rng.choice(EXP_PAST if k < 9 else EXP_FUTURE if k < 16 else EXP_GARBAGE))
    if len(parts) == 2 and rng.chance(0.5):
        parts.reverse()
    return "; ".join(parts)


DELETIONS = ["Max-Age=0", "Max-Age=-1", "Max-Age=-99999", "Max-Age=-0", "Expires=" + EXP_PAST[0], "Expires=" + EXP_PAST[1],
             "Max-Age=0; Expires=" + EXP_PAST[0]]


def related_hosts(rng, base):
    """hosts that are, or look like, relatives of base"""
    sub = rng.choice(["www", "a", "a.b", "x"])
    return [base, sub + "." + base, "a." + sub + "." + base, base + ".evil.org", sub + "." + base + ".evil.org",
            "x" + base, base + "x", base.upper(), base + ".", "." + base, base.split(".", 1)[-1], "evil.org",
            base + ".10.1", sub + "." + base + "\n", "1.2.3.4", "3.4", "::1", "::ffff:1.2.3.4", base + ":8080"] \
        + embeddings(base, sub, rng.choice(["not", "x", "evil.org", "my"]))


def embeddings(d, x, y):
    """label algebra: the domain d embedded as prefix / suffix / infix of longer hosts, at and off label
    boundaries (X.D, XD, D.X, X.D.Y, XD.Y, X.D.YD, D.YD, X.D.Y.D, YD.X.D ...)"""
    return [x + "." + d, x + d, d + "." + y, x + "." + d + "." + y, x + d + "." + y, x + "." + d + "." + y + d,
            d + "." + y + d, x + "." + d + "." + y + "." + d, y + d + "." + x + "." + d, d + "." + d, x + "." + d + y,
            d + y, x + "." + d + "." + y + d + ".", (x + "." + d + "." + y + d).upper()]


def domain_attrs(rng, host):
    parent = host.split(".", 1)[-1]
    inner = ".".join(host.split(".")[1:3]) if host.count(".") >= 3 else parent
    return [None, None, None, host, "." + host, parent, "." + parent, "." + inner, inner, ".." + host, host + ".",
            "." + host + ".", host.upper(), "." + parent.upper(), "evil.org", ".evil.org", ".com", "com", "", ".",
            "." + host.split(".")[-1], "UNARY", ".2.3", ".3.4\n"]


def mutate(rng, s):
    if s is None:
        return s
    r = rng.below(6)
    i = rng.randint(0, len(s))
    tok = rng.choice([".", "..", "/", "?", "a", "A", "1", ".1", "x.", "-", ":", "%"])
    if r == 0:
        return s[:i] + tok + s[i:]
    if r == 1 and s:
        return s[:i - 1] + s[i:] if i else s[1:]
    if r == 2:
        return s.swapcase()
    if r == 3:
        return tok + s
    if r == 4:
        return s + tok
    return s


def set_cookie_header(name, value, dom, path, exp):
    h = name if value is None else f"{name}={value}"
    if dom == "UNARY":
        h += "; Domain"
    elif dom is not None:
        h += f"; Domain={dom}"
    if path == "UNARY":
        h += "; Path"
    elif path is not None:
        h += f"; Path={path}"
    if exp:
        h += "; " + exp
    return h


def gen_history(rng, adversarial):
    m = (lambda s: mutate(rng, s) if rng.chance(0.35) else s) if adversarial else (lambda s: s)
    base = rng.choice(BASES)
    fam = related_hosts(rng, base)
    flt = not rng.chance(0.04)
    evs = []
    stored = []  # (host, port, dom, path, name) of cookies sent so far: later events aim at them
    n_ev = rng.randint(2, 9)
    cur = None
    for k in range(n_ev):
        if k == 0 or (rng.chance(0.4) and k < n_ev - 1):
            if cur is None or rng.chance(0.4):
                cur = (m(rng.choice(fam[:3]) if rng.chance(0.7) else rng.choice(fam)),
                       rng.choice(PORTS[:2]) if rng.chance(0.8) else rng.choice(PORTS))
            host, port = cur
            hs = []
            for _ in range(rng.weighted([(6, 1), (3, 2), (1, 3)])):
                r = rng.random()
                if r < 0.45:
                    dom = None
                elif r < 0.75:
                    parent = host.split(".", 1)[-1]
                    dom = rng.choice(["." + host, "." + parent, host, "." + host.upper()])
                else:
                    dom = rng.choice(domain_attrs(rng, host if rng.chance(0.8) else base))
                if dom not in (None, "UNARY"):
                    dom = m(dom)
                path = rng.choice([None, None, None, None] + PATHS)
                if path is not None:
                    path = m(path)
                if rng.chance(0.02):
                    path = "UNARY"
                if dom == "UNARY" and not rng.chance(0.3):
                    dom = None
                exp = expiry_attr(rng)
                name = rng.choice(NAMES[:3] if rng.chance(0.7) else NAMES)
                # overwrite or delete an earlier cookie
                if stored and rng.chance(0.35):
                    shost, sport, dom, path, name = rng.choice(stored)
                    if rng.chance(0.7):
                        host, port = cur = (shost, sport)
                    exp = rng.choice(DELETIONS) if rng.chance(0.6) else None
                val = rng.choice(VALUES) if rng.chance(0.35) else "v%d" % len(stored)
                hs.append(set_cookie_header(name, val, dom, path, exp))
                stored.append((host, port, dom, path, name))
            evs.append({"t": "resp", "host": host, "port": port, "set_cookie": [hx(h.encode("utf-8", "surrogateescape")) for h in hs]})
        else:
            if stored and rng.chance(0.85):
                shost, sport, dom, cpath, _n = rng.choice(stored)
                d = dom if dom not in (None, "UNARY", "") else shost
                core = d.strip(".")
                cands = [shost, core, "www." + core, "a.b." + core, core + ".evil.org", "a." + core + ".evil.org",
                         "x" + core, core.upper(), core + ".", core.split(".", 1)[-1], "." + core]
                emb = embeddings(core, rng.choice(["www", "a", "a.b"]), rng.choice(["not", "x", "evil.org", "my"]))
                r = rng.random()
                host = m(rng.choice(cands[:6]) if r < 0.55 else rng.choice(emb) if r < 0.8 else rng.choice(cands + fam))
                port = sport if rng.chance(0.8) else rng.choice(PORTS)
                p = cpath if cpath not in (None, "UNARY") else "/"
                pc = [p, p + "/x", p + "x", p + "?q=1", p.rstrip("/") + "/sub/y", p + "bar", p.rstrip("/"), "/", p + "/",
                      p.split("?")[0], p + "&y", "/other", p[:-1] if p else p]
                path = m(rng.choice(pc))
            else:
                host, port, path = m(rng.choice(fam)), rng.choice(PORTS), m(rng.choice(PATHS))
            if not path.startswith("/") and not rng.chance(0.2):
                path = "/" + path
            evs.append({"t": "req", "host": host, "port": port, "path": hx(path.encode("utf-8", "surrogateescape")),
                        "method": "GET" if rng.chance(0.93) else "POST",
                        "cookie": rng.choice([None, None, None, hx(b"own=1"), hx(b"sid=client; z=2")])})
    return {"flt": flt, "events": evs}


SYS_HOSTS = ["example.com", "www.example.com", "a.www.example.com", "example.com.evil.org", "a.example.com.evil.org",
             "xexample.com", "EXAMPLE.COM", "example.com.", ".example.com", "com", "10.1.2.3", "1.2.3", "::1", "evil.org"]
SYS_DOMS = [None, "example.com", ".example.com", "..example.com", "example.com.", ".EXAMPLE.com", ".com", "com", "",
            ".", ".www.example.com", "www.example.com", ".2.3", ".evil.org", "ample.com", ".ample.com"]
SYS_PATHS = ["/", "/foo", "/foo/", "/foo/bar", "/foobar", "/foo?x", "/foo?x=1", "/fo", "", "foo", "/foo/?y", "/FOO", "//"]


def gen_systematic():
    """thorough tier: every (responding host, Domain attribute, request host) and every (cookie path, request path)
    over small dictionaries, as two-event histories"""
    enc = lambda x: hx(x.encode())
    out = []
    for rh in SYS_HOSTS:
        for d in SYS_DOMS:
            h = set_cookie_header("sid", "1", d, None, None)
            evs = [{"t": "resp", "host": rh, "port": 80, "set_cookie": [enc(h)]}]
            evs += [{"t": "req", "host": qh, "port": 80, "path": enc("/"), "method": "GET", "cookie": None} for qh in SYS_HOSTS]
            out.append({"flt": True, "events": evs})
    for cp in SYS_PATHS:
        h = set_cookie_header("sid", "1", None, cp, None)
        evs = [{"t": "resp", "host": "example.com", "port": 80, "set_cookie": [enc(h)]}]
        evs += [{"t": "req", "host": "example.com", "port": 80, "path": enc(rp), "method": "GET", "cookie": None} for rp in SYS_PATHS]
        out.append({"flt": True, "events": evs})
    return out


DM_DOMS = ["example.com", "a.example.com", "co.uk", "localhost", "com", "10.1.2.3", "2.3", "ex-ample.org"]
DM_X = ["www", "a.b", "x1", "not"]
DM_Y = ["not", "evil.org", "x", "my.net"]
PM_PATHS = SYS_PATHS + ["/foo/bar/", "/foo/barx", "/foo//", "/foo?", "?", "/foo/?", "/a", "/foo?/", "*"]


def dm_hosts(d, x, y):
    hs = [d, "." + d, d + ".", d.upper(), d.split(".", 1)[-1], "1.2.3.4", d + "\n", "::1"] + embeddings(d, x, y)
    return hs


def dm_domattrs(d):
    parent = d.split(".", 1)[-1]
    return [d, "." + d, ".." + d, d + ".", "." + d + ".", "." + d.upper(), parent, "." + parent, "", ".",
            "." + d.split(".")[-1], d[1:], "." + d[1:]]


def gen_dm_systematic(tier):
    """every (host, Domain) over the label algebra, and every (request target, cookie path) pair, as direct calls
    of the two predicates"""
    out, seen = [], set()
    doms = DM_DOMS if tier == "thorough" else DM_DOMS[:4]
    xs, ys = (DM_X, DM_Y) if tier == "thorough" else (DM_X[:2], DM_Y[:2])
    for d in doms:
        for x in xs:
            for y in ys:
                for h in dm_hosts(d, x, y):
                    for b in dm_domattrs(d):
                        if (h, b) not in seen:
                            seen.add((h, b))
                            out.append({"k": "dm", "a": h, "b": b})
    for t in PM_PATHS:
        for cp in PM_PATHS:
            out.append({"k": "pm", "t": hx(t.encode()), "cp": hx(cp.encode())})
    return out


def gen_dm_random(rng):
    d = rng.choice(DM_DOMS)
    h = rng.choice(dm_hosts(d, rng.choice(DM_X), rng.choice(DM_Y)))
    b = rng.choice(dm_domattrs(d if rng.chance(0.85) else rng.choice(DM_DOMS)))
    if rng.chance(0.5):
        h = mutate(rng, h)
    if rng.chance(0.5):
        b = mutate(rng, b)
    return {"k": "dm", "a": h, "b": b}


def gen_ex_systematic():
    """every Max-Age of the grammar alone and combined with each kind of Expires, in both orders"""
    out = []
    exps = [None, "UNARY", EXP_PAST[0], EXP_PAST[2], EXP_FUTURE[0], EXP_GARBAGE[0]]
    for ma in [None, "UNARY"] + MAX_AGES:
        for e in exps:
            attrs = []
            if ma is not None:
                attrs.append(["Max-Age", None if ma == "UNARY" else ma])
            if e is not None:
                attrs.append(["Expires", None if e == "UNARY" else e])
            out.append({"k": "ex", "attrs": attrs})
            if len(attrs) == 2:
                out.append({"k": "ex", "attrs": attrs[::-1]})
    return out


def gen_ex_random(rng):
    attrs = []
    if rng.chance(0.8):
        ma = rng.choice(MAX_AGES)
        if rng.chance(0.4):
            ma = mutate(rng, ma)
        attrs.append([rng.choice(["Max-Age", "max-age", "MAX-AGE"]), None if rng.chance(0.05) else ma])
    if rng.chance(0.4):
        e = rng.choice(EXP_PAST + EXP_FUTURE + EXP_GARBAGE)
        attrs.append([rng.choice(["Expires", "expires"]), mutate(rng, e) if rng.chance(0.2) else e])
    if rng.chance(0.15):
        attrs.append(["Max-Age", rng.choice(MAX_AGES)])
    rng.shuffle(attrs)
    if rng.chance(0.3):
        attrs.append(["Path", "/"])
    return {"k": "ex", "attrs": attrs}


def gen(rng, n, tier):
    out = gen_ex_systematic() + gen_dm_systematic(tier) + (gen_systematic() if tier == "thorough" else [])
    for _ in range(n):
        r = rng.random()
        if r < 0.12:
            out.append(gen_dm_random(rng))
        elif r < 0.20:
            out.append(gen_ex_random(rng))
        elif r < 0.24:
            t, cp = rng.choice(PM_PATHS), rng.choice(PM_PATHS)
            out.append({"k": "pm", "t": hx(mutate(rng, t).encode()), "cp": hx(mutate(rng, cp).encode())})
        else:
            out.append(gen_history(rng, adversarial=rng.chance(0.30)))
    return out


# ------------------------------------------------------------------ implementation runner
def setup_impl():
    global stickycookie, cookies, flowfilter, taddons, tflow, tutils, FIXED
    from mitmproxy.addons import stickycookie
    from mitmproxy.net.http import cookies
    from mitmproxy import flowfilter
    from mitmproxy.test import taddons, tflow, tutils
    # which of the two modelled variants of the predicates is installed
    FIXED = hasattr(stickycookie, "path_match")


def _b(s):
    return None if s is None else hx(s.encode("utf-8", "surrogateescape"))


def _snapshot(sc):
    return [[[_b(d), p, _b(q)], [[_b(n), _b(v)] for n, v in c.items()]] for (d, p, q), c in sc.jar.items()]


def _exp_branch(attrs):
    """what the Expires branch of get_expiration_ts does, with the same library calls (email.utils is trusted)"""
    if "expires" not in attrs:
        return None
    try:
        e = email.utils.parsedate_tz(attrs["expires"])
        if not e:
            return [None]
        return [bool(email.utils.mktime_tz(e) <= time.time())]
    except Exception:
        return "raise"


def _is_expired(attrs):
    try:
        return bool(cookies.is_expired(attrs))
    except Exception:
        return "raise"


def run_impl(case):
    if case.get("k") == "ex":
        attrs = cookies.CookieAttrs([(k, v) for k, v in case["attrs"]])
        return {"fixed": FIXED, "r": _is_expired(attrs), "exp": _exp_branch(attrs),
                "max_age": [attrs["max-age"]] if "max-age" in attrs else None,
                "expires": [attrs["expires"]] if "expires" in attrs else None}
    if case.get("k") == "dm":
        return {"fixed": FIXED, "r": bool(stickycookie.domain_match(case["a"], case["b"]))}
    if case.get("k") == "pm":
        t, cp = _u(case["t"]), _u(case["cp"])
        return {"fixed": FIXED, "r": bool(stickycookie.path_match(t, cp) if FIXED else t.startswith(cp))}
    sc = stickycookie.StickyCookie()
    out = []
    with taddons.context(sc) as tctx:
        if case["flt"]:
            tctx.configure(sc, stickycookie="~m GET")
        for ev in case["events"]:
            if ev["t"] == "resp":
                f = tflow.tflow(req=tutils.treq(host=ev["host"], port=ev["port"]), resp=True)
                f.response.headers.set_all("set-cookie", [unhx(h) for h in ev["set_cookie"]])
                parsed = []
                for name, (value, attrs) in f.response.cookies.items(multi=True):
                    e = _is_expired(attrs)
                    parsed.append({"name": _b(name), "value": _b(value),
                                   "max_age": [attrs["max-age"]] if "max-age" in attrs else None,
                                   "expires": [attrs["expires"]] if "expires" in attrs else None,
                                   "dom": [_b(attrs["domain"])] if "domain" in attrs else None,
                                   "path": [_b(attrs["path"])] if "path" in attrs else None, "expired": e})
                try:
                    sc.response(f)
                    ok = True
                except (AttributeError, TypeError, ValueError, OverflowError):
                    ok = False
                out.append({"parsed": parsed, "ok": ok, "jar": _snapshot(sc)})
            else:
                f = tflow.tflow(req=tutils.treq(host=ev["host"], port=ev["port"], path=unhx(ev["path"]),
                                                method=ev["method"].encode()))
                if ev["cookie"] is not None:
                    f.request.headers["cookie"] = unhx(ev["cookie"])
                else:
                    f.request.headers.pop("cookie", None)
                fm = bool(sc.flt and flowfilter.match(sc.flt, f))
                try:
                    sc.request(f)
                    hs = f.request.headers.get_all("cookie")
                    assert len(hs) <= 1
                    res = {"raised": False, "header": _b(hs[0]) if hs else None}
                except TypeError:
                    res = {"raised": True, "header": None}
                res["fmatch"] = fm
                res["meta"] = bool(f.metadata.get("stickycookie"))
                out.append(res)
    return {"fixed": FIXED, "events": out}


# ------------------------------------------------------------------ Coq printer
def _s(h):
    return cbytes(unhx(h))


def _os(h):
    return copt(h, _s, "str")


def _oos(x):
    return "(@None (option str))" if x is None else f"(Some {_os(x[0])})"


def _jar(j):
    ents = []
    for (d, p, q), items in j:
        its = clist((f"({_s(n)}, {_os(v)})" for n, v in items), "(str * option str)")
        ents.append(f"(({_s(d)}, {cN(p)}, {_os(q)}), {its})")
    return clist(ents, "(key * list (str * option str))")


def coq_case(case, obs):
    var = "Fixed" if obs["fixed"] else "Orig"
    if case.get("k") == "dm":
        return f"DM {var} {cbytes(case['a'].encode())} {cbytes(case['b'].encode())} {cbool(obs['r'])}"
    if case.get("k") == "ex":
        if obs["exp"] == "raise":
            return None
        ob = lambda x: "(@None bool)" if x is None else f"(Some {cbool(x)})"
        exp = "(@None (option bool))" if obs["exp"] is None else f"(Some {ob(obs['exp'][0])})"
        ma = obs["max_age"]
        if ma is not None and ma[0] is not None and not ma[0].isascii():
            return None
        mas = "(@None (option str))" if ma is None else f"(Some {copt(ma[0], lambda x: cbytes(x.encode()), 'str')})"
        return f"EX {exp} {mas} {ob(None if obs['r'] == 'raise' else obs['r'])}"
    if case.get("k") == "pm":
        return f"PM {var} {_s(case['t'])} {_s(case['cp'])} {cbool(obs['r'])}"
    evs = []
    for ev, o in zip(case["events"], obs["events"]):
        host = cbytes(ev["host"].encode("utf-8", "surrogateescape"))
        if ev["t"] == "resp":
            cs = []
            for c in o["parsed"]:
                e = "(@None bool)" if c["expired"] == "raise" else f"(Some {cbool(c['expired'])})"
                cs.append(f"(Cookie {_s(c['name'])} {_os(c['value'])} {_oos(c['dom'])} {_oos(c['path'])} {e})")
            evs.append(f"ORsp {host} {cN(ev['port'])} {clist(cs, 'cookie')} {cbool(o['ok'])} {_jar(o['jar'])}")
        else:
            res = "(@None (option str))" if o["raised"] else f"(Some {_os(o['header'])})"
            evs.append(f"ORq {host} {cN(ev['port'])} {_s(ev['path'])} {cbool(o['fmatch'])} {_os(ev['cookie'])} {res}")
    return f"Case {'Fixed' if obs['fixed'] else 'Orig'} {cbool(case['flt'])} {clist(evs, 'obs')}"


# ------------------------------------------------------------------ oracle (RFC 6265, on the implementation)
def _lower(s):
    return "".join(chr(ord(c) + 32) if "A" <= c <= "Z" else c for c in s)


def _is_ip(s):
    if "%" in s:
        return False
    try:
        ipaddress.ip_address(s)
        return True
    except ValueError:
        return False


def rfc_domain_match(host, cookie_domain):
    """RFC 6265 5.1.3; both canonicalised"""
    if host == cookie_domain:
        return True
    return (host.endswith(cookie_domain) and len(host) > len(cookie_domain)
            and host[len(host) - len(cookie_domain) - 1] == "." and not _is_ip(host))


def rfc_cookie_domain(attr):
    """RFC 6265 5.2.3: lower case, one leading dot removed"""
    d = _lower(attr)
    return d[1:] if d.startswith(".") else d


def rfc_path_match(request_path, cookie_path):
    """RFC 6265 5.1.4 on the uri-path (no query)"""
    if request_path == cookie_path:
        return True
    if request_path.startswith(cookie_path):
        if cookie_path.endswith("/"):
            return True
        if request_path[len(cookie_path):len(cookie_path) + 1] == "/":
            return True
    return False


def _u(h):
    return None if h is None else unhx(h).decode("utf-8", "surrogateescape")


def _dom_family(host, dom):
    h, d = _lower(host), _lower(dom)
    if d and d in h and not h.endswith(d):
        return "domain-inner-substring"
    if h == d.strip(".") and h != rfc_cookie_domain(dom):
        return "domain-extra-dots"
    return "domain-other"


def ref_expired(max_age, expires):
    """RFC 6265 5.2.1, 5.2.2, 5.3: a Max-Age of the form -?DIGIT+ wins (<= 0: expire now); otherwise Expires decides if
    its date is one the reference knows (table); an unparsable attribute is ignored.  None = undecided."""
    if max_age is not None and max_age[0] is not None and re.fullmatch(r"-?[0-9]+", max_age[0], re.ASCII):
        return int(max_age[0]) <= 0
    if expires is None or expires[0] is None or expires[0] in EXP_GARBAGE:
        return False
    if expires[0] in EXP_PAST:
        return True
    if expires[0] in EXP_FUTURE:
        return False
    return None


def expiry_violation(max_age, expires, observed, where):
    ref = ref_expired(max_age, expires)
    if ref is None or observed == "raise" or observed == ref:
        return []
    ma = max_age[0] if max_age else None
    if ma is not None and re.fullmatch(r"-?[0-9]+", ma, re.ASCII) and expires is not None:
        key = "expiry-expires-shadows-max-age"
    elif ma is not None and not re.fullmatch(r"-?[0-9]+", ma, re.ASCII) and re.fullmatch(r"\s*[+-]?[0-9]+(_[0-9]+)*\s*", ma):
        key = "expiry-max-age-int-syntax"
    else:
        key = "expiry-other"
    return [{"key": key, "what": f"{where}: Max-Age={ma!r} Expires={(expires[0] if expires else None)!r}: is_expired "
                                 f"says {observed}, RFC 6265 says {ref}"}]


def oracle(case, obs):
    pre = "repaired-" if obs["fixed"] else ""
    if case.get("k") == "ex":
        return expiry_violation(obs["max_age"], obs["expires"], obs["r"], "is_expired")
    if case.get("k") == "dm":
        # only-if direction of RFC 6265 5.1.3 on the predicate itself
        if obs["r"] and not rfc_domain_match(_lower(case["a"]), rfc_cookie_domain(case["b"])):
            return [{"key": pre + "attach-" + _dom_family(case["a"], case["b"]),
                     "what": f"stickycookie.domain_match({case['a']!r}, {case['b']!r}) is True"}]
        return []
    if case.get("k") == "pm":
        t, cp = _u(case["t"]), _u(case["cp"])
        if obs["r"] and not rfc_path_match(t.partition("?")[0], cp):
            fam = "path-prefix-not-segment" if t.startswith(cp) else "path-other"
            return [{"key": pre + "attach-" + fam, "what": f"request target {t!r} accepted for cookie path {cp!r}"}]
        return []
    v = []
    jar = []  # the implementation's jar before the event (observed)
    for ev, o in zip(case["events"], obs["events"]):
        if ev["t"] == "resp":
            host, port = ev["host"], ev["port"]
            before = {(d, p, q): dict((n, val) for n, val in items) for (d, p, q), items in jar}
            after = {(d, p, q): dict((n, val) for n, val in items) for (d, p, q), items in o["jar"]}
            cs = []
            for c in o["parsed"]:
                v += expiry_violation(c["max_age"], c["expires"], c["expired"], f"Set-Cookie {_u(c['name'])!r} from {host!r}")
                dom = _b(host) if c["dom"] is None else c["dom"][0]
                path = _b("/") if c["path"] is None else c["path"][0]
                cs.append(((dom, port, path), c["name"], c["value"], c["expired"]))
            MISSING = object()
            for k, d in after.items():
                if not d:
                    v.append({"key": "empty-entry-left", "what": f"jar entry {k} is empty after response from {host!r}"})
                for n, val in d.items():
                    if before.get(k, {}).get(n, MISSING) == val:
                        continue
                    src = [c for c in cs if c[0] == k and c[1] == n and c[2] == val and c[3] is False]
                    if not src or k[0] is None:
                        v.append({"key": "store-unexplained", "what": f"binding {k}/{n} appeared without a matching Set-Cookie from {host!r}:{port}"})
                    elif not rfc_domain_match(_lower(host), rfc_cookie_domain(_u(k[0]))):
                        v.append({"key": "store-" + _dom_family(host, _u(k[0])),
                                  "what": f"cookie with Domain={_u(k[0])!r} stored from responding host {host!r}"})
            for k, d in before.items():
                for n in d:
                    if n in after.get(k, {}):
                        continue
                    src = [c for c in cs if c[0] == k and c[1] == n and c[3] is True]
                    if not src:
                        v.append({"key": "removed-unexplained", "what": f"binding {k}/{n} vanished without an expired Set-Cookie from {host!r}"})
                    elif not rfc_domain_match(_lower(host), rfc_cookie_domain(_u(k[0]))):
                        v.append({"key": "remove-" + _dom_family(host, _u(k[0])),
                                  "what": f"cookie with Domain={_u(k[0])!r} deleted by responding host {host!r}"})
            if o["ok"] and case["flt"]:
                last = {}
                for c in cs:
                    if c[0][0] is not None and stickycookie.domain_match(host, _u(c[0][0])):
                        last[(c[0], c[1])] = c
                for (k, n), c in last.items():
                    if c[3] is True and n in after.get(k, {}):
                        v.append({"key": "expired-not-removed", "what": f"expired cookie {k}/{n} from {host!r} is still in the jar"})
            jar = o["jar"]
        else:
            if o["raised"] or o["header"] == ev["cookie"]:
                continue
            host, port = _lower(ev["host"]), ev["port"]
            upath = _u(ev["path"]).partition("?")[0]
            ok_ents, bad_ents = [], []
            for i, ((d, p, q), items) in enumerate(jar):
                good = (q is not None and rfc_domain_match(host, rfc_cookie_domain(_u(d))) and p == port
                        and rfc_path_match(upath, _u(q)))
                (ok_ents if good else bad_ents).append(i)

            def explains(idx):
                pairs = [(_u(n), _u(val)) for i in idx for n, val in jar[i][1]]
                return bool(pairs) and _b(cookies.format_cookie_header(pairs)) == o["header"]

            SEVERITY = ["attach-path-prefix-not-segment", "attach-domain-extra-dots", "attach-domain-inner-substring",
                        "attach-path-other", "attach-domain-other", "attach-port"]

            def problems(i):
                """violated conditions of jar entry i for this request: [(key, what)]"""
                (d, p, q), _items = jar[i]
                out = []
                if p != port:
                    out.append(("attach-port", f"cookie of port {p} attached to request to port {port}"))
                if not rfc_domain_match(host, rfc_cookie_domain(_u(d))):
                    out.append(("attach-" + _dom_family(host, _u(d)),
                                f"cookie with domain {_u(d)!r} attached to request to host {ev['host']!r}"))
                if q is None or not rfc_path_match(upath, _u(q)):
                    fam = "path-prefix-not-segment" if q is not None and _u(ev["path"]).startswith(_u(q)) else "path-other"
                    out.append(("attach-" + fam, f"cookie with path {_u(q)!r} attached to request for {_u(ev['path'])!r}"))
                return out

            def search(pool):
                """the observation only shows the header: among all ways to explain it by jar entries take the most
                charitable one (mildest worst problem, then fewest problems)"""
                best = None
                for r in range(1, len(pool) + 1):
                    for sub in itertools.combinations(pool, r):
                        if explains(sub):
                            cost = sorted((SEVERITY.index(k) for i in sub for k, _ in problems(i)), reverse=True)
                            if best is None or cost < best[0]:
                                best = (cost, sub)
                return None if best is None else best[1]
            if not case["flt"] or not o["fmatch"]:
                v.append({"key": "attach-filter", "what": f"Cookie header changed although the filter does not match ({ev['host']!r})"})
            elif search(ok_ents) is None:
                sub = search(sorted(ok_ents + bad_ents)) if len(jar) <= 10 else None
                if sub is None:
                    v.append({"key": "attach-unexplained", "what": f"Cookie header {_u(o['header'])!r} on request to {ev['host']!r} is not made of jar entries"})
                for i in (sub or []):
                    for k, w in problems(i):
                        v.append({"key": k, "what": w})
    # one report per family and case; the known findings describe the unchanged code only: on a tree that has the
    # repaired predicates the same families are regressions and get their own keys
    seen, out = set(), []
    for x in v:
        if obs["fixed"] and not x["key"].startswith("expiry-"):
            x = {"key": "repaired-" + x["key"], "what": x["what"]}
        if x["key"] not in seen:
            seen.add(x["key"]); out.append(x)
    return out


def nontrivial(case, obs):
    if case.get("k") in ("dm", "pm", "ex"):
        return True
    jar_nonempty = False
    for ev, o in zip(case["events"], obs["events"]):
        if ev["t"] == "resp":
            jar_nonempty = bool(o["jar"])
        elif jar_nonempty:
            return True
    return False


def classify(case, obs):
    if case.get("k") in ("dm", "pm"):
        return [case["k"], f"{case['k']}-{'accept' if obs['r'] else 'reject'}"]
    if case.get("k") == "ex":
        return ["ex", f"ex-{obs['r']}", "ex-ref-" + str(ref_expired(obs["max_age"], obs["expires"]))]
    tags = ["history", "fixed" if obs["fixed"] else "orig", "flt" if case["flt"] else "noflt"]
    jar = []
    for ev, o in zip(case["events"], obs["events"]):
        if ev["t"] == "resp":
            if not o["ok"]:
                tags.append("resp-raised")
            if len(o["jar"]) > len(jar):
                tags.append("stored-new-key")
            elif len(o["jar"]) < len(jar):
                tags.append("key-removed")
            elif o["jar"] != jar:
                tags.append("jar-updated")
            elif o["parsed"]:
                tags.append("resp-no-effect")
            if any(c["expired"] is True for c in o["parsed"]):
                tags.append("has-expired")
            if any(c["dom"] is not None for c in o["parsed"]):
                tags.append("has-domain-attr")
            jar = o["jar"]
        else:
            if o["raised"]:
                tags.append("req-raised")
            elif o["header"] != ev["cookie"]:
                tags.append("attached")
            elif jar:
                tags.append("not-attached-jar-nonempty")
            else:
                tags.append("req-empty-jar")
    return sorted(set(tags))
