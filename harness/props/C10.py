"""C10 — Idle connections time out, but never while a hook is pending (TimeoutWatchdog, proxy/server.py)."""
from lib.coqterm import cbool, clist, cZ

ID = "C10"
QUICK_N = 2000
THOROUGH_N = 10000
SHARD = 500
TRANSLATORS = ["watchdog_cond"]
COQ_PRELUDE = "From MV Require Import Model.Watchdog.\n"
RULE = ("schedules of <=24 steps over {advance clock by d, activity, hook start (always preceded by an activity at the same "
        "instant, as server_event does), hook end, let the watcher task run (timer delivered at or after its due time = "
        "arbitrary overshoot)}; timeouts 5..40 ticks; overlapping hooks up to depth 3; 25% of schedules are built around the "
        "set-then-clear race (hook end and next hook start without a watcher step in between) and the small-gap/overshoot "
        "race; 30% of the schedules run each hook through the real handle_hook + AddonManager with a pending addon hook (async def, or a plain def returning a Future/Task/awaitable). Non-trivial = the watcher slept at least twice or fired or a hook spanned a watcher wake-up; distinct by canonical JSON.")
TRUSTED = ["Coq 8.16.1 kernel; vm_compute for case evaluation",
           "translator harness/translators/watchdog_cond.py (fail-closed ast walk of TimeoutWatchdog.watch)",
           "hand model of disarm()/register_activity and of asyncio.Event.wait/set/clear wake-up semantics, tied by correspondence",
           "virtual clock: time.time and asyncio.sleep of mitmproxy.proxy.server are replaced by harness shims",
           "30% of the schedules run the hook through the real ProxyConnectionHandler.handle_hook and the real AddonManager (invoke_addon) with addon hook functions that stay pending as async def / returned Future / Task / awaitable; the model sees HookStart/HookEnd at hook start / awaitable resolution"]
ASSUMPTIONS = ["time is integer ticks; real-time clock drift and float rounding are not modelled",
               "task cancellation of the watcher (CancelledError path) is outside this model"]


def gen(rng, n, tier):
    out = []
    for _ in range(n):
        T = rng.randint(5, 40)
        evs = []
        depth = 0
        steps = rng.randint(3, 24)
        style = rng.random()
        for _ in range(steps):
            r = rng.random()
            if style < 0.25 and depth > 0 and r < 0.25:
                # set-then-clear race: last hook ends, next starts in the same instant
                evs += [["end"]] * depth + [["act"], ["start"]]
                depth = 1
            elif r < 0.30:
                d = rng.choice([0, 1, 1, 2, 3, T - 1, T, T + 1, 2 * T + 1]) if rng.chance(0.7) else rng.randint(0, 3 * T)
                evs.append(["adv", d])
            elif r < 0.45:
                evs.append(["act"])
            elif r < 0.60 and depth < 3:
                evs += [["act"], ["start"]]
                depth += 1
            elif r < 0.72 and depth > 0:
                # hooks are concurrent tasks: they need not end in LIFO order
                evs.append(["end", rng.below(depth)])
                depth -= 1
            else:
                evs.append(["wstep"])
        case = {"T": T, "evs": evs}
        if rng.chance(0.3):
            # the hook is run by the real ProxyConnectionHandler.handle_hook through the real AddonManager; the addon's
            # hook function stays pending in one of the ways an addon can: async def, or a plain def returning a
            # Future / Task / other awaitable (e.g. loop.run_in_executor)
            case["via"] = "addon"
            case["kinds"] = [rng.choice(["async", "future", "task", "awaitable"]) for e in evs if e[0] == "start"]
        out.append(case)
    return out


# ------------------------------------------------------------------ implementation under a virtual clock
def setup_impl():
    global asyncio, server, mode_servers, addonmanager, options, tflow, TcpMessageHook, command
    import asyncio
    from mitmproxy.proxy import server, mode_servers
    from mitmproxy import addonmanager, options, command
    from mitmproxy.test import tflow
    from mitmproxy.proxy.layers.tcp import TcpMessageHook


class _Awaitable:
    def __init__(self, fut):
        self.fut = fut

    def __await__(self):
        return self.fut.__await__()


class _PendingAddon:
    """an addon whose tcp_message hook stays pending until the harness resolves it"""
    def __init__(self):
        self.plan = {}     # id(flow) -> (kind, future)

    def _tcp_message_sync(self, flow):
        kind, fut = self.plan[id(flow)]
        if kind == "future":
            return fut
        if kind == "task":
            async def wait():
                await fut
            return asyncio.get_running_loop().create_task(wait())
        return _Awaitable(fut)

    async def _tcp_message_async(self, flow):
        await self.plan[id(flow)][1]


class _AddonSync(_PendingAddon):
    def tcp_message(self, flow):
        if self.plan[id(flow)][0] == "async":
            return None
        return self._tcp_message_sync(flow)


class _AddonAsync(_PendingAddon):
    async def tcp_message(self, flow):
        if self.plan[id(flow)][0] == "async":
            await self._tcp_message_async(flow)


class _Master:
    def __init__(self):
        self.options = options.Options()
        self.commands = command.CommandManager(self)
        self.addons = addonmanager.AddonManager(self)


class _Clock:
    def __init__(self):
        self.now = 0

    def time(self):
        return self.now


def run_impl(case):
    clock = _Clock()
    timers = []  # [target, future]
    real_sleep = asyncio.sleep

    async def vsleep(delay, result=None):
        fut = asyncio.get_running_loop().create_future()
        timers.append([clock.now + max(delay, 0), fut, delay])
        await fut
        return result

    class _AsyncioShim:
        def __getattr__(self, name):
            return vsleep if name == "sleep" else getattr(asyncio, name)

    saved_time, saved_asyncio = server.time, server.asyncio
    server.time, server.asyncio = clock, _AsyncioShim()
    trace = []
    try:
        async def main():
            fired = []

            async def cb():
                fired.append(clock.now)
            wd = server.TimeoutWatchdog(case["T"], cb)
            task = asyncio.get_running_loop().create_task(wd.watch())
            stack = []
            via_addon = case.get("via") == "addon"
            if via_addon:
                master = _Master()
                a_sync, a_async = _AddonSync(), _AddonAsync()
                a_async.plan = a_sync.plan
                master.addons.add(a_sync, a_async)
                handler = object.__new__(mode_servers.ProxyConnectionHandler)
                handler.master = master
                handler.timeout_watchdog = wd
                kinds = list(case["kinds"])
                early = []   # hooks whose handle_hook returned before the addon's awaitable was resolved

            async def settle():
                for _ in range(6):
                    await real_sleep(0)
            for e in case["evs"]:
                if e[0] == "adv":
                    clock.now += e[1]
                elif e[0] == "act":
                    wd.register_activity()
                elif e[0] == "start" and via_addon:
                    f = tflow.ttcpflow()
                    fut = asyncio.get_running_loop().create_future()
                    master.addons.lookup  # (real AddonManager)
                    a_sync.plan[id(f)] = (kinds.pop(0), fut)
                    ht = asyncio.get_running_loop().create_task(handler.handle_hook(TcpMessageHook(f)))
                    stack.append((fut, ht, f))
                    await settle()
                elif e[0] == "end" and via_addon:
                    if stack:
                        i = (e[1] if len(e) > 1 else len(stack) - 1) % len(stack)
                        fut, ht, f = stack.pop(i)
                        if ht.done():
                            early.append(clock.now)
                        fut.set_result(None)
                        await settle()
                elif e[0] == "start":
                    cm = wd.disarm()
                    cm.__enter__()
                    stack.append(cm)
                elif e[0] == "end":
                    if stack:
                        i = (e[1] if len(e) > 1 else len(stack) - 1) % len(stack)
                        stack.pop(i).__exit__(None, None, None)
                elif e[0] == "wstep":
                    was_fired = bool(fired)
                    for t in list(timers):
                        if t[0] <= clock.now and not t[1].done():
                            t[1].set_result(None)
                            timers.remove(t)
                    await settle()
                    if fired and not was_fired:
                        trace.append(["fired", clock.now, len(stack)])  # hooks really pending, counted by the harness
                # observable after every step
                if via_addon:
                    for fut, ht, f in stack:
                        if ht.done() and not fut.done():
                            trace.append(["early", clock.now])
                pend = [t[0] for t in timers if not t[1].done()]
                trace.append([clock.now, wd.last_activity, wd.blocker, wd.can_timeout.is_set(),
                              bool(fired), pend[0] if pend else None, task.done()])
            if via_addon:
                for fut, ht, f in stack:
                    ht.cancel()
                await asyncio.gather(*[ht for _, ht, _ in stack], return_exceptions=True)
            task.cancel()
            try:
                await task
            except BaseException:
                pass
        asyncio.run(main())
    finally:
        server.time, server.asyncio = saved_time, saved_asyncio
    return {"trace": trace}


# ------------------------------------------------------------------ Coq terms
def c_ev(e):
    return {"adv": lambda: f"(Advance {cZ(e[1])})", "act": lambda: "Activity", "start": lambda: "HookStart",
            "end": lambda: "HookEnd", "wstep": lambda: "WatcherStep"}[e[0]]()


def coq_case(case, obs):
    if case.get("via") == "addon":
        # the event loop runs the watcher task whenever the hook tasks are given a turn, so the rows are not step-aligned
        # with the model; these schedules are judged by the oracle (pending hooks counted by the harness) only
        return None
    rows = [r for r in obs["trace"] if r[0] not in ("fired", "early")]
    def row(r):
        tgt = "None" if r[5] is None else f"(Some {cZ(r[5])})"
        return f"(mkObs {cZ(r[0])} {cZ(r[1])} {cZ(r[2])} {cbool(r[3])} {cbool(r[4])} {tgt})"
    return f"mkCase {cZ(case['T'])} {clist([c_ev(e) for e in case['evs']], 'wevent')} {clist([row(r) for r in rows], 'obs')}"


# ------------------------------------------------------------------ oracle
def oracle(case, obs):
    v = []
    T = case["T"]
    last_act = 0
    for r in obs["trace"]:
        if r[0] == "early":
            v.append({"key": "hook-not-awaited", "what": f"handle_hook returned at t={r[1]} while the awaitable returned by the addon's hook function was still pending: the hook is treated as complete (watchdog re-armed, layer resumed) while it is still running"})
            break
    for r in obs["trace"]:
        if r[0] == "fired":
            now, blocker = r[1], r[2]
            if blocker > 0:
                v.append({"key": "timeout-during-hook", "what": f"timeout callback fired at t={now} while {blocker} hook(s) were still pending"})
            break
    # fired although there was activity within the timeout
    fired_at = next((r[1] for r in obs["trace"] if r[0] == "fired"), None)
    if fired_at is not None:
        rows = [r for r in obs["trace"] if r[0] not in ("fired", "early")]
        la = max((r[1] for r in rows if isinstance(r[0], int) and r[0] <= fired_at), default=0)
        la_at_fire = [r[1] for r in rows if r[0] == fired_at]
        if la_at_fire and not (la_at_fire[0] + T < fired_at) and not any(x["key"] == "timeout-during-hook" for x in v):
            v.append({"key": "timeout-despite-activity", "what": f"fired at t={fired_at} with last activity {la_at_fire[0]} and timeout {T}"})
    return v


def nontrivial(case, obs):
    rows = [r for r in obs["trace"] if r[0] not in ("fired", "early")]
    tg = {r[5] for r in rows if r[5] is not None}
    return len(tg) >= 2 or any(r[4] for r in rows)


def classify(case, obs):
    rows = [r for r in obs["trace"] if r[0] not in ("fired", "early")]
    t = []
    if case.get("via") == "addon":
        t.append("via-real-addonmanager")
        t += ["addon-" + k for k in set(case["kinds"])]
    if any(r[4] for r in rows):
        t.append("fired")
    if any(r[2] >= 2 for r in rows):
        t.append("overlapping-hooks")
    if any(r[2] > 0 and r[5] is not None for r in rows):
        t.append("sleeping-during-hook")
    if any((not r[3]) and r[5] is None and not r[4] for r in rows):
        t.append("blocked-on-event")
    return t or ["plain"]
