"""C33 -- Request URL, host, port and authority stay consistent
(mitmproxy/http.py Request.url/host/port/authority, net/http/url.py, net/check.py)."""
import re

from lib.coqterm import cbytes, cbool, copt, cZ, cN, clist, cpair

ID = "C33"
QUICK_N = 3000
THOROUGH_N = 24000
SHARD = 300
COQ_PRELUDE = "From Coq Require Import NArith ZArith.\nFrom MV Require Import Model.Url.\n"
RULE = ("9% scheme-flip histories (url assignments that keep host and port but change the scheme, default and non-default ports, Host header / authority eliding or showing the port, HTTP/1 and HTTP/2, names, IPv6, IDN); 46% edit histories (1-5 of url/host/host-as-bytes/port assignments) on a real Request built from generated "
        "scheme/host/port/path/authority/headers (no, one, several, differently-cased Host fields; HTTP/1 and HTTP/2; CONNECT), "
        "observed after every edit (data fields, url, host_header, parse_authority of it, and a re-assignment of the url read back); "
        "URLs are composed from token dictionaries for scheme, userinfo, host (names, IPv4, generated IPv6 literals with zones and "
        "dotted tails, IPvFuture, ACE/Unicode IDN, boundary label/host lengths), port (none, default, zero, leading zeros, 65535/6, "
        "junk), path, params, query, fragment; 30% of them are then mutated (byte insert/delete/replace from a delimiter alphabet). "
        "45% direct calls: url.parse, is_valid_host (str and bytes), parse_authority, ipaddress.ip_address on generated IPv4/IPv6 "
        "texts (valid by construction and near-valid), hostport/unparse. Non-trivial = at least one edit succeeded or the direct "
        "call returned a positive result; distinct by canonical JSON.")
TRUSTED = ["Coq 8.16.1 kernel; vm_compute for case evaluation",
           "hand model of CPython 3.12.1 urllib.parse.urlsplit/urlparse/urlunparse + hostname/port accessors, ipaddress.ip_address "
           "validity, the ASCII paths of encodings.idna, re semantics of _authority_re and _label_valid: tied by correspondence only",
           "punycode/nameprep are parameters (ace, uenc) of the model; the correspondence instantiates them with the values the real "
           "codec returned for the labels/strings of each case",
           "Python str is represented by its UTF-8/surrogateescape bytes",
           "harness/props/C33.py generator, observation and comparison glue (Corr/C33.v)"]
ASSUMPTIONS = ["url.parse is entered with a str (Request.url always converts first); the bytes entry of url.parse (query quoting) is not modelled",
               "ports are Python ints; headers are bytes pairs; host strings are representable as UTF-8/surrogateescape",
               "model describes /repo WITH fixes/C33-hostport-brackets-ipv6.diff applied"]

s2b = lambda s: s.encode("utf-8", "surrogateescape")
b2s = lambda b: b.decode("utf-8", "surrogateescape")
hx = lambda b: b.hex()
unhx = bytes.fromhex

# ---------------------------------------------------------------- generator
HEXD = "0123456789abcdefABCDEF"


def g_hextet(rng):
    return "".join(rng.choice(HEXD) for _ in range(rng.randint(1, 4)))


def g_v4(rng):
    return ".".join(str(rng.choice([0, 1, 9, 10, 99, 100, 127, 199, 200, 249, 250, 255, rng.below(256)])) for _ in range(4))


def g_ipv6(rng):
    """valid by construction"""
    form = rng.below(4)
    if form == 0:
        s = ":".join(g_hextet(rng) for _ in range(8))
    elif form == 1:
        a = rng.randint(0, 7); b = rng.randint(0, 7 - a)
        s = ":".join(g_hextet(rng) for _ in range(a)) + "::" + ":".join(g_hextet(rng) for _ in range(b))
    elif form == 2:
        s = ":".join(g_hextet(rng) for _ in range(6)) + ":" + g_v4(rng)
    else:
        a = rng.randint(0, 5); b = rng.randint(0, 5 - a)
        s = ":".join(g_hextet(rng) for _ in range(a)) + "::" + "".join(g_hextet(rng) + ":" for _ in range(b)) + g_v4(rng)
    if rng.chance(0.15):
        s += rng.choice(["%25eth0", "%eth0", "%1", "%En0"])
    return s


def g_ipv6_bad(rng):
    s = g_ipv6(rng)
    m = rng.below(9)
    if m == 0: return s + ":" + g_hextet(rng) + ":1:2:3"
    if m == 1: return s.replace(":", "::", 1) if "::" not in s else s.replace("::", ":::", 1)
    if m == 2: return ":" + s
    if m == 3: return s + ":"
    if m == 4: return s.replace(":", ":12345:", 1)
    if m == 5: return s.replace(":", ":g:", 1)
    if m == 6: return "1::2::3"
    if m == 7: return s + "%"
    return rng.choice(["::1.2.3.256", "::01.2.3.4", "::1.2.3", "1:2:3:4:5:6:7:1.2.3.4", "::%", "::1%a%b", "1:2", ":", ":::", "::1/64",
                       "1:2:3:4:5:6:7::8", "1:2:3:4:5:6:7::", "::2:3:4:5:6:7:8", "1::3:4:5:6:7:8", "::", "1::"])


L63 = "a" * 63
# (text as written in a URL, canonical host as Request.host should read, valid, flags)
NAMES = [
    ("example.com", "example.com", True), ("EXAMPLE.Com", "example.com", True), ("a.b.c.d.e", "a.b.c.d.e", True),
    ("localhost", "localhost", True), ("exa_mple.com.", "exa_mple.com.", True), ("x-1.y_2", "x-1.y_2", True),
    ("1.2.3.4", "1.2.3.4", True), ("127.0.0.1", "127.0.0.1", True), ("999.999.999.999", "999.999.999.999", True),
    ("0", "0", True), ("-", "-", True), ("_", "_", True), (L63 + ".com", L63 + ".com", True),
    (".".join([L63] * 3) + "." + "b" * 61, ".".join([L63] * 3) + "." + "b" * 61, True),
    ("v1.a", "v1.a", True), ("xn", "xn", True), ("axn--b.de", "axn--b.de", True),
    (".".join([L63] * 3) + "." + "b" * 61 + ".c", ".".join([L63] * 3) + "." + "b" * 61 + ".c", True),      # 255 bytes
]
BAD_NAMES = [".".join([L63] * 3) + "." + "b" * 62 + ".c", "a" * 64 + ".com", "a..b", ".a", "a b", "exa%41mple.com", "h;x", "a,b", "", ".", "a" + ".b" * 130, "[", "]", "a]", "[a",
             "xn--a.com", "xn--.de", "ex\x00ample", "a:b", "fe80::1%x", "*", "a+b"]
# canonical (Unicode) form computed with the stdlib codec, which is a contract here
IDN_ACE = [(t, t.lower().encode("ascii").decode("idna")) for t in
           ["xn--bcher-kva.de", "XN--BCHER-KVA.DE", "xn--r8jz45g.xn--zckzah", "www.xn--dna-qma.example"]]
IDN_UNI = ["bücher.de", "例え.テスト", "faß.de", "BÜCHER.de", "℀.com", "a。b"]
SCHEMES = [("http", 8), ("https", 6), ("HTTP", 1), ("hTTps", 1)]
ODD_SCHEMES = ["ftp", "ws", "", "httpsx", "https+tls", "HTTPs.", "h+t.p-1", "1http", "http ", "ht tp", "tel", "mailto"]
USERINFO = ["u@", "u:p@", "a@b@", "@", ":@", "[@", "[::1]@", "[::1]@", "[v1.a]@"]
PORTS = ["", "", "", ":80", ":443", ":8080", ":1", ":65535", ":080", ":00443", ":8443"]
ODD_PORTS = [":", ":0", ":00", ":65536", ":99999999999", ":-1", ":8a", ": 80", ":80 ", ":+80", ":8_0", "::80", ":١"]
PATHS = ["", "/", "/p", "/a/b", "/a/b;c", "/a;b/c;d", "//x", "/%7e%2F", "/a b", "/a/", "/a;b;c", "/;", "/a;;b", "/*", "/a:b@c", "/[x]", "/a%"]
ODD_PATHS = ["/a;", "/a\tb", "/ü", "*", ";x", "/a\nb ", "/ ", "\\x"]
QUERIES = ["", "", "?x=1", "?a=b&c=d", "??", "?;", "?a/b", "?a:b@c", "?%20"]
ODD_QUERIES = ["?", "?ü"]
FRAGS = ["", "", "", "#f", "#a?b", "##", "#a/b;c", "#:"]
ODD_FRAGS = ["#"]
LEAD = ["", "", "", "", " ", "\x00", "\t", "\x1f  "]
MUT = list(":/?#@[]%.;- \t\n0aAxX") + ["//", "xn--", "::", "ü"]


def canon_path(path, q, f):
    """independent statement of path equivalence: empty params/query/fragment delimiters carry no information"""
    if not path.startswith("/"):
        path = "/" + path
    last = path.rsplit("/", 1)[1]
    if last.endswith(";") and last.index(";") == len(last) - 1:
        path = path[:-1]
    return path + (q if len(q) > 1 else "") + (f if len(f) > 1 else "")


def g_host(rng):
    """-> (url text, canonical host, valid, unicode_in_url)"""
    r = rng.random()
    if r < 0.40:
        t, c, v = rng.choice(NAMES)
        return t, c, v, False
    if r < 0.62:
        a = g_ipv6(rng)
        addr, pc, zone = a.partition("%")
        return "[" + a + "]", addr.lower() + pc + zone, True, False
    if r < 0.70:
        a = g_ipv6_bad(rng)
        return rng.choice(["[" + a + "]", a]), None, False, False
    if r < 0.78:
        t, c = rng.choice(IDN_ACE)
        return t, c, True, False
    if r < 0.84:
        t = rng.choice(IDN_UNI)
        return t, t, t == t.lower() and t in IDN_UNI[:2], True
    if r < 0.88:
        return rng.choice(["[v1.a]", "[vF.x:y]", "[v.a]", "[v1.]", "[1.2.3.4]", "[::1", "::1]", "[[::1]]", "[::1]x", "[]", "[::1.]", "[zz]",
                           "[FE80::1%25En0.]", "[::ffff:1.2.3.4.]"]), None, False, False
    return rng.choice(BAD_NAMES), None, False, False


def g_url(rng):
    """-> (url str, intent or None)"""
    valid = True
    if rng.chance(0.85):
        sch = rng.weighted([(w, s) for s, w in SCHEMES])
    else:
        sch = rng.choice(ODD_SCHEMES); valid = False
    host, chost, hv, uni = g_host(rng)
    valid = valid and hv
    ui = ""
    if rng.chance(0.08):
        ui = rng.choice(USERINFO); valid = False
    if rng.chance(0.85):
        port = rng.choice(PORTS)
    else:
        port = rng.choice(ODD_PORTS); valid = valid and port in (":0", ":00")
    if rng.chance(0.9):
        path = rng.choice(PATHS)
    else:
        path = rng.choice(ODD_PATHS); valid = valid and path == "/a;"
    q = rng.choice(QUERIES) if rng.chance(0.93) else rng.choice(ODD_QUERIES)
    f = rng.choice(FRAGS) if rng.chance(0.93) else rng.choice(ODD_FRAGS)
    if "ü" in q:
        valid = False
    lead = rng.choice(LEAD)
    valid = valid and lead == ""
    u = lead + sch + "://" + ui + host + port + path + q + f
    if rng.chance(0.3):
        valid = False
        for _ in range(rng.randint(1, 2)):
            i = rng.below(len(u) + 1)
            m = rng.below(3)
            tok = rng.choice(MUT)
            u = u[:i] + tok + u[i:] if m == 0 else (u[:i] + u[i + 1:] if m == 1 else u[:i] + tok + u[i + 1:])
    intent = None
    if valid:
        s = sch.lower()
        p = int(port[1:]) if port else None
        intent = {"scheme": s, "host": hx(s2b(chost)), "port": p if p is not None else (443 if s == "https" else 80),
                  "path": hx(s2b(canon_path(path, q, f))), "unicode_host": uni, "port_zero": p == 0}
    return u, intent


INIT_HOSTS = [("example.com", True), ("::1", True), ("bücher.de", True), ("", False), ("1.2.3.4", True), ("fe80::1%eth0", True),
              ("EXAMPLE.com", True), ("a b", False), ("[::1]", False)]
INIT_AUTH = [b"", b"", b"example.com", b"example.com:8080", b"xn--bcher-kva.de", b"[::1]:1", b"\xff", b"xn--a", b"a..b:1"]
PORT_POOL = [80, 443, 8080, 0, 1, 65535, 65536, -1, 8443, 10 ** 12]
HDRS = [[], [], [(b"Host", b"example.com")], [(b"host", b"old:1"), (b"Accept", b"*/*")],
        [(b"Accept", b"x"), (b"HOST", b"a"), (b"X", b"y"), (b"Host", b"b")], [(b"Hostx", b"q"), (b"hOst", b"\xff")]]


def g_set_host(rng):
    """-> (str host, valid)"""
    r = rng.random()
    if r < 0.35:
        t, c, v = rng.choice(NAMES)
        return rng.choice([t, c]), v
    if r < 0.60:
        return g_ipv6(rng), True
    if r < 0.70:
        return g_ipv6_bad(rng), False
    if r < 0.80:
        t = rng.choice(IDN_UNI)
        return t, t in IDN_UNI[:2]
    if r < 0.85:
        return "[" + g_ipv6(rng) + "]", False
    return rng.choice(BAD_NAMES + ["a\nb", "example.com\n", "ex\udcffample"]), False


def g_hist(rng):
    ih, ihv = rng.choice(INIT_HOSTS)
    init = {"scheme": hx(rng.choice([b"http", b"https", b"http", b"https", b"ftp", b"", b"HTTP"])), "host": hx(s2b(ih)), "host_valid": ihv,
            "port": rng.choice(PORT_POOL[:6]), "path": hx(rng.choice([b"/", b"/p?q", b"*", b"", b"/a;b#c"])),
            "authority": hx(rng.choice(INIT_AUTH)), "headers": [[hx(k), hx(v)] for k, v in rng.choice(HDRS)],
            "h2": rng.chance(0.4), "method": rng.choice(["GET", "GET", "GET", "POST", "CONNECT", "connect", "OPTIONS"])}
    ops = []
    for _ in range(rng.randint(1, 5)):
        k = rng.weighted([(5, "url"), (3, "host"), (1, "hostb"), (3, "port")])
        if k == "url":
            u, intent = g_url(rng)
            ops.append({"op": "url", "v": hx(s2b(u)), "intent": intent})
        elif k == "host":
            h, v = g_set_host(rng)
            ops.append({"op": "host", "v": hx(s2b(h)), "valid": v})
        elif k == "hostb":
            hb = rng.choice([b"example.com", b"xn--bcher-kva.de", b"xn--a", b"\xff", b"XN--BCHER-KVA.de", b"", b"a.xn--dna-qma.example.",
                             b"::1", b"a..b", b"xn--r8jz45g.xn--zckzah", b"b\xc3\xbccher.de", b"axn--b"])
            ops.append({"op": "hostb", "v": hx(hb)})
        else:
            ops.append({"op": "port", "v": rng.choice(PORT_POOL)})
    return {"k": "hist", "init": init, "ops": ops}


def g_flip(rng):
    """url assignments that keep host and port but change the scheme (and back), on requests whose Host header /
    authority elides or shows the port; HTTP/1 and HTTP/2; names, IPv6 literals, one IDN"""
    r = rng.random()
    if r < 0.45:
        host = rng.choice(NAMES[:13])[1]; utext = host
    elif r < 0.9:
        addr, pc, zone = g_ipv6(rng).partition("%")
        host = addr.lower() + pc + zone; utext = "[" + host + "]"
    else:
        utext, host = IDN_ACE[0]
    s0 = rng.choice(["http", "https"])
    port = rng.choice([DEFAULT[s0], DEFAULT[s0], DEFAULT["https" if s0 == "http" else "http"], 8080, 1, 65535])
    shown = lambda sch: ("[" + host + "]" if ":" in host else host) + ("" if DEFAULT[sch] == port else ":%d" % port)
    h2 = rng.chance(0.5)
    hdrs = rng.choice([[(b"Host", s2b(shown(s0)))], [(b"host", s2b(shown(s0))), (b"Accept", b"*/*")], []] if not h2 else
                      [[], [], [(b"Host", s2b(shown(s0)))]])
    try:
        auth = shown(s0).encode("idna")
    except UnicodeError:
        auth = s2b(shown(s0))
    if not (h2 or rng.chance(0.3)):
        auth = b""
    init = {"scheme": hx(s0.encode()), "host": hx(s2b(host)), "host_valid": True, "port": port, "path": hx(b"/p"),
            "authority": hx(auth), "headers": [[hx(k), hx(v)] for k, v in hdrs], "h2": h2, "method": "GET"}
    ops, cur = [], s0
    for _ in range(rng.randint(1, 3)):
        k = rng.weighted([(6, "flip"), (1, "same"), (1, "port")])
        if k == "port":
            port = rng.choice([80, 443, 8080])
            ops.append({"op": "port", "v": port})
            continue
        if k == "flip":
            cur = "https" if cur == "http" else "http"
        explicit = DEFAULT[cur] != port or rng.chance(0.4)
        path = rng.choice(["/p", "/", "/a;b?c#d"])
        u = cur + "://" + utext + (":%d" % port if explicit else "") + path
        ops.append({"op": "url", "v": hx(s2b(u)),
                    "intent": {"scheme": cur, "host": hx(s2b(host)), "port": port, "path": hx(s2b(path)),
                               "unicode_host": False, "port_zero": False}})
    return {"k": "hist", "init": init, "ops": ops}


def g_authority(rng):
    r = rng.random()
    if r < 0.3:
        t, c, v = rng.choice(NAMES)
        h = t
    elif r < 0.55:
        h = "[" + g_ipv6(rng) + "]"
    elif r < 0.65:
        h = rng.choice(["[" + g_ipv6_bad(rng) + "]", g_ipv6(rng)])
    elif r < 0.75:
        h = rng.choice([a for a, _ in IDN_ACE] + IDN_UNI)
    else:
        h = rng.choice(BAD_NAMES + ["[", "[]", "[a]", "[a]b]", "[a\nb]", "a\n", "[::1]\n"])
    p = rng.choice(["", "", ":80", ":0", ":65535", ":65536", ":", ":8a", ":80\n", "\n", ":080", ":-1", ": 1", ":١"])
    a = h + p
    if rng.chance(0.15):
        i = rng.below(len(a) + 1)
        a = a[:i] + rng.choice(MUT) + a[i:]
    return a


def gen(rng, n, tier):
    out = []
    for _ in range(n):
        r = rng.random()
        if r < 0.46:
            out.append(g_hist(rng))
        elif r < 0.55:
            out.append(g_flip(rng))
        elif r < 0.67:
            out.append({"k": "parse", "u": hx(s2b(g_url(rng)[0]))})
        elif r < 0.75:
            if rng.chance(0.5):
                h, _ = g_set_host(rng)
            else:
                h = g_url(rng)[0].split("://", 1)[-1].split("/", 1)[0]
            asb = rng.chance(0.5)
            try:
                hb = h.encode("ascii") if asb else s2b(h)
            except UnicodeEncodeError:
                asb, hb = False, s2b(h)
            if asb and rng.chance(0.1):
                hb = hb + rng.choice([b"\xff", b"\n", b".", b"..", b"\xc3\xbc"])
            out.append({"k": "vh", "h": hx(hb), "str": not asb})
        elif r < 0.83:
            out.append({"k": "pa", "a": hx(s2b(g_authority(rng)))})
        elif r < 0.92:
            m = rng.below(5)
            s = g_ipv6(rng) if m < 2 else (g_ipv6_bad(rng) if m < 4 else rng.choice(
                [g_v4(rng), g_v4(rng) + ".1", "1.2.3", "01.2.3.4", "1.2.3.256", "1.2.3.4/8", "1..2.3", "1.2.3.4 ", "0.0.0.0", "1.2.3.0004", "", "a.b.c.d",
                 "1.2.3.٤"]))
            out.append({"k": "ip", "s": hx(s2b(s))})
        else:
            h, v = g_set_host(rng)
            if "\udcff" in h:
                h, v = "example.com", True
            out.append({"k": "hp", "scheme": rng.choice(["http", "https", "ftp", "", "HTTP"]), "host": hx(s2b(h)), "valid": v,
                        "port": rng.choice(PORT_POOL), "path": hx(rng.choice([b"/", b"", b"/p?q#f"]))})
    return out


# ---------------------------------------------------------------- implementation
def setup_impl():
    global Request, Headers, url, check, ipaddress, idna, urllib
    import ipaddress
    import urllib.parse
    import encodings.idna as idna
    from mitmproxy.http import Request, Headers
    from mitmproxy.net.http import url
    from mitmproxy.net import check


def _ace_entries(tab, *blobs):
    for b in blobs:
        for lab in b.split(b".") + re.split(rb"[.:\[\]]", b):
            if lab.startswith(b"xn--") and hx(lab) not in tab:
                try:
                    tab[hx(lab)] = hx(s2b(idna.ToUnicode(lab)))
                except UnicodeError:
                    tab[hx(lab)] = None


def _uenc_entry(tab, s):
    b = s2b(s)
    if any(c >= 0x80 for c in b) and hx(b) not in tab:
        try:
            tab[hx(b)] = hx(s.encode("idna"))
        except UnicodeError:
            tab[hx(b)] = None


def _url_host_bytes(u):
    try:
        h = urllib.parse.urlparse(u).hostname
        return h.encode("ascii") if h else b""
    except ValueError:
        return b""


def _pa(a):
    try:
        h, p = url.parse_authority(a, True)
        return ["ok", hx(s2b(h)), p]
    except ValueError:
        return ["err"]


def _state(r):
    return [hx(r.data.scheme), hx(s2b(r.data.host)), r.data.port, hx(r.data.path), hx(r.data.authority),
            [[hx(k), hx(v)] for k, v in r.data.headers.fields]]


def _status(f):
    try:
        f()
        return 0
    except ValueError:
        return 1
    except Exception:
        return 2


def run_impl(case):
    k = case["k"]
    if k == "hist":
        i = case["init"]
        ace, uenc = {}, {}
        r = Request(b2s(unhx(i["host"])), i["port"], i["method"].encode(), unhx(i["scheme"]), unhx(i["authority"]), unhx(i["path"]),
                    b"HTTP/2.0" if i["h2"] else b"HTTP/1.1", Headers([(unhx(a), unhx(b)) for a, b in i["headers"]]), b"", None, 0.0, 0.0)
        _ace_entries(ace, unhx(i["authority"]))
        steps = []
        for o in case["ops"]:
            old_port = r.data.port
            if o["op"] == "url":
                v = b2s(unhx(o["v"]))
                _ace_entries(ace, _url_host_bytes(v))
                st = _status(lambda: setattr(r, "url", v))
            elif o["op"] == "host":
                st = _status(lambda: setattr(r, "host", b2s(unhx(o["v"]))))
            elif o["op"] == "hostb":
                _ace_entries(ace, unhx(o["v"]))
                st = _status(lambda: setattr(r, "host", unhx(o["v"])))
            else:
                st = _status(lambda: setattr(r, "port", o["v"]))
            for p in (old_port, r.data.port):
                _uenc_entry(uenc, url.hostport(r.scheme, r.data.host, p))
            _ace_entries(ace, r.data.authority)
            hh = r.host_header
            ob = {"st": st, "state": _state(r), "url": hx(s2b(r.url)), "hh": None if hh is None else hx(s2b(hh)),
                  "pa": None if hh is None else _pa(hh)}
            if hh is not None:
                _ace_entries(ace, s2b(hh))
            if o["op"] == "url" and st == 0:
                r2 = r.copy()
                u2 = r.url
                ob["re_st"] = _status(lambda: setattr(r2, "url", u2))
                ob["re_same"] = _state(r2) == _state(r)
                ob["re_url"] = hx(s2b(r2.url))
            steps.append(ob)
        return {"steps": steps, "ace": ace, "uenc": uenc}
    if k == "parse":
        u = b2s(unhx(case["u"]))
        ace = {}
        _ace_entries(ace, _url_host_bytes(u))
        try:
            s, h, p, pa = url.parse(u)
            return {"res": [hx(s), hx(h), p, hx(pa)], "ace": ace}
        except ValueError:
            return {"res": None, "ace": ace}
    if k == "vh":
        hb = unhx(case["h"])
        ace, uenc = {}, {}
        arg = b2s(hb) if case["str"] else hb
        if case["str"]:
            _uenc_entry(uenc, arg)
            try:
                _ace_entries(ace, arg.encode("idna"))
            except UnicodeError:
                pass
        else:
            _ace_entries(ace, hb)
        return {"res": bool(check.is_valid_host(arg)), "ace": ace, "uenc": uenc}
    if k == "pa":
        a = b2s(unhx(case["a"]))
        ace = {}
        _ace_entries(ace, unhx(case["a"]))
        return {"res": _pa(a), "ace": ace}
    if k == "ip":
        try:
            return {"res": ipaddress.ip_address(b2s(unhx(case["s"]))).version}
        except ValueError:
            return {"res": 0}
    if k == "hp":
        h = b2s(unhx(case["host"]))
        res = url.hostport(case["scheme"], h, case["port"])
        resb = url.hostport(case["scheme"].encode(), unhx(case["host"]), case["port"])
        if s2b(res) != resb:
            raise AssertionError("hostport str/bytes variants differ")
        ures = url.unparse(case["scheme"], h, case["port"], b2s(unhx(case["path"])))
        return {"res": hx(s2b(res)), "ures": hx(s2b(ures)), "pa": _pa(res)}
    raise KeyError(k)


# ---------------------------------------------------------------- Coq terms
cb = lambda h: cbytes(unhx(h))


def c_table(t):
    return clist((cpair(cb(k), copt(v, cb, "bytes")) for k, v in t.items()), "(bytes * option bytes)")


def c_hdrs(h):
    return clist((cpair(cb(a), cb(b)) for a, b in h), "(bytes * bytes)")


def c_pa(p):
    if p[0] == "err":
        return "PA_err"
    return f"(PA_ok {cb(p[1])} {copt(p[2], cZ, 'Z')})"


def coq_case(case, obs):
    k = case["k"]
    ace = obs.get("ace", {})
    if k == "hist":
        i = case["init"]
        init = (f"(mkReq {cb(i['scheme'])} {cb(i['host'])} {cZ(i['port'])} {cb(i['path'])} {cb(i['authority'])} {c_hdrs(i['headers'])} "
                f"{cbool(i['h2'])} {cbool(i['method'].upper() == 'CONNECT')})")
        steps = []
        for o, ob in zip(case["ops"], obs["steps"]):
            op = {"url": "SetUrl", "host": "SetHost", "hostb": "SetHostB"}.get(o["op"])
            opt = f"({op} {cb(o['v'])})" if op else f"(SetPort {cZ(o['v'])})"
            s = ob["state"]
            o_t = (f"(mkObs {cN(ob['st'])} {cb(s[0])} {cb(s[1])} {cZ(s[2])} {cb(s[3])} {cb(s[4])} {c_hdrs(s[5])} {cb(ob['url'])} "
                   f"{copt(ob['hh'], cb, 'bytes')} {copt(ob['pa'], c_pa, 'pa_result')})")
            steps.append(cpair(opt, o_t))
        return f"Hist {c_table(ace)} {c_table(obs['uenc'])} {init} {clist(steps, '(op * obs)')}"
    if k == "parse":
        r = obs["res"]
        rt = copt(r, lambda r: f"({cb(r[0])}, {cb(r[1])}, {cZ(r[2])}, {cb(r[3])})", "(bytes * bytes * Z * bytes)")
        return f"Parse {c_table(ace)} {cb(case['u'])} {rt}"
    if k == "vh":
        return f"ValidHost {c_table(ace)} {c_table(obs['uenc'])} {cbool(case['str'])} {cb(case['h'])} {cbool(obs['res'])}"
    if k == "pa":
        return f"PA {c_table(ace)} {c_table({})} {cb(case['a'])} {c_pa(obs['res'])}"
    if k == "ip":
        return f"IP {cb(case['s'])} {cN(obs['res'])}"
    if k == "hp":
        return f"HostPort {cbytes(case['scheme'].encode())} {cb(case['host'])} {cZ(case['port'])} {cb(obs['res'])} {cb(case['path'])} {cb(obs['ures'])}"
    return None


# ---------------------------------------------------------------- oracle (property on the implementation)
DEFAULT = {"http": 80, "https": 443}


def _canon_url(scheme, host, port, path):
    h = "[" + host + "]" if ":" in host else host
    return scheme + "://" + h + ("" if DEFAULT.get(scheme) == port else ":%d" % port) + path


def _dest_check(v, where, scheme, host, port, pa):
    """an existing Host header / authority must denote (host, port)"""
    want_port = None if DEFAULT.get(scheme) == port else port
    ok = pa[0] == "ok" and b2s(unhx(pa[1])).lower() == host.lower() and pa[2] == want_port
    if not ok:
        key = "ipv6-unbracketed" if ":" in host and pa[0] == "err" else "host-header-destination"
        v.append({"key": key, "what": f"{where}: host header does not denote destination ({host!r}, {port}): parse_authority -> {pa}"})


def oracle(case, obs):
    v = []
    k = case["k"]
    if k == "hp":
        host = b2s(unhx(case["host"]))
        if case["valid"] and 0 <= case["port"] <= 65535:
            _dest_check(v, f"hostport({case['scheme']!r}, {host!r}, {case['port']})", case["scheme"], host, case["port"], obs["pa"])
        return v
    if k != "hist":
        return v
    i = case["init"]
    connect = i["method"].upper() == "CONNECT"
    host_valid = i["host_valid"]
    for n, (o, ob) in enumerate(zip(case["ops"], obs["steps"])):
        st = ob["state"]
        scheme, host, port, path = b2s(unhx(st[0])), b2s(unhx(st[1])), st[2], b2s(unhx(st[3]))
        where = f"op {n} {o['op']}={b2s(unhx(o['v'])) if o['op'] != 'port' else o['v']!r}"
        if ob["st"] == 2:
            v.append({"key": "unexpected-exception", "what": f"{where}: raised something other than ValueError"})
            continue
        if o["op"] == "url":
            it = o.get("intent")
            if ob["st"] != 0:
                if it:
                    v.append({"key": "idn-unicode-url-rejected" if it["unicode_host"] else "url-rejected",
                              "what": f"{where}: valid URL rejected with ValueError"})
                continue
            host_valid = bool(it)
            if it and not connect:
                want = (it["scheme"], b2s(unhx(it["host"])), it["port"], b2s(unhx(it["path"])))
                got = (scheme, host, port, path)
                if got != want:
                    pz = it["port_zero"] and got[:2] + got[3:] == want[:2] + want[3:]
                    v.append({"key": "port-zero-read-as-default" if pz else "url-components",
                              "what": f"{where}: components read back {got}, URL says {want}"})
                elif b2s(unhx(ob["url"])) != _canon_url(*want):
                    v.append({"key": "ipv6-unbracketed" if ":" in host and "[" not in b2s(unhx(ob["url"])) else "url-readback",
                              "what": f"{where}: url reads back {b2s(unhx(ob['url']))!r}, equivalent form is {_canon_url(*want)!r}"})
            if scheme in DEFAULT and not connect:
                if not (ob["re_st"] == 0 and ob["re_same"] and ob["re_url"] == ob["url"]):
                    key = ("idn-readback-not-reassignable" if any(ord(c) > 127 for c in host)
                           else "ipv6-trailing-dot-host" if ":" in host and host.endswith(".") and ob["re_st"] == 1 and "[" in b2s(unhx(ob["url"]))
                           else "ipv6-unbracketed" if ":" in host and "[" not in b2s(unhx(ob["url"])) else "url-reassign")
                    v.append({"key": key, "what": f"{where}: url reads back {b2s(unhx(ob['url']))!r}; assigning it again -> status {ob['re_st']}, "
                                                  f"state unchanged={ob['re_same']}"})
        elif o["op"] == "host":
            host_valid = o["valid"]
        elif o["op"] == "hostb":
            host_valid = False
        if ob["st"] == 0 and host_valid and 0 <= port <= 65535 and ob["pa"] is not None:
            _dest_check(v, where, scheme, host, port, ob["pa"])
    return v


def nontrivial(case, obs):
    if case["k"] == "hist":
        return any(s["st"] == 0 for s in obs["steps"])
    if case["k"] == "hp":
        return True
    r = obs["res"]
    return bool(r) and r != ["err"]


def classify(case, obs):
    k = case["k"]
    tags = [k]
    if k == "hist":
        for o, ob in zip(case["ops"], obs["steps"]):
            tags.append(f"{o['op']}:{'ok' if ob['st'] == 0 else 'err'}")
            h = b2s(unhx(ob["state"][1]))
            if ob["st"] == 0:
                if ":" in h: tags.append("host-ipv6")
                if any(ord(c) > 127 for c in h): tags.append("host-idn")
                if ob["hh"] is not None: tags.append("has-host-header")
                if ob["pa"] is not None and ob["pa"][0] == "err": tags.append("pa-err")
            if o["op"] == "url" and o.get("intent"): tags.append("url-intent-valid")
        if obs["ace"]: tags.append("ace-table")
        if obs["uenc"]: tags.append("uenc-table")
        tags.append("h2" if case["init"]["h2"] else "h1")
    elif k == "parse":
        tags.append("parse-ok" if obs["res"] else "parse-err")
    elif k == "vh":
        tags.append(f"vh-{'str' if case['str'] else 'bytes'}-{obs['res']}")
    elif k == "pa":
        tags.append("pa-" + obs["res"][0])
    elif k == "ip":
        tags.append(f"ip-{obs['res']}")
    return sorted(set(tags))
