"""C34 -- Query, cookie, form and path views are lossless (mitmproxy/http.py, net/http/{url,cookies,multipart}.py,
coretypes/multidict.py). str values travel as UTF-8/surrogateescape bytes (hex in JSON)."""
from lib.coqterm import cbytes, clist, copt, cpair, cnat, hx, unhx

ID = "C34"
QUICK_N = 3000
THOROUGH_N = 24000
SHARD = 300
RULE = ("15 case kinds: quote/unquote, url.encode (with similar_to), url.decode, Request.query set/get on a raw path "
        "(params, query, fragment, TAB/CR/LF, repeated slashes), path_components, urlencoded_form on EXISTING requests (prior Content-Type: none, "
        "other types, form type with utf-8/latin-1/utf-16/utf-16le/be/utf-32/cp037/bogus charset, duplicate and mixed-case headers, "
        "Transfer-Encoding, stale Content-Length; old bodies encoded in that charset, with and without '=' per field; written bodies of "
        "even and odd length), cookie formatter, cookie tokenizer on arbitrary header text, Request.cookies over header "
        "lists with several Cookie headers, Set-Cookie tokenizer, Response.cookies with attributes (expires/path/None), "
        "multipart encode / decode (mutated bodies, LF-only bodies, missing blank line) / view, MultiDictView mutators on "
        "query. ~70% of strings come from per-kind token dictionaries (separators, quotes, backslashes, CR/LF, Unicode "
        "white space, multi-byte and invalid UTF-8, percent escapes, the boundary itself), ~30% are mutated/raw bytes. "
        "Non-trivial = the written wire text differs from a plain concatenation of the inputs (needs quoting/escaping) or "
        "the parsed input contains a delimiter; distinct by canonical JSON.")
TRUSTED = ["Coq 8.16.1 kernel (coqc), vm_compute for byte sweeps and case evaluation",
           "harness/props/C34.py generator, observation glue and Corr/C34.v comparison",
           "CPython UTF-8/surrogateescape codec: a str is represented by its encoding; strs that are not the decoding of "
           "some byte string (lone surrogates outside U+DC80-DCFF, or surrogate escapes spelling valid UTF-8) are outside the domain",
           "hand models of urllib.parse quote/unquote/quote_plus/urlencode/parse_qsl and of urlparse/urlunparse restricted to the "
           "text after scheme://authority (origin-form path); tied by correspondence only",
           "headers.parse_content_type (the model receives the boundary parameter), mimetypes.guess_type(str(bytes)) returning None, "
           "Message.get_text/set_content without Content-Encoding (the model receives the texts get_text returns), str.lower/str.lstrip tables",
           "get_text contract of C34_form_msg_partial: under Content-Type application/x-www-form-urlencoded without parameters an ASCII body is "
           "its own text (its instances are compared in every Form case)"]
ASSUMPTIONS = ["Request.path is in origin form (starts with '/'), scheme http/https and a host without '/?#'",
               "no Content-Encoding header on messages whose body is rewritten through a form view (C31 covers codecs)",
               "Python str.lower never maps a non-ASCII string to the ASCII words expires/path"]
COQ_PRELUDE = "From MV Require Import Model.MvCommon Model.MvCookie Model.MvViews Model.MvForm.\n"

E = lambda s: s.encode("utf-8", "surrogateescape")
D = lambda b: b.decode("utf-8", "surrogateescape")

UNI = ["\u00e9", "\u20ac", "\U0001f600", "\u2003", "\u0085", "\u00a0", "\u3000", "\u1680", "\u212a", "\u0130"]
BAD = [b"\xff", b"\xc3", b"\xe2\x80", b"\xed\xa0\x80", b"\xf4\x90\x80\x80", b"\x80"]
COMMON = [b"a", b"b", b"k", b"v", b"x1", b"foo", b"Bar", b"0", b"~", b"_", b".", b"-"] + [E(u) for u in UNI] + BAD
URL_T = COMMON + [b"%", b"%41", b"%4", b"%zz", b"%c3%a9", b"%C3", b"+", b" ", b"&", b"=", b"/", b";", b"?", b"#",
                  b"\t", b"\r", b"\n", b"=&", b"&&", b"==", b":", b"@", b"'", b'"', b"\\", b"\x00", b"\x7f"]
CK_T = COMMON + [b";", b"; ", b"=", b",", b", ", b'"', b"\\", b'\\"', b"\\\\", b" ", b"  ", b"\t", b"\r\n", b"\x1c", b"\x7f",
                 b"\x00", b"expires", b"Expires", b"path", b"PATH", b"Max-Age", b"HttpOnly", b"Thu, 01 Jan 2030 00:00:00 GMT",
                 b"Thu", b"abcd", b"/", b"=;", b"a=b", b'"q"', b'="', b'";']
MP_T = COMMON + [b"\r\n", b"\n", b"\r", b"\r\n\r\n", b'"', b"--", b"-", b"name=", b'name="', b'name="z"', b" ", b";",
                 b"a.png", b"x.tar.gz", b"data:text/html,hi", b"\x00", b"'", b"Content-Disposition: form-data; ", b"_name=\"q\""]
BOUNDARIES = [b"somefancyboundary", b"127824672498", b"--------------------0123456789abcdef0123456789abcdef", b"a/b.c~d_e-f",
              b"X", b"----=_Part_0_1.2", b"a b", b"b+c", b"q:r", b"'q'", b"(x)", b"a,b", b"a?b", b"w%41"]


def toks(rng, T, lo, hi):
    return b"".join(rng.choice(T) for _ in range(rng.randint(lo, hi)))


def gstr(rng, T, hi=5, raw=0.1):
    if rng.chance(raw):
        return rng.bytes(rng.randint(0, 8))
    return toks(rng, T, 0, hi)


def plain(rng, lo=1, hi=4):
    return toks(rng, [b"a", b"b", b"k", b"v", b"x1", b"foo", b"Bar", b"0", b"_", b"."], lo, hi)


def gpairs(rng, T, hi=4, p_plain=0.35):
    out = []
    for _ in range(rng.randint(0, hi)):
        k = plain(rng) if rng.chance(p_plain) else gstr(rng, T, 3)
        v = plain(rng, 0, 3) if rng.chance(p_plain) else gstr(rng, T, 4)
        out.append([hx(k), hx(v)])
    return out


def gpath(rng):
    p = b"/" + b"/".join(gstr(rng, [b"a", b"b", b"%41", b"%2F", b"x.y", b"", b";p", b";", E("é"), b"\t", b"%", b" "], 2, 0.0)
                         for _ in range(rng.randint(0, 3)))
    if rng.chance(0.4):
        p += b";" + toks(rng, [b"p", b"=", b"1", b";", b"q", b"/z", b"\n"], 0, 3)
    if rng.chance(0.5):
        p += b"?" + toks(rng, [b"a", b"=", b"1", b"&", b"b", b"%41", b"+", b"?", b"\r", b"=&", E("€")], 0, 6)
    if rng.chance(0.3):
        p += b"#" + toks(rng, [b"f", b"#", b"?", b"/", b";", b"\t", b"x"], 0, 3)
    return p


def gfields(rng, name, T):
    f = []
    for _ in range(rng.randint(0, 4)):
        r = rng.random()
        if r < 0.5:
            n = rng.choice([name, name.upper(), name.title()])
            v = gline(rng, T)
        else:
            n = rng.choice([b"Host", b"X-A", b"Accept", b"cookie2"])
            v = plain(rng, 0, 3)
        f.append([hx(n), hx(v)])
    return f


def gline(rng, T):
    r = rng.random()
    if r < 0.5:
        parts = []
        for _ in range(rng.randint(0, 4)):
            k = plain(rng, 0, 2) if rng.chance(0.6) else gstr(rng, T, 2)
            if rng.chance(0.15):
                parts.append(k)
            else:
                v = plain(rng, 0, 3) if rng.chance(0.4) else (b'"' + gstr(rng, T, 3) + b'"' if rng.chance(0.4) else gstr(rng, T, 3))
                parts.append(k + b"=" + v)
        return rng.choice([b"; ", b";", b", ", b" ; "]).join(parts)
    return gstr(rng, T, 8, 0.15)


def gattrs(rng):
    out = []
    for _ in range(rng.randint(0, 3)):
        r = rng.random()
        if r < 0.35:
            k = rng.choice([b"expires", b"Expires", b"path", b"Path", b"PATH"])
            v = rng.choice([b"Thu, 01 Jan 2030 00:00:00 GMT", b"/", b"/a/b", b"x", b"abcd", b"abc,", b"Thu,", b"ab;c", b'"q"', b"",
                            b"Mon, x", b"Monday, 01", E("éé,z"), E("éééé"), b"\xff\xff,q"])
            out.append([hx(k), hx(v)])
        elif r < 0.55:
            out.append([hx(rng.choice([b"HttpOnly", b"Secure", b"", b" x", b"k"])), None])
        else:
            out.append([hx(plain(rng, 0, 2) if rng.chance(0.6) else gstr(rng, CK_T, 2)),
                        hx(plain(rng, 0, 2) if rng.chance(0.4) else gstr(rng, CK_T, 3))])
    return out


def gsetcookies(rng):
    out = []
    for _ in range(rng.randint(0, 3)):
        n = plain(rng, 0, 2) if rng.chance(0.6) else gstr(rng, CK_T, 2)
        v = None if rng.chance(0.1) else hx(plain(rng, 0, 3) if rng.chance(0.4) else gstr(rng, CK_T, 3))
        out.append([hx(n), v, gattrs(rng)])
    return out


def gparts(rng, boundary):
    T = MP_T + [b"--" + boundary, boundary]
    out = []
    for _ in range(rng.randint(0, 3)):
        k = plain(rng) if rng.chance(0.6) else gstr(rng, T, 3)
        r = rng.random()
        if r < 0.45:
            v = plain(rng, 0, 4) + rng.choice([b"", b" ", b"-", b"--", E("€"), b"\xff\x00"])
        elif r < 0.5:
            v = b"--" + boundary + rng.choice([b"", b"\n", b"\r\n", b"--"])
        else:
            v = gstr(rng, T, 4)
        out.append([hx(k), hx(v)])
    return out


def gct(rng):
    r = rng.random()
    b = rng.choice(BOUNDARIES[:5]) if rng.chance(0.7) else rng.choice(BOUNDARIES[5:])
    if r < 0.8:
        return "multipart/form-data; boundary=" + b.decode(), b
    if r < 0.85:
        return rng.choice(["", "multipart/form-data", "nonsense", "multipart/form-data; boundary=é"]), b
    if r < 0.93:
        return "Multipart/Form-Data;charset=x; boundary= " + b.decode() + " ", b
    return 'multipart/form-data; boundary="' + b.decode() + '"', b


def gbody(rng, b):
    nl = rng.choice([b"\r\n", b"\r\n", b"\n", b"\r"])
    out = b""
    for _ in range(rng.randint(0, 3)):
        k = plain(rng) if rng.chance(0.7) else gstr(rng, MP_T, 2)
        hdr = rng.choice([b'Content-Disposition: form-data; name="%b"', b'Content-Disposition: form-data; name="%b"; filename="f.txt"',
                          b'content-disposition: form-data;name="%b"', b'Content-Disposition: form-data; xname="%b"',
                          b'Content-Disposition: form-data; name=%b']) % k
        lines = [b"--" + b, hdr]
        if rng.chance(0.6):
            lines.append(b"Content-Type: text/plain")
        if not rng.chance(0.08):
            lines.append(b"")
        lines.append(plain(rng, 0, 3) if rng.chance(0.6) else gstr(rng, MP_T, 3))
        if rng.chance(0.4):
            lines.append(b"")
        out += nl.join(lines) + nl
    out += b"--" + b + b"--" + rng.choice([nl, b""])
    if rng.chance(0.2) and out:
        i = rng.below(len(out))
        out = out[:i] + rng.choice([b"", b"\n", b"--", b'"', b"\x00"]) + out[i + rng.below(3):]
    return out


def gop(rng, T):
    r = rng.random()
    k = rng.choice([b"a", b"b", b"k"]) if rng.chance(0.6) else gstr(rng, T, 2)
    v = gstr(rng, T, 3)
    if r < 0.3:
        return ["setitem", hx(k), hx(v)]
    if r < 0.5:
        return ["set_all", hx(k), [hx(gstr(rng, T, 2)) for _ in range(rng.randint(0, 3))]]
    if r < 0.65:
        return ["add", hx(k), hx(v)]
    if r < 0.8:
        return ["insert", rng.randint(0, 4), hx(k), hx(v)]
    return ["del", hx(k)]


FORM = "application/x-www-form-urlencoded"
FORM_CTS = [(None, "utf-8"), (FORM, "utf-8"), (FORM, "utf-8"), ("text/plain", "utf-8"), (FORM + "; charset=utf-8", "utf-8"),
            (FORM + "; charset=ISO-8859-1", "latin-1"), ("Application/X-WWW-Form-Urlencoded;charset=UTF-16", "utf-16"),
            (FORM + "; charset=utf-16le", "utf-16le"), (FORM + "; charset=utf-16be", "utf-16be"), (FORM + "; charset=utf-32", "utf-32"),
            (FORM + "; charset=cp037", "cp037"), (FORM + "; charset=bogus", "utf-8"), ("multipart/form-data; boundary=x", "utf-8"),
            ("application/json; charset=utf-16", "utf-16"), ("text/html; x=" + FORM, "utf-8")]


def gform(rng):
    """an EXISTING request: arbitrary prior Content-Type header(s) (form type with ASCII-compatible and -incompatible
    charsets, other types, none, duplicates), other headers, old body encoded in the header's charset"""
    ct, codec = rng.choice(FORM_CTS)
    text = rng.choice([None, "", "a=1&b=2", "a&b", "a=1&b", "=", "x=&y=", "\u00e9=1&z", "old=1", "old=1&y=2", "a&="])
    if rng.chance(0.2):
        text = toks(rng, [b"a", b"=", b"&", b"b=1", b"c"], 0, 5).decode()
    old = None if text is None else text.encode(codec, "replace")
    if old is not None and rng.chance(0.1):
        old = rng.bytes(rng.randint(0, 6))
    h = []
    if rng.chance(0.4):
        h.append([b"Host", b"example.com"])
    if rng.chance(0.15):
        h.append([rng.choice([b"Content-Length", b"content-length"]), b"5"])
    if ct is not None:
        h.append([rng.choice([b"content-type", b"Content-Type", b"CONTENT-TYPE"]), ct.encode()])
    if rng.chance(0.15):
        h.append([b"Transfer-Encoding", b"chunked"])
    if rng.chance(0.3):
        h.append([b"X-A", plain(rng, 0, 2)])
    if rng.chance(0.12):
        h.append([b"Content-Type", rng.choice(FORM_CTS[1:])[0].encode()])
    return {"k": "form", "h": [[hx(a), hx(b)] for a, b in h], "old": None if old is None else hx(old), "l": gpairs(rng, URL_T)}


KINDS = [("quote", 6), ("urlenc", 7), ("urldec", 7), ("query", 10), ("pathcomp", 8), ("form", 8), ("cookiefmt", 6),
         ("cookieparse", 9), ("reqcookies", 8), ("scparse", 9), ("respcookies", 8), ("mpenc", 6), ("mpdec", 9), ("mpview", 9),
         ("queryop", 6)]


def gen_one(rng, k):
    if k == "quote":
        return {"k": k, "safe": hx(rng.choice([b"", b"/", b" ", b"/:=", b"~:"])), "s": hx(gstr(rng, URL_T, 6, 0.25))}
    if k == "urlenc":
        sim = None if rng.chance(0.4) else hx(toks(rng, [b"a", b"=", b"&", b"b=1", b"c", b"=x"], 0, 4))
        return {"k": k, "l": gpairs(rng, URL_T), "sim": sim}
    if k == "urldec":
        return {"k": k, "qs": hx(toks(rng, URL_T + [b"a=1", b"&", b"&", b"=", b"b=%41+c"], 0, 8))}
    if k == "query":
        return {"k": k, "path": hx(gpath(rng)), "l": gpairs(rng, URL_T)}
    if k == "pathcomp":
        comps = [hx(plain(rng, 0, 2) if rng.chance(0.4) else gstr(rng, URL_T, 3)) for _ in range(rng.randint(0, 4))]
        return {"k": k, "path": hx(gpath(rng)), "comps": comps}
    if k == "form":
        return gform(rng)
    if k == "cookiefmt":
        return {"k": k, "l": gpairs(rng, CK_T)}
    if k == "cookieparse":
        return {"k": k, "line": hx(gline(rng, CK_T))}
    if k == "reqcookies":
        return {"k": k, "h": gfields(rng, b"cookie", CK_T), "l": gpairs(rng, CK_T)}
    if k == "scparse":
        return {"k": k, "line": hx(gline(rng, CK_T))}
    if k == "respcookies":
        return {"k": k, "h": gfields(rng, b"set-cookie", CK_T), "l": gsetcookies(rng)}
    if k == "mpenc":
        ct, b = gct(rng)
        return {"k": k, "ct": ct, "parts": gparts(rng, b)}
    if k == "mpdec":
        ct, b = gct(rng)
        return {"k": k, "ct": ct, "content": hx(gbody(rng, b))}
    if k == "mpview":
        ct, b = (None, b"") if rng.chance(0.35) else gct(rng)
        if ct is not None and not ct.lower().startswith("multipart/form-data; boundary=") and not ct.startswith("Multipart"):
            ct = None
        return {"k": k, "ct": ct, "parts": gparts(rng, b or b"0123456789abcdef")}
    if k == "queryop":
        p = gpath(rng)
        if rng.chance(0.5):
            p = p.split(b"?")[0].split(b"#")[0] + b"?a=1&b=2&a=3&k=&b"
        return {"k": k, "path": hx(p), "op": gop(rng, URL_T)}
    raise AssertionError(k)


def gen(rng, n, tier):
    kinds = [(w, k) for k, w in KINDS]
    return [gen_one(rng, rng.weighted(kinds)) for _ in range(n)]


# ---------------------------------------------------------------- implementation runner
def setup_impl():
    global http, url, cookies, multipart, nheaders
    from mitmproxy import http  # noqa
    from mitmproxy.net.http import url, cookies, multipart  # noqa
    from mitmproxy.net.http import headers as nheaders  # noqa


def _req(path=b"/", fields=(), content=b""):
    r = http.Request.make("POST", "http://example.com:8080/", b"")
    r.data.content = content
    r.data.path = path
    r.headers = http.Headers([(unhx(a), unhx(b)) for a, b in fields])
    return r


def _others(r, idx):
    """the urlparse components (2 path, 3 params, 4 query, 5 fragment) a view must leave alone, by urllib itself"""
    import urllib.parse
    p = urllib.parse.urlparse(r.url)
    return [hx(E(p[i])) for i in idx]


def _other_headers(fields, name):
    return [[a, b] for a, b in fields if unhx(a).lower() != name]


def _hp(l):
    return [[hx(E(a)), hx(E(b))] for a, b in l]


def _sp(l):
    return [(D(unhx(a)), D(unhx(b))) for a, b in l]


def _sc_out(fields):
    return [[hx(E(n)), None if v is None else hx(E(v)), [[hx(E(a)), None if b is None else hx(E(b))] for a, b in attrs.fields]]
            for n, (v, attrs) in fields]


def _sc_in(l):
    return [(D(unhx(n)), (None if v is None else D(unhx(v)),
                          cookies.CookieAttrs([(D(unhx(a)), None if b is None else D(unhx(b))) for a, b in attrs])))
            for n, v, attrs in l]


def _boundary(ct):
    if not ct:
        return None
    p = nheaders.parse_content_type(ct)
    if not p:
        return None
    try:
        return hx(p[2]["boundary"].encode("ascii"))
    except (KeyError, UnicodeError):
        return None


def _bparts(l):
    return [(unhx(a), unhx(b)) for a, b in l]


def _hb(l):
    return [[hx(a), hx(b)] for a, b in l]


def run_impl(case):
    k = case["k"]
    if k == "quote":
        s = D(unhx(case["s"]))
        q = url.quote(s, safe=unhx(case["safe"]).decode())
        return {"q": hx(E(q)), "u": hx(E(url.unquote(s))), "uq": hx(E(url.unquote(q)))}
    if k == "urlenc":
        sim = None if case["sim"] is None else D(unhx(case["sim"]))
        enc = url.encode(_sp(case["l"]), sim)
        return {"enc": hx(E(enc)), "dec": _hp(url.decode(enc))}
    if k == "urldec":
        return {"dec": _hp(url.decode(D(unhx(case["qs"]))))}
    if k == "query":
        r = _req(unhx(case["path"]))
        before = _hp(r.query.fields)
        r2 = r.copy()
        o1 = _others(r, (2, 3, 5))
        r.query = _sp(case["l"])
        r2.query = r2.query.fields
        return {"before": before, "path_after": hx(r.data.path), "after": _hp(r.query.fields), "wb": _hp(r2.query.fields),
                "others": [o1, _others(r, (2, 3, 5))]}
    if k == "pathcomp":
        r = _req(unhx(case["path"]))
        before = [hx(E(c)) for c in r.path_components]
        r2 = r.copy()
        o1 = _others(r, (3, 4, 5))
        r.path_components = [D(unhx(c)) for c in case["comps"]]
        r2.path_components = r2.path_components
        return {"before": before, "path_after": hx(r.data.path), "after": [hx(E(c)) for c in r.path_components],
                "wb": [hx(E(c)) for c in r2.path_components], "others": [o1, _others(r, (3, 4, 5))]}
    if k == "form":
        fields = case["h"] if "h" in case else ([] if case["ct"] is None else [[hx(b"content-type"), hx(case["ct"].encode())]])
        r = _req(b"/", fields, None if case["old"] is None else unhx(case["old"]))
        # the text url.encode(similar_to=...) sees: the setter assigns the header first, then calls get_text
        r3 = r.copy()
        r3.headers["content-type"] = FORM
        old_text = r3.get_text(strict=False)
        r2 = r.copy()
        is_form = FORM in r.headers.get("content-type", "").lower()
        r.urlencoded_form = _sp(case["l"])
        wb_before = wb_after = None
        if is_form:
            wb_before = _hp(r2.urlencoded_form.fields)
            r2.urlencoded_form = r2.urlencoded_form.fields
            wb_after = _hp(r2.urlencoded_form.fields)
        return {"h": fields, "old_text": None if old_text is None else hx(E(old_text)), "body": hx(r.data.content),
                "h_after": _hb(r.headers.fields), "text_after": hx(E(r.get_text(strict=False))),
                "after": _hp(r.urlencoded_form.fields), "is_form": is_form,
                "wb_before": wb_before, "wb_after": wb_after}
    if k == "cookiefmt":
        h = cookies.format_cookie_header(_sp(case["l"]))
        return {"hdr": hx(E(h)), "back": _hp(cookies.parse_cookie_header(h))}
    if k == "cookieparse":
        return {"dec": _hp(cookies.parse_cookie_header(D(unhx(case["line"]))))}
    if k == "reqcookies":
        r = _req(b"/", case["h"])
        before = _hp(r.cookies.fields)
        r2 = r.copy()
        r.cookies = _sp(case["l"])
        r2.cookies = r2.cookies.fields
        return {"before": before, "h_after": _hb(r.headers.fields), "after": _hp(r.cookies.fields), "wb": _hp(r2.cookies.fields)}
    if k == "scparse":
        return {"dec": [[hx(E(n)), None if v is None else hx(E(v)), [[hx(E(a)), None if b is None else hx(E(b))] for a, b in at.fields]]
                        for n, v, at in cookies.parse_set_cookie_header(D(unhx(case["line"])))]}
    if k == "respcookies":
        r = http.Response.make(200, b"")
        r.headers = http.Headers([(unhx(a), unhx(b)) for a, b in case["h"]])
        before = _sc_out(r.cookies.fields)
        r2 = r.copy()
        r.cookies = _sc_in(case["l"])
        r2.cookies = r2.cookies.fields
        return {"before": before, "h_after": _hb(r.headers.fields), "after": _sc_out(r.cookies.fields), "wb": _sc_out(r2.cookies.fields)}
    if k == "mpenc":
        try:
            enc = hx(multipart.encode_multipart(case["ct"], _bparts(case["parts"])))
        except ValueError:
            enc = None
        back = None
        if enc is not None:
            try:
                back = _hb(multipart.decode_multipart(case["ct"], unhx(enc)))
            except ValueError:
                back = "ValueError"
        return {"ob": _boundary(case["ct"]), "enc": enc, "back": back}
    if k == "mpdec":
        try:
            dec = _hb(multipart.decode_multipart(case["ct"], unhx(case["content"])))
        except ValueError:
            dec = None
        r = _req(b"/", [[hx(b"content-type"), hx(case["ct"].encode("utf-8"))]], unhx(case["content"]))
        wb_before = wb_after = None
        try:
            wb_before = _hb(r.multipart_form.fields)
            r.multipart_form = r.multipart_form.fields
            wb_after = _hb(r.multipart_form.fields)
        except ValueError:
            wb_after = "ValueError"
        return {"ob": _boundary(case["ct"]), "dec": dec, "wb_before": wb_before, "wb_after": wb_after}
    if k == "mpview":
        fields = [] if case["ct"] is None else [[hx(b"Content-Type"), hx(case["ct"].encode())]]
        r = _req(b"/", fields, b"old")
        try:
            r.multipart_form = _bparts(case["parts"])
            content = hx(r.data.content)
        except ValueError:
            content = None
        return {"b": _boundary(r.headers.get("content-type")), "content": content,
                "after": None if content is None else _hb(r.multipart_form.fields)}
    if k == "queryop":
        r = _req(unhx(case["path"]))
        op = case["op"]
        a = [D(unhx(x)) if isinstance(x, str) else x for x in op[1:]]
        try:
            if op[0] == "setitem":
                r.query[a[0]] = a[1]
            elif op[0] == "set_all":
                r.query.set_all(a[0], [D(unhx(x)) for x in op[2]])
            elif op[0] == "add":
                r.query.add(a[0], a[1])
            elif op[0] == "insert":
                r.query.insert(op[1], D(unhx(op[2])), D(unhx(op[3])))
            else:
                del r.query[a[0]]
            err = None
        except KeyError:
            err = "KeyError"
        return {"path_after": hx(r.data.path), "after": _hp(r.query.fields), "err": err}
    raise AssertionError(k)


# ---------------------------------------------------------------- Coq printer
def cb(h):
    return cbytes(unhx(h))


def cpairs(l):
    return clist((cpair(cb(a), cb(b)) for a, b in l), "(bytes * bytes)")


def cob(h):
    return copt(h, cb, "bytes")


def clb(l):
    return clist((cb(x) for x in l), "bytes")


def csc(l):
    return clist((f"({cb(n)}, {cob(v)}, " + clist((cpair(cb(a), cob(b)) for a, b in at), "(bytes * option bytes)") + ")"
                  for n, v, at in l), "setcookie")


def coq_case(case, obs):
    k = case["k"]
    if k == "quote":
        return f"Quote {cb(case['safe'])} {cb(case['s'])} {cb(obs['q'])} {cb(obs['u'])}"
    if k == "urlenc":
        return f"UrlEnc {cpairs(case['l'])} {cob(case['sim'])} {cb(obs['enc'])}"
    if k == "urldec":
        return f"UrlDec {cb(case['qs'])} {cpairs(obs['dec'])}"
    if k == "query":
        return f"Query {cb(case['path'])} {cpairs(case['l'])} {cpairs(obs['before'])} {cb(obs['path_after'])} {cpairs(obs['after'])}"
    if k == "pathcomp":
        return f"PathComp {cb(case['path'])} {clb(case['comps'])} {clb(obs['before'])} {cb(obs['path_after'])} {clb(obs['after'])}"
    if k == "form":
        return (f"Form {cpairs(obs['h'])} {cob(obs['old_text'])} {cpairs(case['l'])} {cpairs(obs['h_after'])} {cb(obs['body'])} "
                f"{cb(obs['text_after'])} {cpairs(obs['after'])}")
    if k == "cookiefmt":
        return f"CookieFmt {cpairs(case['l'])} {cb(obs['hdr'])}"
    if k == "cookieparse":
        return f"CookieParse {cb(case['line'])} {cpairs(obs['dec'])}"
    if k == "reqcookies":
        return f"ReqCookies {cpairs(case['h'])} {cpairs(case['l'])} {cpairs(obs['before'])} {cpairs(obs['h_after'])} {cpairs(obs['after'])}"
    if k == "scparse":
        return f"SetCookieParse {cb(case['line'])} {csc(obs['dec'])}"
    if k == "respcookies":
        return f"RespCookies {cpairs(case['h'])} {csc(case['l'])} {csc(obs['before'])} {cpairs(obs['h_after'])} {csc(obs['after'])}"
    if k == "mpenc":
        return f"MpEnc {cob(obs['ob'])} {cpairs(case['parts'])} {cob(obs['enc'])}"
    if k == "mpdec":
        return f"MpDec {cob(obs['ob'])} {cb(case['content'])} {copt(obs['dec'], cpairs, 'pairs')}"
    if k == "mpview":
        if obs["b"] is None:
            return None
        return f"MpView {cb(obs['b'])} {cpairs(case['parts'])} {cob(obs['content'])} {cpairs(obs['after'] or [])}"
    if k == "queryop":
        op = case["op"]
        if op[0] == "setitem":
            o = f"(OpSetItem {cb(op[1])} {cb(op[2])})"
        elif op[0] == "set_all":
            o = f"(OpSetAll {cb(op[1])} {clb(op[2])})"
        elif op[0] == "add":
            o = f"(OpAdd {cb(op[1])} {cb(op[2])})"
        elif op[0] == "insert":
            o = f"(OpInsert {cnat(op[1])} {cb(op[2])} {cb(op[3])})"
        else:
            o = f"(OpDel {cb(op[1])})"
        return f"QueryOp {cb(case['path'])} {o} {cb(obs['path_after'])} {cpairs(obs['after'])}"
    raise AssertionError(k)


# ---------------------------------------------------------------- oracle (the property on the implementation)
def _ck_key_ok(k):
    return ";" not in k and "=" not in k and k == k.lstrip()


def ck_repr(l):
    """pairs a Cookie header can carry: names without ';' '=' and leading white space; not the empty pair"""
    return all(_ck_key_ok(D(unhx(a))) and (a or b) for a, b in l)


def _sc_raw_ok(key, v):
    """value of a pair that is written unquoted and must be read back by _read_value(';,')"""
    if v.startswith('"') or ";" in v:
        return False
    if key.lower() == "expires":
        head, sep, trail = v.partition(",")
        if len(head) <= 3:
            return sep == "," and "," not in trail and not trail.startswith('"')
    return "," not in v


def _has_special(v):
    return any(c in '",;\\' or ord(c) < 0x21 or ord(c) > 0x7e for c in v)


def sc_repr(l):
    for n, v, attrs in l:
        for i, (a, b) in enumerate([[n, v]] + attrs):
            key = D(unhx(a))
            if "," in key or not _ck_key_ok(key):
                return False
            if b is None:
                if not key:
                    return False
                continue
            val = D(unhx(b))
            if key.lower() in ("expires", "path") or not _has_special(val):
                if not _sc_raw_ok(key, val):
                    return False
    return True


UNRES = set(b"ABCDEFGHIJKLMNOPQRSTUVWXYZabcdefghijklmnopqrstuvwxyz0123456789_.-~/")


def mp_class(b, parts):
    """None if the boundary/parts are within what this encoder/decoder pair must round-trip, else the finding family"""
    if b is None:
        return "multipart-no-boundary"
    bb = unhx(b)
    if not bb or any(c not in UNRES for c in bb):
        return "multipart-boundary-quoted"
    d = b"--" + bb
    for k, v in _bparts(parts):
        if d in k or d in v:
            return "multipart-delimiter-in-part"
    for k, v in _bparts(parts):
        if not k:
            return "multipart-empty-name"
        if b'"' in k or b"\r" in k or b"\n" in k:
            return "multipart-name-quote-or-newline"
        if b"\r" in v or b"\n" in v:
            return "multipart-value-newline"
    return None


NOT_REPRESENTABLE = {"multipart-no-boundary", "multipart-delimiter-in-part"}


def _mp_check(b, parts, got, what):
    cls = mp_class(b, parts)
    if got == parts:
        return []
    if cls in NOT_REPRESENTABLE:
        return []
    return [{"key": cls or "multipart-roundtrip", "what": f"{what}: wrote {parts} read {got}"}]


def _similar_mode(text_hex):
    if not text_hex:
        return False
    return any("=" not in p for p in D(unhx(text_hex)).split("&"))


def oracle(case, obs):
    k = case["k"]
    v = []
    if k == "quote":
        if obs["uq"] != case["s"]:
            v.append({"key": "quote-roundtrip", "what": f"unquote(quote({case['s']})) = {obs['uq']}"})
    elif k == "urlenc":
        if obs["dec"] != case["l"]:
            lossy = case["sim"] and _similar_mode(case["sim"]) and ["", ""] in case["l"]
            v.append({"key": "urlencoded-empty-pair-similar-to" if lossy else "urlencode-roundtrip",
                      "what": f"url.decode(url.encode({case['l']}, {case['sim']})) = {obs['dec']}"})
    elif k == "query":
        if obs["after"] != case["l"]:
            v.append({"key": "query-roundtrip", "what": f"path {case['path']}: query = {case['l']} reads back {obs['after']}"})
        if obs["wb"] != obs["before"]:
            v.append({"key": "query-writeback", "what": f"path {case['path']}: query {obs['before']} written back reads {obs['wb']}"})
        if obs["others"][0] != obs["others"][1]:
            v.append({"key": "query-other-parts", "what": f"path {case['path']}: assigning query changed path/params/fragment {obs['others']}"})
    elif k == "pathcomp":
        if all(case["comps"]) and obs["after"] != case["comps"]:
            v.append({"key": "pathcomp-roundtrip", "what": f"path {case['path']}: components {case['comps']} read back {obs['after']}"})
        if obs["wb"] != obs["before"]:
            v.append({"key": "pathcomp-writeback", "what": f"path {case['path']}: {obs['before']} written back reads {obs['wb']}"})
        if obs["others"][0] != obs["others"][1]:
            v.append({"key": "pathcomp-other-parts", "what": f"path {case['path']}: assigning components changed params/query/fragment {obs['others']}"})
    elif k == "form":
        if obs["after"] != case["l"]:
            lossy = _similar_mode(obs["old_text"]) and ["", ""] in case["l"]
            v.append({"key": "urlencoded-empty-pair-similar-to" if lossy else "form-roundtrip",
                      "what": f"existing headers {obs['h']} old body {case['old']}: urlencoded_form = {case['l']} reads back {obs['after']}"})
        if obs["wb_after"] != obs["wb_before"]:
            lossy = _similar_mode(obs["old_text"]) and ["", ""] in obs["wb_before"]
            v.append({"key": "urlencoded-empty-pair-similar-to" if lossy else "form-writeback",
                      "what": f"body {case['old']}: form {obs['wb_before']} written back reads {obs['wb_after']}"})
    elif k == "cookiefmt":
        if ck_repr(case["l"]) and obs["back"] != case["l"]:
            v.append({"key": "cookie-roundtrip", "what": f"parse(format({case['l']})) = {obs['back']}"})
    elif k == "reqcookies":
        if ck_repr(case["l"]) and obs["after"] != case["l"]:
            v.append({"key": "cookie-roundtrip", "what": f"headers {case['h']}: cookies = {case['l']} read back {obs['after']}"})
        if obs["wb"] != obs["before"]:
            v.append({"key": "cookie-writeback", "what": f"headers {case['h']}: cookies {obs['before']} written back read {obs['wb']}"})
        if _other_headers(obs["h_after"], b"cookie") != _other_headers(case["h"], b"cookie"):
            v.append({"key": "cookie-other-headers", "what": f"headers {case['h']}: assigning cookies changed other headers: {obs['h_after']}"})
    elif k == "respcookies":
        if sc_repr(case["l"]) and obs["after"] != case["l"]:
            v.append({"key": "setcookie-roundtrip", "what": f"cookies = {case['l']} read back {obs['after']}"})
        if obs["wb"] != obs["before"]:
            v.append({"key": "setcookie-writeback", "what": f"headers {case['h']}: {obs['before']} written back read {obs['wb']}"})
        if _other_headers(obs["h_after"], b"set-cookie") != _other_headers(case["h"], b"set-cookie"):
            v.append({"key": "setcookie-other-headers", "what": f"headers {case['h']}: assigning cookies changed other headers: {obs['h_after']}"})
    elif k == "mpenc":
        if obs["enc"] is not None and obs["ob"] is not None:
            v += _mp_check(obs["ob"], case["parts"], obs["back"], f"ct {case['ct']!r}")
    elif k == "mpview":
        if obs["content"] is not None:
            v += _mp_check(obs["b"], case["parts"], obs["after"], f"existing content-type {case['ct']!r}")
    elif k == "mpdec":
        if obs["wb_before"] is not None and obs["wb_after"] != obs["wb_before"]:
            v += _mp_check(obs["ob"], obs["wb_before"], obs["wb_after"], f"write-back, body {case['content']}")
    return v


def nontrivial(case, obs):
    k = case["k"]
    if k == "quote":
        return obs["q"] != case["s"] or obs["u"] != case["s"]
    if k in ("urlenc", "query", "form", "cookiefmt", "reqcookies"):
        return any(not all(c in b"abkvxfoBr01_." for c in unhx(a) + unhx(b)) for a, b in case["l"])
    if k == "urldec":
        return any(c in unhx(case["qs"]) for c in b"%+&=")
    if k == "pathcomp":
        return any(not unhx(c).isalnum() for c in case["comps"])
    if k in ("cookieparse", "scparse"):
        return any(c in unhx(case["line"]) for c in b'";=,\\')
    if k == "respcookies":
        return bool(case["l"])
    if k in ("mpenc", "mpview"):
        return bool(case["parts"])
    if k == "mpdec":
        return obs["dec"] != []
    return True


def classify(case, obs):
    k = case["k"]
    tags = [k]
    if k in ("mpenc", "mpview"):
        b = obs["ob"] if k == "mpenc" else obs["b"]
        tags.append("mp:" + (mp_class(b, case["parts"]) or "representable"))
        if (obs.get("enc") if k == "mpenc" else obs["content"]) is None:
            tags.append("mp:ValueError")
    elif k == "mpdec":
        tags.append("mpdec:" + ("ValueError" if obs["dec"] is None else f"{min(len(obs['dec']), 3)}parts"))
    elif k == "reqcookies" or k == "cookiefmt":
        tags.append("ck:" + ("representable" if ck_repr(case["l"]) else "not-representable"))
    elif k == "respcookies":
        tags.append("sc:" + ("representable" if sc_repr(case["l"]) else "not-representable"))
    elif k == "form":
        tags.append("form:similar" if _similar_mode(obs["old_text"]) else "form:plain")
        cts = [unhx(b).decode("latin-1").lower() for a, b in obs["h"] if unhx(a).lower() == b"content-type"]
        tags.append("form-ct:" + ("none" if not cts else "other" if FORM not in cts[0] else
                                  "plain" if "charset" not in cts[0] else
                                  "charset-incompatible" if any(x in cts[0] for x in ("utf-16", "utf-32", "cp037")) else "charset-compatible"))
        tags.append("form-body:" + ("even" if len(unhx(obs["body"])) % 2 == 0 else "odd"))
    elif k == "queryop":
        tags.append("op:" + case["op"][0] + (":KeyError" if obs["err"] else ""))
    elif k == "pathcomp":
        tags.append("pc:" + ("nonempty" if all(case["comps"]) else "has-empty"))
    return tags
