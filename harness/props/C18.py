"""C18 — ALPN negotiation with the client is consistent with offers and upstream
(mitmproxy/addons/tlsconfig.py alpn_select_callback, tls_start_client, tls_start_server)."""
import atexit
import os
import shutil
import tempfile

from lib.coqterm import cbool, cbytes, clist, cnat, copt, hx, unhx

ID = "C18"
QUICK_N = 2400
THOROUGH_N = 19200
SHARD = 800
COQ_PRELUDE = "From MV Require Import Model.AlpnPrelude Model.Alpn.\nOpen Scope N_scope.\n"
TRANSLATORS = ["alpn_select", "client_tls_reset"]
ALLOWED_AXIOMS = []
RULE = ("Both tiers: the EXHAUSTIVE class sweep (every offer list of length <= 4 over the 6 classes h2, h3, http/1.1, "
        "http/1.0, http/0.9, unknown(h2c) = 1555 lists x server_alpn in {None, empty, 6 classes} x client_alpn in {None, "
        "6 classes} x http2 = 174160 direct calls of the real alpn_select_callback with a stub connection, grouped as 3110 row cases of 56 calls each) plus the real "
        "tls_start_server on all 1555 x 2 (offers, http2) pairs.  Then n random cases: 45% direct callback calls over a "
        "token dictionary (case variants, prefixes/extensions of the known names, empty string, NUL, random bytes; "
        "server_alpn drawn from the reachable set 60% of the time), 20% tls_start_server with preset/None/empty "
        "server.alpn_offers, 35% real tls_start_client + real in-memory TLS handshake (layer stacks of length 0..4 with "
        "an HttpProxy or another mode at index 0, client.alpn/server.alpn presets).  Non-trivial = non-empty client "
        "offer list; distinct by canonical JSON.")
TRUSTED = ["Coq 8.16.1 kernel (coqc), vm_compute for case evaluation and the bounded class sweep",
           "harness/translators/alpn_select.py (Python ast -> Gallina; fail closed) and Model/AlpnPrelude.v (Python "
           "semantics of in/==/truthiness/for-else on bytes): tied by running the generated function against the real "
           "callback on every generated case",
           "hand model Model/Alpn.v of the AppData construction in tls_start_client and of the offer derivation in "
           "tls_start_server: tied by correspondence with the real hooks and real pyOpenSSL handshakes",
           "harness/props/C18.py generator, stub connection, handshake pump and comparison glue (Corr/C18.v)",
           "OpenSSL contract used by the reachability hypothesis: a client-side handshake only accepts a server-selected "
           "ALPN protocol that it offered, else none (empty string in conn.alpn)"]
ASSUMPTIONS = ["reachability hypothesis of the system-level clauses: server.alpn is None, empty, or a member of the offers "
               "tls_start_server derived (server.alpn_offers not preset by an addon) from the same client offer list the "
               "callback receives and under the same http2 option value",
               "the offer list OpenSSL passes to the callback equals client.alpn_offers parsed by mitmproxy (C13)",
               "client.alpn is None when tls_start_client runs (ClientTLSLayer.__init__ resets it for TLS-over-TLS) "
               "unless an addon sets it; on a secure web proxy outer connection no upstream connection exists yet"]

CLASSES = [b"h2", b"h3", b"http/1.1", b"http/1.0", b"http/0.9", b"h2c"]
H2 = b"h2"
HTTP11 = b"http/1.1"
TOKENS = CLASSES + [b"H2", b"h2 ", b"h", b"h3-29", b"http/1.1 ", b"HTTP/1.1", b"http/1.10", b"http/2", b"http/1",
                    b"spdy/3.1", b"", b"\x00", b"h2\x00", b"foo", b"acme-tls/1", b"dot", b"\xff\xfe", b"http/0.9x"]
SNI = "example.mitmproxy.org"


# ------------------------------------------------------------------ generation
def _class_lists(maxlen):
    out = [[]]
    frontier = [[]]
    for _ in range(maxlen):
        frontier = [l + [c] for l in frontier for c in range(len(CLASSES))]
        out += frontier
    return out


def _tok(rng):
    r = rng.random()
    if r < 0.8:
        return rng.choice(TOKENS)
    if r < 0.9:
        return rng.bytes(rng.randint(1, 12))
    t = bytearray(rng.choice(CLASSES))
    t[rng.below(len(t))] ^= 1 << rng.below(8)
    return bytes(t)


def _offers(rng, valid=False):
    l = []
    for _ in range(rng.choice([0, 1, 1, 2, 2, 3, 3, 4, 5, 6, 9])):
        t = _tok(rng)
        if valid and not t:
            continue
        l.append(t)
    if l and rng.chance(0.15):
        l.append(rng.choice(l))  # duplicate
    return l


def _valid_offers(rng):
    return [x for x in _offers(rng, valid=True) if 0 < len(x) < 256]


def _opt_alpn(rng, offers, http2, p_none, p_reach):
    r = rng.random()
    if r < p_none:
        return None
    if r < p_none + p_reach:
        up = [x for x in offers if http2 or x != H2]
        return rng.choice(up + [b""]) if up else b""
    if rng.chance(0.3) and offers:
        return rng.choice(offers)
    return _tok(rng)


def gen(rng, n, tier):
    out = []
    lists = _class_lists(4)
    for o in lists:
        for h in (True, False):
            out.append({"k": "u", "pre": None, "pk": "none", "o": [hx(CLASSES[i]) for i in o], "h": h})
    for o in lists:
        for h in (True, False):
            out.append({"k": "kr", "o": o, "h": h})  # one row = all 8 x 7 (server_alpn, client_alpn) combinations
    for _ in range(n):
        r = rng.random()
        h = rng.chance(0.5)
        if r < 0.40:
            o = _offers(rng)
            s = _opt_alpn(rng, o, h, 0.2, 0.5)
            c = _opt_alpn(rng, o, h, 0.65, 0.15)
            out.append({"k": "g", "o": [hx(x) for x in o], "s": None if s is None else hx(s),
                        "c": None if c is None else hx(c), "h": h})
        elif r < 0.55:
            o = _offers(rng)
            pk = rng.weighted([(3, "none"), (2, "list"), (2, "tuple")])
            pre = None
            if pk != "none":
                pre = [hx(x) for x in (_offers(rng) if rng.chance(0.6) else [])]
            out.append({"k": "u", "pre": pre, "pk": pk, "o": [hx(x) for x in o], "h": h})
        elif r < 0.80:
            o = _valid_offers(rng)
            nl = rng.weighted([(1, 0), (1, 1), (4, 2), (4, 3), (2, 4), (1, 5)])
            ls = []
            for i in range(nl):
                if i == 0:
                    ls.append(rng.weighted([(4, "http"), (1, "transparent"), (1, "obj")]))
                else:
                    ls.append(rng.weighted([(3, "tls"), (3, "obj")]) if i == 1 else rng.weighted([(1, "tls"), (4, "obj")]))
            s = _opt_alpn(rng, o, h, 0.3, 0.5)
            c = _opt_alpn(rng, o, h, 0.8, 0.1)
            out.append({"k": "h", "ls": ls, "o": [hx(x) for x in o], "sa": None if s is None else hx(s),
                        "ca": None if c is None else hx(c), "h": h})
        elif r < 0.95:
            # nested client TLS through the real layers (secure web proxy and other modes)
            oo = _valid_offers(rng)
            if rng.chance(0.6):
                oo = rng.choice([[HTTP11], [H2, HTTP11], [HTTP11, H2], [b"http/1.0"], [H2], [b"foo", HTTP11]])
            io = _valid_offers(rng)
            if rng.chance(0.5):
                io = rng.choice([[H2, HTTP11], [HTTP11, H2], [H2], [b"h3", H2, HTTP11], [H2, b"http/1.0"]])
            s = _opt_alpn(rng, io, h, 0.15, 0.7)
            out.append({"k": "n", "stack": rng.weighted([(3, "real"), (2, "bare"), (1, "transparent")]),
                        "oo": [hx(x) for x in oo], "io": [hx(x) for x in io], "sa": None if s is None else hx(s), "h": h})
        else:
            a = _opt_alpn(rng, [], h, 0.3, 0.0)
            out.append({"k": "i", "tls": rng.chance(0.6), "a": None if a is None else hx(a),
                        "o": [hx(x) for x in _offers(rng)]})
    return out


# ------------------------------------------------------------------ implementation
_S = {}


def setup_impl():
    if _S:
        return
    from mitmproxy import connection, tls
    import inspect
    from mitmproxy.addons import next_layer, proxyserver, tlsconfig
    from mitmproxy.proxy import commands, events, layers
    from mitmproxy.proxy import context
    from mitmproxy.proxy.layers import modes
    from mitmproxy.test import taddons
    from OpenSSL import SSL
    ta = tlsconfig.TlsConfig()
    cm = taddons.context(ta, next_layer.NextLayer(), proxyserver.Proxyserver())  # the latter two only for their options
    tctx = cm.__enter__()
    confdir = tempfile.mkdtemp(prefix="verif-C18-", dir=os.environ.get("VERIF_TMP", None))
    atexit.register(shutil.rmtree, confdir, True)
    tctx.configure(ta, confdir=confdir, connection_strategy="eager")
    # which variant of the secure-web-proxy test does this tree contain (see Model/Alpn.v is_outer)
    fixed = "ClientTLSLayer" in inspect.getsource(tlsconfig.TlsConfig.tls_start_client)
    _S.update(ta=ta, tctx=tctx, cm=cm, tlsconfig=tlsconfig, tls=tls, connection=connection, context=context,
              modes=modes, SSL=SSL, http2=None, up={}, fixed=fixed, next_layer=next_layer, commands=commands,
              events=events, layers=layers)


def _set_http2(h):
    if _S["http2"] is not h:
        _S["tctx"].configure(_S["ta"], http2=h)
        _S["http2"] = h


def _ctx():
    cl = _S["connection"].Client(peername=("client", 1234), sockname=("127.0.0.1", 8080), timestamp_start=0)
    return _S["context"].Context(cl, _S["tctx"].options)


def _upstream_offers(offers, http2, pre=None, pk="none"):
    """server.alpn_offers after the REAL tls_start_server, for client.alpn_offers = offers."""
    key = (tuple(offers), http2, None if pre is None else tuple(pre), pk)
    if key in _S["up"]:
        return _S["up"][key]
    _set_http2(http2)
    ctx = _ctx()
    ctx.client.alpn_offers = list(offers)
    ctx.server.address = (SNI, 443)
    ctx.server.alpn_offers = None if pk == "none" else (list(pre) if pk == "list" else tuple(pre))
    td = _S["tls"].TlsData(ctx.server, context=ctx)
    try:
        _S["ta"].tls_start_server(td)
    except _S["SSL"].Error:
        # pyOpenSSL refuses to SEND an offer list with an empty name (set_alpn_protos); the derived
        # server.alpn_offers, which is what is modelled, has been assigned before that point
        pass
    r = ctx.server.alpn_offers
    res = [bytes(x) for x in r] if isinstance(r, (list, tuple)) and all(isinstance(x, bytes) for x in r) else None
    if len(_S["up"]) < 20000:
        _S["up"][key] = res
    return res


class _StubConn:
    """what alpn_select_callback needs of an SSL.Connection"""

    def __init__(self, app_data):
        self._ad = app_data

    def get_app_data(self):
        return self._ad


def _call(offers, s, c, h):
    tc = _S["tlsconfig"]
    ad = tc.AppData(client_alpn=c, server_alpn=s, http2=h)
    try:
        r = tc.alpn_select_callback(_StubConn(ad), list(offers))
    except Exception as e:  # not a documented outcome: its own observable
        return {"t": "weird", "repr": type(e).__name__}
    if r is _S["SSL"].NO_OVERLAPPING_PROTOCOLS:
        return {"t": "no"}
    if r is None:
        return {"t": "none"}
    if type(r) is bytes:
        return {"t": "sel", "p": hx(r)}
    return {"t": "weird", "repr": type(r).__name__}


def _build_stack(ctx, kinds):
    """context.layers from a list of kinds; real mode layers and real ClientTLSLayer objects register themselves"""
    for i, k in enumerate(kinds):
        if k == "http":
            _S["modes"].HttpProxy(ctx)
        elif k == "transparent":
            _S["modes"].TransparentProxy(ctx)
        elif k == "tls" and i > 0:
            _S["layers"].ClientTLSLayer(ctx)
        else:
            ctx.layers.append(object())
    assert len(ctx.layers) == len(kinds)


def _kinds(layers_):
    out = []
    for x in layers_:
        out.append("http" if isinstance(x, _S["modes"].HttpProxy) else
                   "tls" if isinstance(x, _S["layers"].ClientTLSLayer) else "obj")
    return out


def _tls_client(offers):
    SSL = _S["SSL"]
    cctx = SSL.Context(SSL.TLS_CLIENT_METHOD)
    cctx.set_verify(SSL.VERIFY_NONE)
    if offers:
        cctx.set_alpn_protos(offers)
    cli = SSL.Connection(cctx)
    cli.set_connect_state()
    cli.set_tlsext_host_name(SNI.encode())
    return cli


def _drive(top, cli, conn):
    """Handshake between a pyOpenSSL client and the REAL layer `top`; hooks go to the real TlsConfig addon.
    -> (ok, info) where info has the layer kinds and AppData seen when tls_start_client ran."""
    S, SSL = _S, _S["SSL"]
    info = {"kinds": None, "ad_c": "unset", "err": None}

    def feed(event):
        try:
            cmds = list(top.handle_event(event))
        except Exception as e:
            # e.g. the HTTP layer above a proxy-facing TLS layer that negotiated h3 (known finding) crashes when
            # started; the ALPN outcome is already fixed then.  A failure before that shows as an incomplete handshake.
            info["child_exc"] = type(e).__name__
            return
        for cmd in cmds:
            if isinstance(cmd, S["commands"].SendData):
                cli.bio_write(cmd.data)
            elif isinstance(cmd, S["commands"].StartHook):
                if cmd.name == "tls_start_client":
                    info["kinds"] = _kinds(cmd.data.context.layers)
                fn = getattr(S["ta"], cmd.name, None)
                if fn:
                    fn(*cmd.args())
                if cmd.name == "tls_start_client" and cmd.data.ssl_conn is not None:
                    ca = cmd.data.ssl_conn.get_app_data()["client_alpn"]
                    info["ad_c"] = None if ca is None else hx(ca)
                if cmd.blocking:
                    feed(S["events"].HookCompleted(cmd))
            elif isinstance(cmd, S["commands"].Log):
                pass
            else:
                info["err"] = info["err"] or type(cmd).__name__

    feed(S["events"].Start())
    done = False
    for _ in range(20):
        if not done:
            try:
                cli.do_handshake()
                done = True
            except SSL.WantReadError:
                pass
            except Exception as e:
                info["err"] = info["err"] or type(e).__name__
                break
        try:
            data = cli.bio_read(65536)
        except SSL.WantReadError:
            data = b""
        if data:
            feed(S["events"].DataReceived(conn, data))
        elif done:
            break
    return done and info["err"] is None, info


def _nested(case):
    S = _S
    _set_http2(case["h"])
    cl = S["connection"].Client(peername=("192.0.2.1", 51234), sockname=("192.0.2.2", 8080), timestamp_start=0,
                                state=S["connection"].ConnectionState.OPEN)
    ctx = S["context"].Context(cl, S["tctx"].options)
    if case["stack"] == "real":
        S["modes"].HttpProxy(ctx)
        outer = S["next_layer"].NextLayer._setup_explicit_http_proxy(ctx, b"\x16\x03\x01\x02\x00\x01")
    elif case["stack"] == "bare":
        S["modes"].HttpProxy(ctx)
        outer = S["layers"].ClientTLSLayer(ctx)
    else:
        S["modes"].TransparentProxy(ctx)
        outer = S["layers"].ClientTLSLayer(ctx)
    oo = [unhx(x) for x in case["oo"]]
    io = [unhx(x) for x in case["io"]]
    cli = _tls_client(oo)
    ok_o, info_o = _drive(outer, cli, cl)
    res = {"ok_o": ok_o, "err": info_o["err"], "kinds_o": info_o["kinds"],
           "neg_o": hx(cli.get_alpn_proto_negotiated()) if ok_o else None,
           "alpn_o": None if cl.alpn is None else hx(cl.alpn)}
    # CONNECT -> tunnelled connection: forked context, upstream TLS already established with server.alpn = sa
    ictx = ctx.fork()
    ictx.server = S["connection"].Server(address=("example.com", 443))
    S["layers"].ServerTLSLayer(ictx)
    ictx.server.state = S["connection"].ConnectionState.OPEN
    ictx.server.timestamp_tls_setup = 1.0
    ictx.server.alpn = None if case["sa"] is None else unhx(case["sa"])
    inner = S["layers"].ClientTLSLayer(ictx)          # the REAL __init__ on a client carrying outer-TLS state
    res["alpn_init"] = None if cl.alpn is None else hx(cl.alpn)
    res["offers_init"] = [hx(bytes(x)) for x in cl.alpn_offers]
    cli2 = _tls_client(io)
    ok_i, info_i = _drive(inner, cli2, cl)
    res.update({"ok_i": ok_i, "err": res["err"] or info_i["err"], "kinds_i": info_i["kinds"], "ad_c": info_i["ad_c"],
                "neg_i": hx(cli2.get_alpn_proto_negotiated()) if ok_i else None,
                "up": _hexlist(_upstream_offers(io, case["h"]))})
    return res


def _init_only(case):
    S = _S
    ctx = _ctx()
    S["modes"].TransparentProxy(ctx)
    ctx.client.tls = case["tls"]
    ctx.client.alpn = None if case["a"] is None else unhx(case["a"])
    ctx.client.alpn_offers = [unhx(x) for x in case["o"]]
    S["layers"].ClientTLSLayer(ctx)
    return {"tls": bool(ctx.client.tls), "a": None if ctx.client.alpn is None else hx(ctx.client.alpn),
            "o": [hx(bytes(x)) for x in ctx.client.alpn_offers]}


def _handshake(case):
    S = _S
    _set_http2(case["h"])
    ctx = _ctx()
    _build_stack(ctx, case["ls"])
    ctx.client.sni = SNI
    ctx.client.alpn = None if case["ca"] is None else unhx(case["ca"])
    ctx.server.alpn = None if case["sa"] is None else unhx(case["sa"])
    offers = [unhx(x) for x in case["o"]]
    ctx.client.alpn_offers = list(offers)
    td = S["tls"].TlsData(ctx.client, context=ctx)
    S["ta"].tls_start_client(td)
    srv = td.ssl_conn
    ad = srv.get_app_data()
    SSL = S["SSL"]
    cctx = SSL.Context(SSL.TLS_CLIENT_METHOD)
    cctx.set_verify(SSL.VERIFY_NONE)
    if offers:
        cctx.set_alpn_protos(offers)
    cli = SSL.Connection(cctx)
    cli.set_connect_state()
    cli.set_tlsext_host_name(SNI.encode())
    done = {"c": False, "s": False}
    err = None
    for _ in range(12):
        for me, other, who in ((cli, srv, "c"), (srv, cli, "s")):
            if not done[who]:
                try:
                    me.do_handshake()
                    done[who] = True
                except SSL.WantReadError:
                    pass
                except Exception as e:
                    err = type(e).__name__
                    break
            try:
                other.bio_write(me.bio_read(65536))
            except SSL.WantReadError:
                pass
        if err or (done["c"] and done["s"]):
            break
    ok = done["c"] and done["s"] and err is None
    neg_c = cli.get_alpn_proto_negotiated() if ok else None
    neg_s = srv.get_alpn_proto_negotiated() if ok else None
    return {"ad_c": None if ad["client_alpn"] is None else hx(ad["client_alpn"]),
            "ad_s": None if ad["server_alpn"] is None else hx(ad["server_alpn"]),
            "ad_h": bool(ad["http2"]),
            "neg": hx(neg_c) if ok and neg_c == neg_s else None,
            "err": err if not ok else (None if neg_c == neg_s else "client/server disagree"),
            "up": _hexlist(_upstream_offers(offers, case["h"]))}


def _hexlist(l):
    return None if l is None else [hx(x) for x in l]


def _kparts(case):
    offers = [CLASSES[i] for i in case["o"]]
    s = None if case["s"] == 0 else b"" if case["s"] == 1 else CLASSES[case["s"] - 2]
    c = None if case["c"] == 0 else CLASSES[case["c"] - 1]
    return offers, s, c


def _gparts(case):
    return ([unhx(x) for x in case["o"]], None if case["s"] is None else unhx(case["s"]),
            None if case["c"] is None else unhx(case["c"]))


COMBOS = [(s, c) for s in range(8) for c in range(7)]  # same order as Corr/C18.v combos


def _code(r):
    if r["t"] == "no":
        return 0
    if r["t"] == "none":
        return 7
    if r["t"] == "sel" and unhx(r["p"]) in CLASSES:
        return 1 + CLASSES.index(unhx(r["p"]))
    return 9


def _uncode(code):
    return {"t": "no"} if code == 0 else {"t": "none"} if code == 7 else \
        {"t": "sel", "p": hx(CLASSES[code - 1])} if 1 <= code <= 6 else {"t": "weird", "repr": "?"}


def run_impl(case):
    k = case["k"]
    if k == "kr":
        offers = [CLASSES[i] for i in case["o"]]
        res = []
        for s, c in COMBOS:
            _, sv, cv = _kparts({"o": case["o"], "s": s, "c": c})
            res.append(_code(_call(offers, sv, cv, case["h"])))
        return {"res": res, "up": _hexlist(_upstream_offers(offers, case["h"]))}
    if k in ("k", "g"):
        offers, s, c = _kparts(case) if k == "k" else _gparts(case)
        return {"res": _call(offers, s, c, case["h"]), "up": _hexlist(_upstream_offers(offers, case["h"]))}
    if k == "u":
        pre = None if case["pre"] is None else [unhx(x) for x in case["pre"]]
        return {"up": _hexlist(_upstream_offers([unhx(x) for x in case["o"]], case["h"], pre, case["pk"]))}
    if k == "n":
        return _nested(case)
    if k == "i":
        return _init_only(case)
    return _handshake(case)


# ------------------------------------------------------------------ Coq terms
def _cb(h):
    return cbytes(unhx(h))


def _cob(h):
    return copt(h, _cb, "bytes")


def _clb(l):
    return clist((_cb(x) for x in l), "bytes")


def _ckinds(kinds):
    return clist(({"http": "LHttpProxy", "tls": "LClientTLS"}.get(k, "LOther") for k in kinds), "layer_kind")


def _cres(r):
    if r["t"] == "sel":
        return f"(R (Sel {_cb(r['p'])}))"
    return {"no": "(R NO_OVERLAPPING_PROTOCOLS)", "none": "(R RetNone)"}.get(r["t"], "Weird")


def coq_case(case, obs):
    k = case["k"]
    if k in ("k", "kr"):
        o = "[" + ";".join(str(i) for i in case["o"]) + "]" if case["o"] else "(@nil N)"
        if k == "kr":
            return f"KR {o} {cbool(case['h'])} [{';'.join(str(x) for x in obs['res'])}]"
        return f"K {o} {case['s']} {case['c']} {cbool(case['h'])} {_code(obs['res'])}"
    if k == "g":
        return f"G {_clb(case['o'])} {_cob(case['s'])} {_cob(case['c'])} {cbool(case['h'])} {_cres(obs['res'])}"
    if k == "u":
        if obs["up"] is None:
            return f"U None (@nil bytes) true [[x00]]"  # unparsable observation: force a mismatch
        pre = "(@None (list bytes))" if case["pre"] is None else f"(Some {_clb(case['pre'])})"
        return f"U {pre} {_clb(case['o'])} {cbool(case['h'])} {_clb(obs['up'])}"
    if k == "i":
        return (f"Init {cbool(case['tls'])} {_cob(case['a'])} {_clb(case['o'])} {cbool(obs['tls'])} {_cob(obs['a'])} "
                f"{_clb(obs['o'])}")
    if k == "n":
        if not (obs["ok_o"] and obs["ok_i"]) or obs["ad_c"] == "unset" or not obs["kinds_o"] or not obs["kinds_i"]:
            return "Init true None (@nil bytes) false None (@nil bytes)"  # handshake did not complete: force a mismatch
        return (f"Nest {cbool(_S['fixed'])} {_ckinds(obs['kinds_o'])} {_clb(case['oo'])} {cbool(case['h'])} "
                f"{_ckinds(obs['kinds_i'])} {_cob(case['sa'])} {_clb(case['io'])} {_cob(obs['neg_o'])} "
                f"{_cob(obs['alpn_init'])} {_clb(obs['offers_init'])} {_cob(obs['ad_c'])} {_cob(obs['neg_i'])}")
    return (f"H {cbool(_S['fixed'])} {_ckinds(case['ls'])} {_cob(case['ca'])} {_cob(case['sa'])} {cbool(case['h'])} "
            f"{_clb(case['o'])} {_cob(obs['ad_c'])} {_cob(obs['ad_s'])} {cbool(obs['ad_h'])} {_cob(obs['neg'])}")


# ------------------------------------------------------------------ oracle: the property on the implementation
def _reach(s, up):
    """reachability hypothesis, with the upstream offers computed by the REAL tls_start_server"""
    return s is None or s == b"" or (up is not None and s in up)


def _clauses(offers, s, c, h, up, got, label, upstream_clause=True):
    """got: selected protocol as bytes, b'' for none.  c: client_alpn of the AppData."""
    v = []
    if got != b"" and got not in offers:
        v.append({"key": "not-offered", "what": f"{label}: selected {got!r} which the client did not offer {offers!r}"})
    if c is not None and got not in (c, b""):
        v.append({"key": "client-alpn-ignored", "what": f"{label}: client_alpn={c!r} but selected {got!r}"})
    if _reach(s, up):
        if upstream_clause and c is None and s is not None and got not in (s, b""):
            v.append({"key": "upstream-mismatch",
                      "what": f"{label}: upstream negotiated {s!r} (reachable, offers {offers!r}, http2={h}) but client gets {got!r}"})
        if not h and c in (None, HTTP11) and got == H2:
            v.append({"key": "h2-while-disabled",
                      "what": f"{label}: http2=False, offers {offers!r}, server_alpn={s!r}, client_alpn={c!r}: selected h2"})
    return v


def _outer_spec(kinds):
    """Is TLS being started on the OUTER connection of a secure web proxy?  layers[0] is an HttpProxy and the
    TLS layer sits directly on it: either the two-layer stack of the unit tests, or layers[1] is the only
    ClientTLSLayer from index 1 on (what NextLayer builds: HttpProxy, ClientTLSLayer, HttpLayer)."""
    return (len(kinds) >= 2 and kinds[0] == "http" and (len(kinds) == 2 or kinds[1] == "tls")
            and "tls" not in kinds[2:])


def _outer_clause(kinds, got, offers, label):
    if _outer_spec(kinds) and got not in (HTTP11, b""):
        key = "secure-web-proxy-not-http11" if len(kinds) == 2 else "secure-web-proxy-outer-h2-real-stack"
        return [{"key": key, "what": f"{label}: secure web proxy outer connection (layers {kinds}) negotiated "
                                     f"{got!r} for offers {offers!r}"}]
    return []


def _oracle_nested(case, obs):
    oo = [unhx(x) for x in case["oo"]]
    io = [unhx(x) for x in case["io"]]
    if not obs["ok_o"] or not obs["ok_i"] or obs["neg_o"] is None or obs["neg_i"] is None:
        return [{"key": "handshake-failed", "what": f"nested handshakes failed ({obs['err']}) outer offers {oo!r} inner offers {io!r}"}]
    v = []
    got_o, got_i = unhx(obs["neg_o"]), unhx(obs["neg_i"])
    if got_o != b"" and got_o not in oo:
        v.append({"key": "not-offered", "what": f"nested outer: selected {got_o!r}, offers {oo!r}"})
    v += _outer_clause(obs["kinds_o"], got_o, oo, "nested outer")
    s = None if case["sa"] is None else unhx(case["sa"])
    up = None if obs["up"] is None else [unhx(x) for x in obs["up"]]
    v += _outer_clause(obs["kinds_i"], got_i, io, "nested inner")
    if not _outer_spec(obs["kinds_i"]):
        # the tunnelled connection: nothing of the outer connection may influence it (c=None: no addon preset)
        v += _clauses(io, s, None, case["h"], up, got_i,
                      f"nested inner (outer negotiated {got_o!r}, stack {case['stack']})")
    return v


def oracle(case, obs):
    k = case["k"]
    if k == "kr":
        v, seen = [], set()
        for (s, c), code in zip(COMBOS, obs["res"]):
            for x in oracle({"k": "k", "o": case["o"], "s": s, "c": c, "h": case["h"]},
                            {"res": _uncode(code), "up": obs["up"]}):
                if x["key"] not in seen:
                    seen.add(x["key"])
                    v.append(x)
        return v
    if k in ("k", "g"):
        offers, s, c = _kparts(case) if k == "k" else _gparts(case)
        r = obs["res"]
        if r["t"] not in ("sel", "no"):
            return [{"key": "bad-return", "what": f"callback returned/raised {r} for offers {offers!r} server_alpn={s!r} client_alpn={c!r}"}]
        got = unhx(r["p"]) if r["t"] == "sel" else b""
        if r["t"] == "sel" and got == b"" and b"" not in offers:
            return [{"key": "not-offered", "what": f"callback selected the empty protocol for offers {offers!r}"}]
        up = None if obs["up"] is None else [unhx(x) for x in obs["up"]]
        return _clauses(offers, s, c, case["h"], up, got, "callback")
    if k == "u":
        if case["pre"]:
            return []  # an addon preset the offers: outside the property
        offers = [unhx(x) for x in case["o"]]
        if obs["up"] is None:
            return [{"key": "upstream-offers-bad", "what": "server.alpn_offers is not a sequence of bytes"}]
        up = [unhx(x) for x in obs["up"]]
        v = []
        if any(x not in offers for x in up):
            v.append({"key": "upstream-offers-not-client", "what": f"tls_start_server offers {up!r} for client offers {offers!r}"})
        if not case["h"] and H2 in up:
            v.append({"key": "upstream-h2-while-disabled", "what": f"http2=False but tls_start_server offers h2 upstream for client offers {offers!r}"})
        return v
    if k == "i":
        return []  # mechanism only; the property is checked end to end on the nested cases
    if k == "n":
        return _oracle_nested(case, obs)
    # real tls_start_client + handshake
    offers = [unhx(x) for x in case["o"]]
    if obs["neg"] is None:
        return [{"key": "handshake-failed", "what": f"in-memory handshake failed ({obs['err']}) for offers {offers!r}"}]
    got = unhx(obs["neg"])
    c = None if obs["ad_c"] is None else unhx(obs["ad_c"])
    s = None if case["sa"] is None else unhx(case["sa"])
    up = None if obs["up"] is None else [unhx(x) for x in obs["up"]]
    v = []
    outer = _outer_spec(case["ls"])
    v += _outer_clause(case["ls"], got, offers, "tls_start_client + handshake")
    if case["ca"] is not None and not outer:
        # client.alpn preset by an addon: only clause 1 and the client_alpn clause apply
        return v + _clauses(offers, None, c, True, up, got, "handshake")
    if outer:
        # clause 2 is about connections with a known upstream; none exists on the outer connection
        return v + _clauses(offers, s, c, case["h"], up, got, "handshake", upstream_clause=False)
    return v + _clauses(offers, s, c, case["h"], up, got, "handshake")


def nontrivial(case, obs):
    return bool(case["io"] and case["oo"]) if case["k"] == "n" else bool(case["o"])


def classify(case, obs):
    k = case["k"]
    if k == "u":
        return ["upstream", "pre=" + ("falsy" if not case["pre"] else "set"), f"http2={int(case['h'])}"]
    if k == "kr":
        offers = [CLASSES[i] for i in case["o"]]
        res = set("sel" if 1 <= x <= 6 else "no" if x == 0 else "bad" for x in obs["res"])
        return ["sweep-row", f"http2={int(case['h'])}", f"len={len(offers)}"] + ["row-res:" + x for x in sorted(res)]
    if k in ("k", "g"):
        offers, s, c = _kparts(case) if k == "k" else _gparts(case)
        r = obs["res"]["t"]
        br = ("br:client-preset" if c is not None else "br:mirror-server" if s and s in offers
              else "br:server-none" if s == b"" else "br:default")
        up = None if obs["up"] is None else [unhx(x) for x in obs["up"]]
        return ["sweep" if k == "k" else "general", "res:" + r, br,
                "reach" if _reach(s, up) else "unreachable", f"http2={int(case['h'])}"]
    if k == "i":
        return ["init", "init:tls-over-tls" if case["tls"] else "init:first-layer",
                "init:alpn-kept" if obs["a"] is not None else "init:alpn-none"]
    if k == "n":
        return ["nested", "nested:" + case["stack"], "outer-neg:" + ("none" if obs["neg_o"] == "" else "fail" if obs["neg_o"] is None else "proto"),
                "inner-neg:" + ("none" if obs["neg_i"] == "" else "fail" if obs["neg_i"] is None else "proto"),
                "inner-upstream:" + ("unknown" if case["sa"] is None else "known")]
    outer = _outer_spec(case["ls"])
    return ["handshake", "outer-swp" if outer else "other-stack", "neg:" + ("none" if obs["neg"] == "" else "fail" if obs["neg"] is None else "proto"),
            f"layers={len(case['ls'])}"]
