"""C20 — Proxy authentication is enforced on every entry path
(addons/proxyauth.py, proxy/layers/modes.py Socks5Proxy.state_auth, proxy/layers/http/__init__.py HttpStream)."""
import base64
import hashlib
import os
import tempfile

from lib.coqterm import cN, cbool, cbytes, clist, copt, cpair

ID = "C20"
QUICK_N = 2000
THOROUGH_N = 16000
SHARD = 250
COQ_PRELUDE = "From MV Require Import Model.ProxyAuth.\n"
RULE = ("18% binascii.a2b_base64 / b2a_base64 inputs over a dictionary of alphabet runs, pads in every position, junk and "
        "url-safe characters; 8% bytes.decode(utf-8) with the three error handlers over valid/overlong/surrogate/truncated "
        "sequences; 22% header values for parse_http_basic_auth (scheme spellings x ASCII/Unicode whitespace x base64 of "
        "user:password with 0..3 colons, non-ASCII, invalid UTF-8, stripped/extra/misplaced padding, junk); 26% event sequences "
        "on up to 3 client connections driven through the real ProxyAuth hooks with real flows (plain requests, CONNECT, replayed "
        "flows, SOCKS5 auth data; regular/upstream/reverse/transparent/socks5 connections; validators none/any/single user/"
        "htpasswd file); 26% end-to-end sequences on one connection through the real HttpLayer / ReverseProxy / Socks5Proxy "
        "with the real hooks as policy (CONNECT then tunnelled requests, request bodies, stream_large_bodies, split SOCKS5 "
        "auth messages). About 55% of credentials are proper encodings of a pair the validator accepts, the rest wrong, "
        "missing, in the other header, malformed or mutated. Non-trivial = a decision was taken by a configured validator "
        "(or the codec input is not plain ASCII alphabet); distinct by canonical JSON.")
TRUSTED = ["Coq 8.16.1 kernel; vm_compute for case evaluation and finite sweeps",
           "hand model of CPython 3.12 binascii.a2b_base64 (non-strict), bytes.decode(utf-8) with replace/surrogateescape/"
           "backslashreplace, str.encode, str.split, Headers.get/__delitem__; tied by correspondence only",
           "str.isspace set and str.lower on the word basic: compared with CPython for every code point at harness start-up",
           "Htpasswd / Ldap validators are an arbitrary function str -> str -> bool in the theorems; the correspondence uses "
           "htpasswd files with {SHA} entries and models them as the table of plaintext pairs they were made from",
           "HttpStream is modelled only as: response set in the hook => sent to the client, server not contacted "
           "(NotImplementedError when the request was already switched to streaming); tied end to end through lib/sansio.py",
           "harness/props/C20.py (generator, labels of what each credential is, comparison glue in Corr/C20.v)"]
ASSUMPTIONS = ["no other addon clears flow.response or re-adds the credential header after ProxyAuth ran",
               "HTTP/1 framing only end to end; HTTP/2 and HTTP/3 streams call the same HttpStream code",
               "entries of ProxyAuth.authenticated live as long as the client connection object (WeakKeyDictionary)",
               "client replay (f.is_replay) is initiated by the operator, not by a proxy client"]

MODES = {"regular": ("regular", True), "upstream": ("upstream:http://up:3128", True),
         "reverse": ("reverse:http://srv:80", False), "transparent": ("transparent", False),
         "socks5": ("socks5", False)}
USERS = ["u", "user", "alice", "üser", "用户", "a b", "U"]
PASSES = ["p", "pass", "p:q", ":", "a:b:c", "", "pä", "p q", "x" * 20, "P", "pw:"]
SCHEMES = ["Basic", "Basic", "Basic", "basic", "BASIC", "bAsIc"]
BAD_SCHEMES = ["Bearer", "Digest", "Basic,", "Basi", "Basicc", "Kasic", "Basİc", "baſic", ""]
SEPS = [" ", " ", " ", "  ", "\t", " \t ", " ", "\x0b", "\x1f", " ", "　", "\x85"]
B64TOK = [b"=", b"==", b"===", b"A", b"QQ", b"dTpw", b"dXNlcjpwYXNz", b"\n", b" ", b"-", b"_", b"\xff", b"=A", b"Zg", b"Zm8",
          b"/", b"+", b"Zm9v", b"!", b"\x00", b"Zg=", b"Z", b"=Zg==", b"Zg=\n=", b"9", b"z", b"a", b"0"]
UTFTOK = [b"a", b":", b"\xc3\xa4", b"\xe7\x94\xa8", b"\xf0\x9f\x98\x80", b"\x80", b"\xc0\xaf", b"\xc3", b"\xe0\x80\x80", b"\xe0\xa0",
          b"\xed\xa0\x80", b"\xed\x9f\xbf", b"\xf0\x8f\x80\x80", b"\xf0\x9f\x98", b"\xf4\x90\x80\x80", b"\xf4\x8f\xbf\xbf", b"\xf5",
          b"\xff", b"\xe2\x80", b"\xc2\xa0", b"\xef\xbf\xbd", b"\xf0\x9f", b"\x7f", b"\xc2", b"\xdf\xbf", b"\xe1\x80\xc0"]


# ------------------------------------------------------------------ generator
def _b64(u, p):
    return base64.b64encode((u + ":" + p).encode("utf-8")).decode("ascii")


def gen_vspec(rng):
    r = rng.random()
    if r < 0.05:
        return ["none"]
    if r < 0.33:
        return ["any"]
    if r < 0.68:
        return ["single", rng.choice(USERS), rng.choice([p for p in PASSES if ":" not in p])]
    n = rng.randint(1, 3)
    t = []
    for _ in range(n):
        u = rng.choice(USERS)
        if u not in [e[0] for e in t]:
            t.append([u, rng.choice(PASSES)])
    return ["table", t]


def accepted_pairs(v):
    if v[0] == "single":
        return [[v[1], v[2]]]
    if v[0] == "table":
        return v[1]
    return []


def ref_accepts(v, u, p):
    """independent reading of the configuration: does the operator's setting accept (u, p)?"""
    if v[0] == "any":
        return True
    return [u, p] in accepted_pairs(v)


def mutate_b64(rng, s):
    k = rng.below(9)
    if k == 0:
        return s.rstrip("=")
    if k == 1:
        return s + "="
    if k == 2:
        i = rng.below(len(s) + 1)
        return s[:i] + rng.choice(["-", "_", "!", "é", ".", "€"]) + s[i:]
    if k == 3:
        return s[:-1]
    if k == 4:
        return s + "QQ=="
    if k == 5:
        i = rng.below(len(s) + 1)
        return s[:i] + "=" + s[i:]
    if k == 6:
        return s.replace("+", "-").replace("/", "_")
    if k == 7:
        return s[:1]
    return s + s


def gen_cred(rng, v, is_proxy, p_proper=0.55):
    """-> (list of extra header (name, value) bytes pairs, label dict)"""
    good = "Proxy-Authorization" if is_proxy else "Authorization"
    other = "Authorization" if is_proxy else "Proxy-Authorization"
    acc = accepted_pairs(v)
    r = rng.random()
    name = rng.choice([good, good, good.lower(), good.upper()])
    if r < p_proper:
        if v[0] in ("any", "none") or not acc:
            u, p = rng.choice([x for x in USERS if ":" not in x]), rng.choice(PASSES)
        else:
            u, p = rng.choice(acc)
        val = rng.choice(SCHEMES) + rng.choice([" ", " ", " ", "  "]) + _b64(u, p)
        return [[name, val]], {"kind": "proper", "u": u, "p": p}
    if r < p_proper + 0.10:
        u, p = rng.choice(USERS), rng.choice(PASSES)
        while ref_accepts(v, u, p) and v[0] != "any":
            p = p + "x"
        val = "Basic " + _b64(u, p)
        return [[name, val]], {"kind": "wrongpair" if v[0] != "any" else "proper", "u": u, "p": p}
    if r < p_proper + 0.17:
        return [], {"kind": "none"}
    if r < p_proper + 0.24:
        u, p = (rng.choice(acc) if acc else ("u", "p"))
        return [[other, "Basic " + _b64(u, p)]], {"kind": "none"}
    if r < p_proper + 0.30:
        u, p = (rng.choice(acc) if acc else ("u", "p"))
        return [[name, rng.choice(BAD_SCHEMES) + " " + _b64(u, p)]], {"kind": "badscheme"}
    if r < p_proper + 0.36:
        u, p = (rng.choice(acc) if acc else ("u", "p"))
        h = [[name, "Basic " + _b64(u, p)], [name, "Basic " + _b64(u, p)]]
        return h, {"kind": "free"}
    u, p = (rng.choice(acc) if acc and rng.chance(0.7) else (rng.choice(USERS), rng.choice(PASSES)))
    val = rng.choice(SCHEMES + BAD_SCHEMES[:2]) + rng.choice(SEPS) + mutate_b64(rng, _b64(u, p))
    if rng.chance(0.2):
        val += rng.choice(SEPS) + rng.choice(["x", "", "Zg=="])
    return [[name, val]], {"kind": "free"}


def _hdrs_bytes(hs):
    out = []
    for n, v in hs:
        nb = n.encode("ascii")
        vb = v if isinstance(v, bytes) else v.encode("utf-8")
        out.append([nb.hex(), vb.hex()])
    return out


def gen_request(rng, v, is_proxy, p_proper=0.55):
    cred, label = gen_cred(rng, v, is_proxy, p_proper)
    hs = [["Host", "e.com"]]
    if rng.chance(0.5):
        hs.append(["Accept", "*/*"])
    pos = rng.below(len(hs)) + 1
    hs[pos:pos] = cred
    if rng.chance(0.3):
        hs.append(["X-Trace", rng.choice(["1", "Basic dTpw", "a, b"])])
    hb = _hdrs_bytes(hs)
    if label["kind"] == "free" and rng.chance(0.15) and cred:
        # raw invalid UTF-8 inside the credential header value
        i = [k for k, h in enumerate(hs) if h in cred][0]
        hb[i][1] = (bytes.fromhex(hb[i][1]) + rng.choice([b"\xff", b"\xc3", b"\xed\xa0\x80"])).hex()
    return hb, label


def gen_socks_pair(rng, v):
    acc = accepted_pairs(v)
    if acc and rng.chance(0.55):
        u, p = rng.choice(acc)
        return u.encode("utf-8"), p.encode("utf-8")
    if rng.chance(0.75):
        u, p = rng.choice(USERS), rng.choice(PASSES)
        return u.encode("utf-8"), p.encode("utf-8")
    return rng.choice(UTFTOK) + rng.choice([b"", b"u"]), rng.choice(UTFTOK) + rng.choice([b"", b":"])


def gen(rng, n, tier):
    out = []
    if tier == "thorough":
        alpha = [b"A", b"Q", b"=", b"-", b"g"]

        def rec(prefix, depth):
            yield prefix
            if depth:
                for a in alpha:
                    yield from rec(prefix + a, depth - 1)
        for s in rec(b"", 5):
            out.append({"k": "b64", "data": s.hex()})
    for _ in range(n):
        r = rng.random()
        if r < 0.14:
            data = b"".join(rng.choice(B64TOK) for _ in range(rng.randint(0, 9)))
            out.append({"k": "b64", "data": data.hex()})
        elif r < 0.18:
            out.append({"k": "b64enc", "data": rng.bytes(rng.randint(0, 14)).hex()})
        elif r < 0.26:
            data = b"".join(rng.choice(UTFTOK) for _ in range(rng.randint(0, 7)))
            out.append({"k": "utf", "h": rng.below(3), "data": data.hex()})
        elif r < 0.48:
            v = gen_vspec(rng)
            hb, label = gen_request(rng, v, True, 0.35)
            vals = [h[1] for h in hb if bytes.fromhex(h[0]).lower() == b"proxy-authorization"]
            val = bytes.fromhex(vals[0]) if vals else rng.choice([b"", b"Basic", b"Basic  ", b"Basic a b"])
            if rng.chance(0.25):
                payload = b"".join(rng.choice(UTFTOK) for _ in range(rng.randint(1, 5)))
                val = b"Basic " + base64.b64encode(payload)
            out.append({"k": "parse", "value": val.hex()})
        elif r < 0.74:
            v = gen_vspec(rng)
            nconn = rng.randint(1, 3)
            conns = [rng.choice(list(MODES)) for _ in range(nconn)]
            evs = []
            for _ in range(rng.randint(1, 6)):
                c = rng.below(nconn)
                mode = conns[c]
                if mode == "socks5" and rng.chance(0.5):
                    ub, pb = gen_socks_pair(rng, v)
                    evs.append({"t": "socks", "c": c, "u": [ord(x) for x in ub.decode("utf-8", "backslashreplace")],
                                "p": [ord(x) for x in pb.decode("utf-8", "backslashreplace")]})
                    continue
                hb, label = gen_request(rng, v, MODES[mode][1])
                evs.append({"t": "req", "c": c, "connect": mode in ("regular", "upstream") and rng.chance(0.35),
                            "replay": rng.chance(0.06), "hdrs": hb, "label": label})
            out.append({"k": "addon", "v": v, "conns": conns, "evs": evs})
        else:
            v = gen_vspec(rng)
            if v[0] == "none":
                v = ["any"]
            mode = rng.choice(list(MODES))
            steps = []
            opts = {}
            if rng.chance(0.12):
                opts["stream_large_bodies"] = "5"
            if mode == "socks5":
                ub, pb = gen_socks_pair(rng, v)
                steps.append({"t": "socks_auth", "u": ub.hex(), "p": pb.hex(),
                              "cut": rng.choice([0, 0, 0, 1, 2, 3 + len(ub)])})
            for _ in range(rng.randint(1, 4)):
                hb, label = gen_request(rng, v, MODES[mode][1])
                steps.append({"t": "req", "connect": mode in ("regular", "upstream") and rng.chance(0.35),
                              "hdrs": hb, "label": label, "body": rng.choice([0, 0, 0, 3, 20])})
            out.append({"k": "e2e", "v": v, "mode": mode, "opts": opts, "steps": steps})
    return out


# ------------------------------------------------------------------ implementation
def setup_impl():
    global binascii, proxyauth, http, tflow, taddons, modes, HttpLayer, HTTPMode, ProxyMode, Driver, MS1, _vcache
    import binascii
    from mitmproxy import http
    from mitmproxy.addons import proxyauth
    from mitmproxy.proxy.layers import modes
    from mitmproxy.proxy.layers.http import HttpLayer, HTTPMode
    from mitmproxy.proxy.mode_specs import ProxyMode
    from mitmproxy.test import taddons, tflow
    from lib.sansio import Driver
    _vcache = {}
    # which code variant is under test (fixes/C20-colon-password.diff applied or not)
    try:
        MS1 = proxyauth.parse_http_basic_auth("basic " + _b64("u", "p:q"))[1:] == ("u", "p:q")
    except ValueError:
        MS1 = False
    # the two finite facts about CPython str the model relies on, checked for every code point
    ws = {9, 10, 11, 12, 13, 28, 29, 30, 31, 32, 133, 160, 5760, 8232, 8233, 8239, 8287, 12288} | set(range(8192, 8203))
    subs = {"basic"[i:j] for i in range(5) for j in range(i + 1, 6)}
    assert {c for c in range(0x110000) if chr(c).isspace()} == ws, "str.isspace differs from the model"
    solid = "".join(chr(c) for c in range(0x110000) if c not in ws)
    assert solid.split() == [solid], "str.split splits at a character the model does not treat as whitespace"
    for c in ws:
        assert ("a" + chr(c) + "b").split() == ["a", "b"], f"str.split does not split at U+{c:04X}"
    assert [c for c in range(128) if chr(c).lower() != (chr(c + 32) if 65 <= c <= 90 else chr(c))] == []
    assert [c for c in range(128, 0x110000) if chr(c).lower() in subs] == [], "a non-ASCII character lowers into the word basic"


def _validator(v):
    """a real validator object built by the real configure()"""
    key = repr(v)
    if key in _vcache:
        return _vcache[key]
    pa = proxyauth.ProxyAuth()
    with taddons.context(pa) as tctx:
        if v[0] == "none":
            pass
        elif v[0] == "any":
            tctx.configure(pa, proxyauth="any")
        elif v[0] == "single":
            tctx.configure(pa, proxyauth=v[1] + ":" + v[2])
        else:
            fd, path = tempfile.mkstemp(prefix="c20-htpasswd-")
            try:
                with os.fdopen(fd, "w", encoding="utf-8") as fh:
                    for u, p in v[1]:
                        fh.write(u + ":{SHA}" + base64.b64encode(hashlib.sha1(p.encode("utf-8")).digest()).decode() + "\n")
                tctx.configure(pa, proxyauth="@" + path)
            finally:
                os.unlink(path)
    _vcache[key] = pa.validator
    return pa.validator


def _new_pa(v):
    pa = proxyauth.ProxyAuth()
    pa.validator = _validator(v)
    return pa


def _cps(s):
    return [ord(c) for c in s]


def _fields(hb):
    return tuple((bytes.fromhex(n), bytes.fromhex(x)) for n, x in hb)


def _fields_hex(fields):
    return [[bytes(n).hex(), bytes(x).hex()] for n, x in fields]


def run_addon(case):
    pa = _new_pa(case["v"])
    conns = []
    for m in case["conns"]:
        c = tflow.tclient_conn()
        c.proxy_mode = ProxyMode.parse(MODES[m][0])
        conns.append(c)
    obs = []
    for ev in case["evs"]:
        conn = conns[ev["c"]]
        if ev["t"] == "socks":
            data = modes.Socks5AuthData(conn, "".join(map(chr, ev["u"])), "".join(map(chr, ev["p"])))
            try:
                pa.socks5_auth(data)
                exc = None
            except Exception as e:  # noqa
                exc = type(e).__name__
            obs.append({"valid": bool(data.valid), "authd": conn in pa.authenticated, "exc": exc})
            continue
        f = tflow.tflow()
        f.client_conn = conn
        f.request.headers = http.Headers(_fields(ev["hdrs"]))
        if ev["connect"]:
            f.request.method = "CONNECT"
        if ev["replay"]:
            f.is_replay = "request"
        try:
            (pa.http_connect if ev["connect"] else pa.requestheaders)(f)
            exc = None
        except Exception as e:  # noqa
            exc = type(e).__name__
        meta = f.metadata.get("proxyauth")
        resp = f.response
        obs.append({"resp": resp.status_code if resp else None,
                    "challenge": ([k for k in ("Proxy-Authenticate", "WWW-Authenticate") if k in resp.headers] if resp else None),
                    "hdrs": _fields_hex(f.request.headers.fields),
                    "meta": [_cps(meta[0]), _cps(meta[1])] if meta else None,
                    "authd": conn in pa.authenticated, "exc": exc})
    return {"ms1": MS1, "evs": obs}


def _parse_head(raw: bytes):
    """independent minimal HTTP/1 head reader: (first line, [(name, value)]) or None"""
    head, sep, _ = raw.partition(b"\r\n\r\n")
    if not sep:
        return None
    lines = head.split(b"\r\n")
    hs = []
    for l in lines[1:]:
        n, c, x = l.partition(b":")
        if not c:
            return None
        hs.append((n, x.strip(b" \t")))
    return lines[0], hs


def run_e2e(case):
    v, mode = case["v"], case["mode"]
    spec, is_proxy = MODES[mode]
    pa = _new_pa(v)
    seen = []

    def policy(hook, drv):
        n = hook.name
        if n in ("requestheaders", "http_connect"):
            f = hook.args()[0]
            seen.append((n, _fields_hex(f.request.headers.fields), bool(f.request.stream)))
            getattr(pa, n)(f)
        elif n == "socks5_auth":
            pa.socks5_auth(hook.args()[0])
        elif n == "next_layer":
            hook.args()[0].layer = HttpLayer(hook.args()[0].context, HTTPMode.transparent)

    def factory(ctx):
        if mode == "regular":
            return HttpLayer(ctx, HTTPMode.regular)
        if mode == "upstream":
            return HttpLayer(ctx, HTTPMode.upstream)
        if mode == "reverse":
            return modes.ReverseProxy(ctx)
        if mode == "socks5":
            return modes.Socks5Proxy(ctx)
        ctx.server.address = ("srv", 80)
        return HttpLayer(ctx, HTTPMode.transparent)

    over = {"proxyauth": "any" if v[0] == "any" else "configured"}
    over.update(case.get("opts") or {})
    d = Driver(factory, options_overrides=over, policy=policy, client_kwargs={"proxy_mode": ProxyMode.parse(spec)})
    d.start()
    tunnelled = mode in ("reverse", "transparent")
    alive = True
    out = []
    for st in case["steps"]:
        mark = len(d.trace)
        nseen = len(seen)
        if st["t"] == "socks_auth":
            ub, pb = bytes.fromhex(st["u"]), bytes.fromhex(st["p"])
            msg = b"\x01" + bytes([len(ub)]) + ub + bytes([len(pb)]) + pb
            d.data(0, b"\x05\x01\x02")
            greet = d.sent(0)
            mark = len(d.trace)
            parts = []
            cut = min(st["cut"], len(msg) - 1)
            chunks = [msg[:cut], msg[cut:]] if cut else [msg]
            buf = b""
            for ch in chunks:
                m2 = len(d.trace)
                buf += ch
                d.data(0, ch)
                new = d.trace[m2:]
                tc = b"".join(bytes.fromhex(t[2]) for t in new if t[0] == "send" and t[1] == 0)
                closed = any(t[0] == "close" and t[1] == 0 for t in new)
                kind = 1 if closed else (2 if tc else 0)
                parts.append({"buf": buf.hex(), "kind": kind, "to_client": tc.hex()})
            ok = parts[-1]["kind"] == 2
            if ok:
                m3 = len(d.trace)
                d.data(0, b"\x05\x01\x00\x03\x05e.com\x00\x50")
                tunnelled = True
            else:
                alive = False
            out.append({"t": "socks_auth", "greet": greet.hex(), "parts": parts, "ok": ok,
                        "server_io": any(t[0] in ("send", "open") and t[1] != 0 for t in d.trace)})
            continue
        if not alive or d.crashed:
            out.append({"t": "skipped"})
            continue
        hs = _fields(st["hdrs"])
        if st["connect"] and not tunnelled:
            line = b"CONNECT e.com:80 HTTP/1.1"
        elif tunnelled:
            line = (b"POST" if st["body"] else b"GET") + b" / HTTP/1.1"
        else:
            line = (b"POST" if st["body"] else b"GET") + b" http://e.com/ HTTP/1.1"
        is_connect = st["connect"] and not tunnelled
        body = b"" if is_connect else b"x" * st["body"]
        extra = [(b"Content-Length", str(len(body)).encode())] if body else []
        raw = line + b"\r\n" + b"".join(n + b": " + x + b"\r\n" for n, x in list(hs) + extra) + b"\r\n" + body
        d.data(0, raw)
        new = d.trace[mark:]
        tc = b"".join(bytes.fromhex(t[2]) for t in new if t[0] == "send" and t[1] == 0)
        srv = [t for t in new if t[0] == "send" and t[1] != 0]
        ts = b"".join(bytes.fromhex(t[2]) for t in srv)
        opened = any(t[0] == "open" for t in new)
        up_connect = None
        if ts.startswith(b"CONNECT ") and not is_connect:
            # upstream mode inside a tunnel: the core first asks the upstream proxy for a tunnel of its own
            up_connect = _parse_head(ts)
            m2 = len(d.trace)
            d.data(srv[0][1], b"HTTP/1.1 200 Connection established\r\n\r\n")
            srv = [t for t in d.trace[m2:] if t[0] == "send" and t[1] != 0]
            ts = b"".join(bytes.fromhex(t[2]) for t in srv)
        hooks = seen[nseen:]
        o = {"t": "req", "is_connect": is_connect, "hooks": hooks, "to_client": tc[:400].hex(), "to_server": ts[:1200].hex(),
             "opened": opened, "crash": d.crashed[0] if d.crashed else None}
        head = _parse_head(tc)
        o["status"] = int(head[0].split(b" ")[1]) if head and head[0].startswith(b"HTTP/") else None
        o["challenge"] = sorted({n.lower().decode("latin-1") for n, _ in head[1]} & {"proxy-authenticate", "www-authenticate"}) if head else []
        sh = _parse_head(ts)
        o["fwd"] = _fields_hex(sh[1]) if sh else None
        o["up_connect"] = _fields_hex(up_connect[1]) if up_connect else None
        out.append(o)
        if is_connect and o["status"] is not None and 200 <= o["status"] < 300:
            tunnelled = True
        if srv and not is_connect:
            d.data(srv[0][1], b"HTTP/1.1 200 OK\r\nContent-Length: 0\r\n\r\n")
    return {"ms1": MS1, "steps": out}


def run_impl(case):
    k = case["k"]
    if k == "b64":
        try:
            return {"out": binascii.a2b_base64(bytes.fromhex(case["data"])).hex()}
        except binascii.Error:
            return {"out": None}
    if k == "b64enc":
        return {"out": binascii.b2a_base64(bytes.fromhex(case["data"]), newline=False).hex()}
    if k == "utf":
        s = bytes.fromhex(case["data"]).decode("utf-8", ["replace", "surrogateescape", "backslashreplace"][case["h"]])
        try:
            back = s.encode().hex()
        except UnicodeEncodeError:
            back = None
        return {"out": _cps(s), "back": back}
    if k == "parse":
        s = http.Headers(((b"Proxy-Authorization", bytes.fromhex(case["value"])),)).get("proxy-authorization", "")
        try:
            sc, u, p = proxyauth.parse_http_basic_auth(s)
            return {"ms1": MS1, "out": [_cps(sc), _cps(u), _cps(p)], "exc": None}
        except ValueError:
            return {"ms1": MS1, "out": None, "exc": None}
        except Exception as e:  # noqa
            return {"ms1": MS1, "out": None, "exc": type(e).__name__}
    if k == "addon":
        return run_addon(case)
    return run_e2e(case)


# ------------------------------------------------------------------ Coq terms
def cstr(cps):
    return clist((cN(c) for c in cps), "N")


def chdrs(hb):
    return clist((cpair(cbytes(bytes.fromhex(n)), cbytes(bytes.fromhex(x))) for n, x in hb), "header")


def cvspec(v):
    if v[0] == "none":
        return "VNone"
    if v[0] == "any":
        return "VAny"
    if v[0] == "single":
        return f"(VSingle {cstr(_cps(v[1]))} {cstr(_cps(v[2]))})"
    return "(VTable " + clist((cpair(cstr(_cps(u)), cstr(_cps(p))) for u, p in v[1]), "(str * str)") + ")"


def _ccmds(o):
    if o["crash"]:
        return "[Crash]"
    if o["is_connect"]:
        if o["status"] is not None and 200 <= o["status"] < 300:
            return f"[Tunnel; ToClient {cN(o['status'])}]"
        return f"[ToClient {cN(o['status'])}]" if o["status"] is not None else "(@nil cmd)"
    if o["fwd"] is not None:
        return f"[OpenServer; ToServer {chdrs(o['fwd'])}]"
    return f"[ToClient {cN(o['status'])}]" if o["status"] is not None else "(@nil cmd)"


def coq_case(case, obs):
    k = case["k"]
    ob = lambda h: copt(h, lambda x: cbytes(bytes.fromhex(x)), "bytes")
    if k == "b64":
        return f"B64 {cbytes(bytes.fromhex(case['data']))} {ob(obs['out'])}"
    if k == "b64enc":
        return f"B64Enc {cbytes(bytes.fromhex(case['data']))} {cbytes(bytes.fromhex(obs['out']))}"
    if k == "utf":
        return f"Utf {cN(case['h'])} {cbytes(bytes.fromhex(case['data']))} {cstr(obs['out'])} {ob(obs['back'])}"
    if k == "parse":
        if obs["exc"]:
            return None
        t = copt(obs["out"], lambda o: f"({cstr(o[0])}, {cstr(o[1])}, {cstr(o[2])})", "(str * str * str)")
        return f"Parse {cbool(obs['ms1'])} {cbytes(bytes.fromhex(case['value']))} {t}"
    cm = lambda m: copt(m, lambda x: cpair(cstr(x[0]), cstr(x[1])), "(str * str)")
    if k == "addon":
        evs, os_ = [], []
        for ev, o in zip(case["evs"], obs["evs"]):
            if o["exc"]:
                return None
            if ev["t"] == "socks":
                evs.append(f"ESocks {cN(ev['c'])} {cstr(ev['u'])} {cstr(ev['p'])}")
                os_.append(f"ASocks {cbool(o['valid'])} {cbool(o['authd'])}")
            else:
                ip = MODES[case["conns"][ev["c"]]][1]
                evs.append(f"EReq {cN(ev['c'])} {cbool(ip)} {cbool(ev['connect'])} {cbool(ev['replay'])} false {chdrs(ev['hdrs'])}")
                os_.append(f"AHttp {copt(o['resp'], cN, 'N')} {chdrs(o['hdrs'])} {cm(o['meta'])} {cbool(o['authd'])}")
        return f"Addon {cbool(obs['ms1'])} {cvspec(case['v'])} {clist(evs, 'event')} {clist(os_, 'aobs')}"
    steps = []
    for st, o in zip(case["steps"], obs["steps"]):
        if o["t"] == "skipped":
            continue
        if o["t"] == "socks_auth":
            for p in o["parts"]:
                steps.append(f"SAuth {cbytes(bytes.fromhex(p['buf']))} {cN(p['kind'])} {cbytes(bytes.fromhex(p['to_client']))}")
            continue
        if len(o["hooks"]) != 1:
            return None        # the oracle reports it (hook-count)
        name, hs, streaming = o["hooks"][0]
        steps.append(f"SReq {cbool(name == 'http_connect')} {cbool(streaming)} {chdrs(hs)} {_ccmds(o)}")
    return f"E2E {cbool(obs['ms1'])} {cvspec(case['v'])} {cbool(MODES[case['mode']][1])} {clist(steps, 'estep')}"


# ------------------------------------------------------------------ oracle: the property on the implementation
def _expect(v, label):
    """what the property demands for a request carrying this credential, from the configuration alone:
    accept / deny / None (no obligation: mutated encodings that a lenient decoder may or may not read)"""
    kind = label["kind"]
    if kind == "proper":
        return "accept" if ref_accepts(v, label["u"], label["p"]) else "deny"
    if kind == "wrongpair":
        return "deny"
    if kind in ("none", "badscheme"):
        return "deny"
    return None


def _cred_header_left(hdrs_hex, is_proxy):
    name = b"proxy-authorization" if is_proxy else b"authorization"
    return any(bytes.fromhex(n).lower() == name for n, _ in hdrs_hex)


def _others(hdrs_hex, is_proxy):
    name = b"proxy-authorization" if is_proxy else b"authorization"
    return [[n, x] for n, x in hdrs_hex if bytes.fromhex(n).lower() != name]


def _reject_key(label):
    return "colon-password-rejected" if ":" in label.get("p", "") else "valid-credentials-rejected"


def oracle_addon(case, obs):
    v, out = case["v"], []
    if v[0] == "none":
        return out
    authd = {}     # connection -> True (must be authenticated) / None (unknown) ; absent = must not be
    for i, (ev, o) in enumerate(zip(case["evs"], obs["evs"])):
        c = ev["c"]
        if o["exc"]:
            out.append({"key": "hook-raises", "what": f"event {i}: hook raised {o['exc']}"})
            continue
        if ev["t"] == "socks":
            u, p = "".join(map(chr, ev["u"])), "".join(map(chr, ev["p"]))
            want = ref_accepts(v, u, p)
            if o["valid"] != want:
                out.append({"key": "socks-accepts-invalid" if o["valid"] else "socks-rejects-valid",
                            "what": f"event {i}: socks5_auth({u!r}, {p!r}) valid={o['valid']}"})
            if want:
                authd[c] = True
            continue
        is_proxy = MODES[case["conns"][c]][1]
        exp = _expect(v, ev["label"])
        passed = o["resp"] is None
        if authd.get(c) is True or ev["replay"]:
            if not passed and authd.get(c) is True and not ev["connect"]:
                out.append({"key": "authenticated-connection-challenged", "what": f"event {i}: request on an authenticated connection got {o['resp']}"})
        elif c in authd:
            pass
        elif exp == "deny" and not (ev["replay"] and not ev["connect"]):
            want = 407 if is_proxy else 401
            ch = "Proxy-Authenticate" if is_proxy else "WWW-Authenticate"
            if passed:
                out.append({"key": "unauthenticated-passes-hook", "what": f"event {i}: {ev['label']} left flow.response unset"})
            elif o["resp"] != want or o["challenge"] != [ch]:
                out.append({"key": "wrong-challenge", "what": f"event {i}: answer {o['resp']} {o['challenge']}, wanted {want} {ch}"})
        elif exp == "accept":
            if not passed:
                out.append({"key": _reject_key(ev["label"]), "what": f"event {i}: proper credentials {ev['label']['u']!r}:{ev['label']['p']!r} answered {o['resp']}"})
            else:
                if _cred_header_left(o["hdrs"], is_proxy):
                    out.append({"key": "credential-header-kept", "what": f"event {i}: credential header still present after successful authentication"})
                if o["hdrs"] != _others(ev["hdrs"], is_proxy):
                    out.append({"key": "other-headers-changed", "what": f"event {i}: headers other than the credential header changed"})
        if ev["connect"] and not authd.get(c):
            if exp == "accept" and passed:
                authd[c] = True
            elif exp is None:
                authd[c] = None
        if o["authd"] and c not in authd:
            out.append({"key": "authenticated-without-credentials", "what": f"event {i}: connection {c} entered ProxyAuth.authenticated"})
    return out


def oracle_e2e(case, obs):
    v, mode, out = case["v"], case["mode"], []
    is_proxy = MODES[mode][1]
    state = "no"          # is the connection authenticated (CONNECT / SOCKS5)?  no / yes / unknown
    for i, (st, o) in enumerate(zip(case["steps"], obs["steps"])):
        if o["t"] == "skipped":
            continue
        if o["t"] == "socks_auth":
            u = bytes.fromhex(st["u"]).decode("utf-8", "backslashreplace")
            p = bytes.fromhex(st["p"]).decode("utf-8", "backslashreplace")
            want = ref_accepts(v, u, p)
            if bytes.fromhex(o["greet"]) != b"\x05\x02":
                out.append({"key": "socks-method", "what": f"greeting answered {o['greet']} instead of 0502"})
            last = o["parts"][-1]
            if want and not o["ok"]:
                out.append({"key": "socks-rejects-valid", "what": f"SOCKS5 credentials {u!r}:{p!r} rejected"})
            if not want:
                if o["ok"] or o["server_io"]:
                    out.append({"key": "socks-accepts-invalid", "what": f"SOCKS5 credentials {u!r}:{p!r} accepted"})
                elif last["kind"] != 1 or bytes.fromhex(last["to_client"]) != b"\x01\x01":
                    out.append({"key": "socks-wrong-failure", "what": f"failed SOCKS5 auth answered {last['to_client']!r} kind {last['kind']}"})
            if want and o["ok"] and bytes.fromhex(last["to_client"])[:2] != b"\x01\x00":
                out.append({"key": "socks-wrong-success", "what": f"successful SOCKS5 auth answered {last['to_client']}"})
            state = "yes" if (want and o["ok"]) else "no"
            continue
        if len(o["hooks"]) != 1 and not o["crash"]:
            out.append({"key": "hook-count", "what": f"step {i}: {len(o['hooks'])} auth hooks ran for one request"})
            continue
        exp = _expect(v, st["label"])
        forwarded = bool(o["to_server"]) or (o["is_connect"] and o["status"] is not None and 200 <= o["status"] < 300)
        if state == "yes":
            if not forwarded:
                out.append({"key": "authenticated-connection-challenged", "what": f"step {i}: request on an authenticated connection not forwarded ({o['status']}, {o['crash']})"})
            elif o["fwd"] is not None and o["hooks"] and o["fwd"] != o["hooks"][0][1]:
                out.append({"key": "other-headers-changed", "what": f"step {i}: tunnelled request headers changed"})
            continue
        if state == "unknown":
            continue
        if exp == "deny":
            want = 407 if is_proxy else 401
            ch = "proxy-authenticate" if is_proxy else "www-authenticate"
            if forwarded or o["opened"]:
                out.append({"key": "forwarded-unauthenticated", "what": f"step {i}: {st['label']} reached the server side: {bytes.fromhex(o['to_server'])[:80]!r}"})
            elif o["crash"]:
                key = "stream-large-bodies-no-answer" if case.get("opts", {}).get("stream_large_bodies") and st["body"] else "no-auth-answer-crash"
                out.append({"key": key, "what": f"step {i}: unauthenticated request with a streamed body: layer raised {o['crash']}, client got no {want}"})
            elif o["status"] != want or o["challenge"] != [ch]:
                out.append({"key": "wrong-challenge", "what": f"step {i}: answer {o['status']} {o['challenge']}, wanted {want} {ch}"})
        elif exp == "accept":
            if not forwarded:
                out.append({"key": _reject_key(st["label"]), "what": f"step {i} ({mode}): proper credentials {st['label']['u']!r}:{st['label']['p']!r} answered {o['status']}"})
            elif o["fwd"] is not None:
                if _cred_header_left(o["fwd"], is_proxy) or (o["up_connect"] and _cred_header_left(o["up_connect"], True)):
                    out.append({"key": "credential-header-forwarded", "what": f"step {i}: credential header forwarded upstream"})
                wire = _others(st["hdrs"], is_proxy) + ([[b"Content-Length".hex(), str(st["body"]).encode().hex()]] if st["body"] and not o["is_connect"] else [])
                if [h for h in o["fwd"] if bytes.fromhex(h[0]).lower() != b"host"] != [h for h in wire if bytes.fromhex(h[0]).lower() != b"host"]:
                    out.append({"key": "other-headers-changed", "what": f"step {i}: forwarded headers differ from the request minus the credential header"})
        if o["is_connect"]:
            if exp == "accept" and forwarded:
                state = "yes"
            elif exp is None and forwarded:
                state = "unknown"
        if o["crash"]:
            break
    return out


def oracle(case, obs):
    k = case["k"]
    if k == "b64":
        # RFC 4648: a canonical encoding decodes to what was encoded
        data = bytes.fromhex(case["data"])
        out = []
        try:
            strict = base64.b64decode(data, validate=True)
        except Exception:  # noqa
            strict = None
        if strict is not None and base64.b64encode(strict) == data and obs["out"] != strict.hex():
            out.append({"key": "b64-canonical", "what": f"a2b_base64({data!r}) = {obs['out']}"})
        return out
    if k == "b64enc":
        back = binascii.a2b_base64(bytes.fromhex(obs["out"]))
        return [] if back.hex() == case["data"] else [{"key": "b64-roundtrip", "what": f"b2a/a2b of {case['data']} gives {back.hex()}"}]
    if k == "utf":
        data = bytes.fromhex(case["data"])
        try:
            want = data.decode("utf-8")
        except UnicodeDecodeError:
            return []
        return [] if _cps(want) == obs["out"] and obs["back"] == case["data"] else [{"key": "utf8-valid-roundtrip", "what": f"valid UTF-8 {data!r} decoded to {obs['out']}"}]
    if k == "parse":
        if obs["exc"]:
            return [{"key": "parse-raises-other", "what": f"parse_http_basic_auth raised {obs['exc']} (documented: ValueError)"}]
        return []
    if k == "addon":
        return oracle_addon(case, obs)
    return oracle_e2e(case, obs)


def nontrivial(case, obs):
    k = case["k"]
    if k in ("b64", "b64enc", "utf"):
        return len(case["data"]) > 0
    if k == "parse":
        return True
    if k == "addon":
        return case["v"][0] != "none"
    return any(o["t"] != "skipped" for o in obs["steps"])


def classify(case, obs):
    k = case["k"]
    t = [k]
    if k == "b64":
        t.append("b64-error" if obs["out"] is None else "b64-ok")
    elif k == "b64enc":
        t.append(f"b64enc-len%3={len(case['data']) // 2 % 3}")
    elif k == "utf":
        t.append(f"utf-h{case['h']}")
        t.append("utf-reencodes" if obs["back"] == case["data"] else "utf-lossy")
    elif k == "parse":
        t.append("parse-ok" if obs["out"] else "parse-error")
        if obs["out"] and 58 in obs["out"][2]:
            t.append("parse-colon-password")
    elif k == "addon":
        t.append("v=" + case["v"][0])
        for ev, o in zip(case["evs"], obs["evs"]):
            if ev["t"] == "socks":
                t.append("socks-valid" if o["valid"] else "socks-invalid")
            else:
                t.append(("connect-" if ev["connect"] else "req-") + ("pass" if o["resp"] is None else str(o["resp"])))
                if ev["replay"]:
                    t.append("replay")
        t = sorted(set(t))
    else:
        t.append("mode=" + case["mode"])
        t.append("v=" + case["v"][0])
        for o in obs["steps"]:
            if o["t"] == "socks_auth":
                t.append("socks-ok" if o["ok"] else "socks-fail")
                if len(o["parts"]) > 1:
                    t.append("socks-split")
            elif o["t"] == "req":
                if o["crash"]:
                    t.append("e2e-crash")
                elif o["is_connect"]:
                    t.append("e2e-tunnel" if o["status"] and o["status"] < 300 else f"e2e-connect-{o['status']}")
                else:
                    t.append("e2e-forwarded" if o["fwd"] is not None else f"e2e-{o['status']}")
        t = sorted(set(t))
    return t
