"""C17 -- the certificate store is bounded and never serves a certificate for other names
(mitmproxy/certs.py CertStore: certs, expire_queue, STORE_CAP, expire, add_cert, asterisk_forms, get_cert)."""
import os

from lib.coqterm import cbytes, clist, cnat, copt

ID = "C17"
QUICK_N = 600
THOROUGH_N = 4800
SHARD = 60
COQ_PRELUDE = "From MV Require Import Model.CertStore.\n"
TRANSLATORS = ["certs_const"]
ALLOWED_AXIOMS = []
RULE = ("One case = one history (5-70 calls; 130-260 for the real capacity) of add_cert / get_cert on a fresh real "
        "CertStore sharing one CA. Capacity: 0-4 (most), 8, or the class default (read from the source, 100) with more "
        "than 100 distinct requests. Requests are drawn from a per-history palette (so cache hits, evictions and "
        "re-generations happen) over 14 names (multi-label, wildcard-looking, empty, leading/trailing/double dot, '*', a "
        "64-char CN), DNS/IP/e-mail SANs, CN None/''/name; custom certificates come from a pool of 7 real certificates "
        "(CN and SANs read back from the real Cert) registered under 0-2 extra names including '*' and ''. 30% of "
        "histories are adversarial (empty names everywhere, '' common name -> ValueError path, duplicate SANs). "
        "Non-trivial = the history contains a cache hit, a custom hit or an eviction; distinct by canonical JSON.")
TRUSTED = ["Coq 8.16.1 kernel (coqc), vm_compute for case evaluation",
           "harness/props/C17.py (generator, identity->ordinal mapping of CertStoreEntry objects, printers) and Corr/C17.v",
           "hand model coq/Model/CertStore.v of dict/list semantics and of CertStore, tied by correspondence only",
           "harness/translators/certs_const.py reads STORE_CAP and the form of the `if name` test from the source (fails closed)",
           "dummy_cert is the real one (not stubbed); it is modelled as: raises ValueError iff commonname == '', otherwise "
           "returns a fresh certificate (never equal to an earlier one: random 159-bit serial) whose SANs are exactly `sans` "
           "and whose CN is commonname when shorter than 64 characters"]
ASSUMPTIONS = ["names are ASCII str; sans is an iterable of x509.GeneralName (the deprecated list-of-str form is not exercised)",
               "non-DNS GeneralNames are represented by str(value); str(value) is distinct across kinds in the generator",
               "custom entries passed to add_cert are distinct objects that never compare equal to a generated entry",
               "organization / crl_url do not take part in the key (exercised: organization is varied, the model ignores it)",
               "single-threaded use of one CertStore"]

LONG = "x" * 64
NAMES = ["a.b", "x.a.b", "y.x.a.b", "b", "c", "x.c", "*.b", "*.a.b", "", "a..b", ".b", "a.", "*", LONG]
PLAIN = ["a.b", "x.a.b", "y.x.a.b", "b", "c", "x.c"]
OTHER = [["i", "1.2.3.4"], ["i", "::1"], ["m", "u@a.b"]]
# pool of custom certificates: (commonname, sans) given to the real dummy_cert once per run
POOL = [("a.b", [["d", "a.b"]]), (None, [["d", "*.b"]]), ("x.a.b", [["d", "x.a.b"], ["i", "1.2.3.4"]]), (None, []),
        ("c", [["d", ""]]), ("*.a.b", [["d", "*.a.b"], ["d", "*.c"]]), ("q", [["m", "u@a.b"], ["d", "*"]])]


# ---------------------------------------------------------------- generator
def _san(rng, adv):
    r = rng.random()
    if r < 0.12:
        return list(rng.choice(OTHER))
    if adv and r < 0.45:
        return ["d", rng.choice(["", "a.", ".b", "a..b", "*"])]
    return ["d", rng.choice(NAMES[:-1] if adv else PLAIN + ["*.b", "*.a.b"])]


def _request(rng, adv):
    r = rng.random()
    if r < 0.12:
        cn = None
    elif r < (0.30 if adv else 0.14):
        cn = ""
    elif adv:
        cn = rng.choice(NAMES)
    else:
        cn = rng.choice(PLAIN)
    k = rng.weighted([(3, 0), (4, 1), (2, 2), (1, 3)])
    sans = [_san(rng, adv) for _ in range(k)]
    if adv and sans and rng.chance(0.2):
        sans.append(list(sans[0]))
    return {"o": "get", "cn": cn, "sans": sans, "org": rng.chance(0.1)}


def _add(rng, adv):
    k = rng.weighted([(3, 0), (4, 1), (2, 2)])
    pool = NAMES[:-1] if adv else PLAIN + ["*.b", "*.a.b", "*.c", "*.x.a.b"]
    names = [rng.choice(pool) for _ in range(k)]
    if adv and rng.chance(0.3):
        names.append("")
    if rng.chance(0.05):
        names.append("*")
    # the last pool certificate carries DNSName("*") (serves everything afterwards): keep it rare
    i = len(POOL) - 1 if rng.chance(0.05) else rng.below(len(POOL) - 1)
    return {"o": "add", "i": i, "names": names}


def _history(rng, big):
    adv = rng.chance(0.3)
    if big:
        cap = None
        seen, palette = set(), []
        while len(palette) < rng.randint(104, 130):
            q = _request(rng, adv)
            q["sans"] = q["sans"] + [["d", "n%d.y" % rng.below(40)]]
            kk = repr((q["cn"], q["sans"]))
            if kk not in seen:
                seen.add(kk); palette.append(q)
        ops = list(palette)
        for _ in range(rng.randint(20, 120)):
            ops.append(dict(rng.choice(palette)))
        rng.shuffle(ops)
        for _ in range(rng.randint(0, 3)):
            ops.insert(rng.below(len(ops)), _add(rng, adv))
        return {"cap": cap, "ops": ops}
    cap = rng.weighted([(1, 0), (3, 1), (4, 2), (4, 3), (2, 4), (1, 8)])
    palette = [_request(rng, adv) for _ in range(rng.randint(2, cap + 4))]
    n = rng.randint(5, 70)
    p_add = rng.choice([0.0, 0.05, 0.15])
    ops = []
    for _ in range(n):
        r = rng.random()
        if r < p_add:
            ops.append(_add(rng, adv))
        elif r < p_add + 0.1:
            ops.append(_request(rng, adv))
        else:
            ops.append(dict(rng.choice(palette)))
    if rng.chance(0.5):
        ops.insert(rng.below(3), _add(rng, adv))
    return {"cap": cap, "ops": ops}


def gen(rng, n, tier):
    out = []
    nbig = max(2, n // 150)
    for i in range(n):
        out.append(_history(rng, big=(i < nbig)))
    return out


# ---------------------------------------------------------------- implementation runner
_S = {}


def setup_impl():
    import ipaddress
    from cryptography import x509
    from mitmproxy import certs
    verif = os.path.dirname(os.path.dirname(os.path.dirname(os.path.abspath(__file__))))
    d = os.path.join(verif, ".work", "C17", "ca")
    os.makedirs(d, exist_ok=True)
    base = certs.CertStore.from_store(d, "mitmproxy", 2048)
    _S.update(certs=certs, x509=x509, ip=ipaddress, base=base, default_cap=certs.CertStore.STORE_CAP)
    pool = []
    for cn, sans in POOL:
        c = certs.dummy_cert(base.default_privatekey, base.default_ca._cert, cn, [_mk_san(s) for s in sans])
        pool.append(certs.CertStoreEntry(c, base.default_privatekey, None, [c]))
    _S["pool"] = pool


def _mk_san(s):
    x509 = _S["x509"]
    if s[0] == "d":
        return x509.DNSName(s[1])
    if s[0] == "i":
        return x509.IPAddress(_S["ip"].ip_address(s[1]))
    if s[0] == "m":
        return x509.RFC822Name(s[1])
    raise ValueError("unknown san kind " + s[0])


def _san_obs(g):
    return ["d", g.value] if isinstance(g, _S["x509"].DNSName) else ["o", str(g.value)]


def run_impl(case):
    certs, base = _S["certs"], _S["base"]
    st = certs.CertStore(base.default_privatekey, base.default_ca, base.default_chain_file, base.default_crl, base.dhparams)
    if case["cap"] is not None:
        st.STORE_CAP = case["cap"]
    pool = _S["pool"]
    ident = {id(e): ["c", i] for i, e in enumerate(pool)}
    keep = []

    def ent(e):
        if id(e) not in ident:
            ident[id(e)] = ["g", sum(1 for v in ident.values() if v[0] == "g"), e.cert.cn, [_san_obs(g) for g in e.cert.altnames]]
            keep.append(e)
        return ident[id(e)]

    def counts():
        return {"ngen": sum(1 for k in st.certs if isinstance(k, tuple)), "qlen": len(st.expire_queue)}

    out = []
    for o in case["ops"]:
        if o["o"] == "add":
            e = pool[o["i"]]
            st.add_cert(e, *o["names"])
            out.append({"cn": e.cert.cn, "alt": [_san_obs(g) for g in e.cert.altnames], **counts()})
        else:
            exc = None
            ret = None
            try:
                r = st.get_cert(o["cn"], [_mk_san(s) for s in o["sans"]], "Org" if o.get("org") else None)
                ret = ent(r)
            except ValueError:
                exc = "ValueError"
            out.append({"ret": ret, "exc": exc, **counts()})
    fc = []
    for k, v in st.certs.items():
        kk = ["c", k] if isinstance(k, str) else ["g", k[0], [_san_obs(g) for g in k[1]]]
        if id(v) not in ident:
            raise RuntimeError("store holds an entry that was never returned nor registered")
        fc.append([kk, ident[id(v)]])
    fq = []
    for v in st.expire_queue:
        if id(v) not in ident:
            raise RuntimeError("queue holds an entry that was never returned")
        fq.append(ident[id(v)])
    return {"ops": out, "final_certs": fc, "final_queue": fq, "default_cap": _S["default_cap"]}


# ---------------------------------------------------------------- Coq printer
def _cname(s):
    return cbytes(s.encode("ascii"))


def _coptname(s):
    return copt(s, _cname, "name")


def _csan_in(s):   # input san -> model san
    if s[0] == "d":
        return f"(DNS {_cname(s[1])})"
    if s[0] == "i":
        return f"(Other {_cname(str(_S['ip'].ip_address(s[1])))})"
    return f"(Other {_cname(s[1])})"


def _csan_obs(s):
    return f"({'DNS' if s[0] == 'd' else 'Other'} {_cname(s[1])})"


def _coentry(e):
    if e[0] == "c":
        return f"(OCustom {cnat(e[1])})"
    return f"(OGen {cnat(e[1])} {_coptname(e[2])} {clist(map(_csan_obs, e[3]), 'san')})"


def coq_case(case, obs):
    ops = []
    for o, r in zip(case["ops"], obs["ops"]):
        if o["o"] == "add":
            ops.append(f"OAdd {cnat(o['i'])} {_coptname(r['cn'])} {clist(map(_csan_obs, r['alt']), 'san')} "
                       f"{clist(map(_cname, o['names']), 'name')} {cnat(r['ngen'])} {cnat(r['qlen'])}")
        else:
            ops.append(f"OGet {_coptname(o['cn'])} {clist(map(_csan_in, o['sans']), 'san')} "
                       f"{copt(r['ret'], _coentry, 'oentry')} {cnat(r['ngen'])} {cnat(r['qlen'])}")
    fc = []
    for k, v in obs["final_certs"]:
        kk = f"KCustom {_cname(k[1])}" if k[0] == "c" else f"KGen {_coptname(k[1])} {clist(map(_csan_obs, k[2]), 'san')}"
        fc.append(f"({kk}, {_coentry(v)})")
    cap = copt(case["cap"], cnat, "nat")
    return (f"Hist {cap} {clist(ops, 'obs_op')} {clist(fc, '(key * oentry)')} "
            f"{clist(map(_coentry, obs['final_queue']), 'oentry')}")


# ---------------------------------------------------------------- oracle (property on the implementation)
def _forms(n):
    """reference wildcard rule: the name itself, and '*.' + everything after each dot"""
    return [n] + ["*." + n[i + 1:] for i, ch in enumerate(n) if ch == "."]


def _san_text(s):
    return str(_S["ip"].ip_address(s[1])) if s[0] == "i" else s[1]


def _potential(cn, sans):
    out = list(_forms(cn)) if cn else []
    for s in sans:
        out += _forms(s[1]) if s[0] == "d" else [_san_text(s)]
    return out + ["*"]


def oracle(case, obs):
    cap = case["cap"] if case["cap"] is not None else obs["default_cap"]
    v = []
    registered = {}          # custom name -> pool index (latest registration wins)
    owner = {}               # generated ordinal -> request it was first returned for
    last = {}                # request -> entry returned last time (dropped when a custom registration touches its names)
    gens = 0                 # number of generated entries so far

    def bad(key, what):
        if not any(x["key"] == key for x in v):
            v.append({"key": key, "what": what})

    for idx, (o, r) in enumerate(zip(case["ops"], obs["ops"])):
        if r["ngen"] > cap:
            bad("over-capacity", f"op {idx}: {r['ngen']} generated keys > capacity {cap}")
        if o["o"] == "add":
            new = ([r["cn"]] if r["cn"] else []) + [s[1] for s in r["alt"]] + list(o["names"])
            for n in new:
                registered[n] = o["i"]
            for q in list(last):
                if set(last[q][1]) & set(new):
                    del last[q]
            continue
        want_sans = [["d", s[1]] if s[0] == "d" else ["o", _san_text(s)] for s in o["sans"]]
        req = repr((o["cn"], want_sans))
        pot = _potential(o["cn"], o["sans"])
        ret = r["ret"]
        if ret is None:
            if not (r["exc"] == "ValueError" and o["cn"] == ""):
                bad("unexpected-error", f"op {idx}: get_cert({o['cn']!r}, {o['sans']}) raised {r['exc']}")
            continue
        if ret[0] == "c":
            if not any(registered.get(n) == ret[1] for n in pot):
                bad("custom-wrong-name", f"op {idx}: get_cert({o['cn']!r}, {o['sans']}) served custom cert #{ret[1]} "
                    f"which is not registered under any of {pot}")
        else:
            want_cn = o["cn"] if (o["cn"] is not None and len(o["cn"]) < 64) else None
            if ret[3] != want_sans or ret[2] != want_cn or owner.setdefault(ret[1], req) != req:
                bad("generated-wrong-names", f"op {idx}: get_cert({o['cn']!r}, {o['sans']}) served generated cert #{ret[1]} "
                    f"with cn={ret[2]!r} sans={ret[3]} (first served for {owner.get(ret[1])})")
        if req in last:
            prev = last[req][0]
            still = prev[0] == "c" or gens - prev[1] <= cap
            if still and prev[:2] != ret[:2]:
                first_hit = next((n for n in pot if n in registered), None)
                if first_hit == "" and ret[0] == "g" and ret[1] == gens:
                    bad("empty-name-regenerates", f"op {idx}: a custom cert is registered under '' and "
                        f"get_cert({o['cn']!r}, {o['sans']}) generated a new certificate again instead of a stable answer")
                else:
                    bad("unstable", f"op {idx}: get_cert({o['cn']!r}, {o['sans']}) returned {ret[:2]} but {prev[:2]} "
                        f"was returned before and should still be cached (capacity {cap}, {gens - prev[1] if prev[0] == 'g' else 0} since)")
        last[req] = (ret, pot)
        if ret[0] == "g" and ret[1] >= gens:
            gens = ret[1] + 1
    return v


def _tags(case, obs):
    t = set()
    seen = set()
    prev_ngen = 0
    reg = set()
    for o, r in zip(case["ops"], obs["ops"]):
        if o["o"] == "add":
            reg |= set(([r["cn"]] if r["cn"] else []) + [s[1] for s in r["alt"]] + list(o["names"]))
        if o["o"] == "get":
            ret = r["ret"]
            pot = _potential(o["cn"], o["sans"])
            hit = next((n for n in pot if n in reg), None)
            if hit == "":
                t.add("empty-name-first")
            if ret is None:
                t.add("valueerror")
            elif ret[0] == "c":
                t.add("custom-hit")
                exact = [o["cn"]] + [_san_text(s) for s in o["sans"]]
                t.add("custom-hit:star" if hit == "*" else "custom-hit:exact" if hit in exact else "custom-hit:wildcard")
            elif ret[1] in seen:
                t.add("cache-hit")
            else:
                seen.add(ret[1])
                t.add("generated")
                if r["ngen"] <= prev_ngen:
                    t.add("eviction")
        prev_ngen = r["ngen"]
    return t


def nontrivial(case, obs):
    return bool(_tags(case, obs) & {"cache-hit", "custom-hit", "eviction"})


def classify(case, obs):
    t = sorted(_tags(case, obs))
    t.append("cap=" + ("default" if case["cap"] is None else str(case["cap"])))
    t.append("len<=20" if len(case["ops"]) <= 20 else "len<=70" if len(case["ops"]) <= 70 else "len>70")
    if any(o["o"] == "add" for o in case["ops"]):
        t.append("has-add")
    return t
