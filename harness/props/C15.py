"""C15 -- Upstream certificates are verified unless verification is disabled
(mitmproxy/addons/tlsconfig.py tls_start_server, net/tls.py create_proxy_server_context,
proxy/layers/tls.py ServerTLSLayer handshake / error path).

Every `hs` case is one upstream connection: abstract certificates (subject/issuer/key identities,
validity offsets, basicConstraints, SANs, CN) are turned into real EC certificates with `cryptography`,
the trust set is written as a CA bundle or a hashed directory, the real TlsConfig.tls_start_server is
the tls_start_server hook of a real ServerTLSLayer driven sans-io, and the peer is an in-memory pyOpenSSL
server presenting the chain.  `ip` / `idna` cases tie the models of ipaddress.ip_address and of the ASCII
path of the idna codec (the two functions that pick set1_ip vs set1_host) to CPython."""
import atexit
import hashlib
import os
import shutil
import tempfile
import time

from lib.coqterm import cbytes, cbool, copt, clist, cN, cZ, hx, unhx

ID = "C15"
QUICK_N = 1500
THOROUGH_N = 7500
SHARD = 250
RULE = ("55% `hs` cases: a chain shape (direct, 1-2 intermediates sent/omitted/out of order/in the trust store, self-signed "
        "trusted or not, rogue CA with the same name, unknown CA, expired/not-yet-valid leaf/intermediate/root, CA:false "
        "issuer, pathlen violated, non-root trust anchor) x SAN set derived from the requested name (exact, other case, full "
        "wildcard at the right/wrong depth, public-suffix wildcard, partial wildcards, star not left-most, CN only, IP as DNS "
        "SAN, DNS as IP SAN, NUL in SAN, trailing dots, underscore/IDN labels) x name source (server.sni preset/empty, "
        "client.sni, address; DNS, IPv4, IPv6, scoped IPv6, non-IP look-alikes, un-encodable names, NUL) x ssl_insecure x "
        "trust options {none = bundled default file (harness stand-in for certifi.where), CA file, hashed CA directory, both} x "
        "placement of the wanted roots {configured store(s), default bundle only, nowhere} x scenario (full handshake, server flight split, server closes, server "
        "answers garbage, TCP connect fails) x child (opens the connection / connection already open with client data "
        "queued); 30% `ip` strings (valid/invalid IPv4/IPv6 forms from a token grammar) and 15% `idna` ASCII names (label "
        "lengths around 63, empty labels). Non-trivial hs = verification on and a ClientHello was sent; distinct by JSON.")
TRUSTED = ["Coq 8.16.1 kernel (coqc), vm_compute for case evaluation",
           "harness/props/C15.py: translation of abstract certificates into real X.509 (cryptography), trust store files, "
           "in-memory peer, sans-io driver (harness/lib/sansio.py), comparison glue (Corr/C15.v)",
           "OpenSSL (via pyOpenSSL/cryptography) performs chain building, validity and name checks as configured by "
           "set_verify / load_verify_locations / X509_VERIFY_PARAM_set1_host|set1_ip / set_hostflags: this is the contract "
           "`openssl_verifies` of the theorems; it is tied to Model/X509Verify.v only by the correspondence matrix",
           "hand models of ipaddress.ip_address and of the ASCII fast path of encodings.idna (CPython 3.12), tied by correspondence",
           "proxy/server.py delivers ConnectionClosed after executing CloseConnection (emulated by the harness)"]
ASSUMPTIONS = ["distinguished names identify keys uniquely inside trust store + sent chain, except for a rogue CA that replaces "
               "(never accompanies) the genuine one: OpenSSL builds chains greedily by name, the specification is existential",
               "no key usage / EKU / name constraints / policy / CRL features in generated certificates (outside Model/X509Verify.v)",
               "validity offsets are whole days away from the handshake time; the exact second now = notAfter is not tested",
               "non-ASCII names: the result of the idna codec is an input of the model (nameprep/punycode not modelled)",
               "tls_start.ssl_conn supplied by another addon, client certificates, ciphers, ALPN and TLS versions are not varied"]
TRANSLATORS = []
ALLOWED_AXIOMS = []
COQ_PRELUDE = "From MV Require Import Model.X509Verify Model.TlsStartServer.\n"

_S = {}
DAY = 86400

# ------------------------------------------------------------------ generator

HOSTS = ["example.com", "www.example.com", "a.b.example.com", "EXAMPLE.com", "wWw.Example.COM", "xn--bcher-kva.example.com",
         "a_b.example.com", "localhost", "example", "co.uk", "x.co.uk", "1.example.com", "bücher.example.com",
         "sub.host.example.org", "a" * 63 + ".com", "192.0.2.01", "1.2.3", "256.1.1.1"]
BAD_HOSTS = ["a..b", ".", ".example.com", "a" * 64 + ".com", "ex\x00ample.com", "example.com..", "example.com.", "*.example.com",
             "f*.example.com", "-a.example.com", "a-.example.com", "a", "bücher..example", "1.2.3.4.", " 192.0.2.1", "1.2.3.4/32",
             "::1/128", "1::2::3", "fe80::1%", "12345::1", ":1::", "::g", "exa mple.com"]
IPS = ["192.0.2.1", "192.0.2.2", "10.0.0.1", "0.0.0.0", "255.255.255.255", "::1", "::", "2001:db8::1", "2001:DB8:0:0:0:0:0:1",
       "::ffff:192.0.2.1", "fe80::1%eth0", "1:2:3:4:5:6:7:8", "1:2:3:4:5:6:192.0.2.1", "1::", "::2:3:4:5:6:7:8"]
IDNA_HINTS = {"bücher.example.com": "xn--bcher-kva.example.com", "bücher..example": None}

IP_TOK = ["0", "1", "9", "10", "01", "00", "255", "256", "192", "1234", "ffff", "FFFF", "fffff", "g", "db8", "2001", "",
          " ", "%", "%eth0", "/", "-1", "+1", "1_0", "١", "a", "0x1"]
V4_FORMS = ["{a}.{b}.{c}.{d}", "{a}.{b}.{c}", "{a}.{b}.{c}.{d}.{a}", "{a}.{b}.{c}.{d}.", ".{a}.{b}.{c}", "{a}.{b}..{d}",
            "{a}.{b}.{c}.{d}{t}"]
V6_FORMS = ["{h}:{h}:{h}:{h}:{h}:{h}:{h}:{h}", "::{h}", "{h}::", "::", "{h}::{h}", "{h}:{h}::{h}:{h}", "::{h}:{h}:{h}:{h}:{h}:{h}:{h}",
            "{h}:{h}:{h}:{h}:{h}:{h}:{h}::", "{h}:{h}:{h}:{h}:{h}:{h}:{h}:{h}:{h}", "{h}::{h}::{h}", ":{h}::{h}", "{h}::{h}:",
            "::{a}.{b}.{c}.{d}", "{h}:{h}:{h}:{h}:{h}:{h}:{a}.{b}.{c}.{d}", "::ffff:{a}.{b}.{c}.{d}", "{h}::{h}%{t}", "{h}:{h}",
            ":::", ":", "{h}:{h}:{h}:{h}:{h}:{h}:{h}:{a}.{b}.{c}.{d}", "::{h}:{h}:{h}:{h}:{h}:{h}:{h}:{h}", "{h}:{h}:{h}:{h}::{h}:{h}:{h}:{h}",
            "{h}:{h}:{h}::{h}:{h}:{h}:{h}", "::{a}.{b}.{c}", "{h}::{h}%", "{h}::{h}%{t}%{t}", "{h}::{h}/{a}"]


def _ip_string(rng):
    oct_ = lambda: rng.weighted([(14, str(rng.randint(0, 255))), (1, rng.choice(IP_TOK))])
    hxt = lambda: rng.weighted([(20, "%x" % rng.randint(0, 0xffff)), (1, "%04X" % rng.randint(0, 0xffff)), (1, rng.choice(IP_TOK))])
    form = (V4_FORMS[0] if rng.chance(0.5) else rng.choice(V4_FORMS)) if rng.chance(0.4) else rng.choice(V6_FORMS)
    out = ""
    i = 0
    while i < len(form):
        if form[i] == "{":
            k = form[i + 1]
            out += hxt() if k == "h" else rng.choice(IP_TOK) if k == "t" else oct_()
            i += 3
        else:
            out += form[i]
            i += 1
    return out


def _idna_string(rng):
    lab = lambda: rng.weighted([(5, "a" * rng.randint(1, 5)), (2, "b" * rng.choice([62, 63, 64, 65])), (1, ""), (1, "x-_*"),
                                (1, "\x00")])
    return ".".join(lab() for _ in range(rng.randint(1, 4))) + rng.choice(["", "", ".", ".."])


def _host_string(rng):
    lab = lambda: rng.weighted([(6, rng.choice(["a", "ab", "a-b", "a_b", "_", "0", "xn--bcher-kva", "A1"])), (1, "b" * rng.choice([62, 63, 64])),
                                (1, ""), (1, rng.choice(["-a", "a-", "-", "a*", "*", "a b", "a/b", "a,b", "a:b", "é".encode().decode("latin-1"), "a\x7f"]))])
    return rng.choice(["", "", "", "."]) + ".".join(lab() for _ in range(rng.randint(1, 4))) + rng.choice(["", "", "", ".", ".."])


def _parent(host):
    h = host.rstrip(".")
    return h.split(".", 1)[1] if "." in h else h


def _san_variants(rng, host, is_ip):
    """(label, dns SANs, ip SANs (text), cn) derived from the requested name"""
    other = "other.example.net"
    if is_ip:
        clean = host.split("%")[0]
        return rng.choice([
            ("ip-exact", [], [clean], None), ("ip-exact+dns", ["example.com"], [clean], None),
            ("ip-other", [], ["192.0.2.77" if "." in clean and ":" not in clean else "2001:db8::77"], None),
            ("ip-as-dns-san", [clean], [], None), ("ip-cn-only", [], [], clean), ("ip-none", [other], [], None),
            ("ip-mapped", [], ["::ffff:" + clean] if ":" not in clean else ["192.0.2.1"], None),
            ("ip-many", [], ["10.9.9.9", clean, "::2"], None)])
    h = host
    par = _parent(h)
    lab0 = h.split(".")[0]
    return rng.choice([
        ("exact", [h], [], None), ("exact", [other, h], [], None), ("case", [h.swapcase()], [], None),
        ("wild-ok", ["*." + par], [], None), ("wild-ok", [other, "*." + par], [], None),
        ("wild-deep", ["*." + _parent(par)], [], None), ("wild-self", ["*." + h], [], None),
        ("wild-tld", ["*." + h.rstrip(".").split(".")[-1]], [], None), ("star", ["*"], [], None),
        ("partial-prefix", [lab0[:1] + "*." + par], [], None), ("partial-suffix", ["*" + lab0[-1:] + "." + par], [], None),
        ("partial-mid", [lab0[:1] + "*" + lab0[-1:] + "." + par], [], None),
        ("star-second", [lab0 + ".*." + _parent(par)], [], None), ("double-star", ["*.*." + _parent(par)], [], None),
        ("wild-badlabel", ["*.-" + par], [], None), ("wild-trailing-dot", ["*." + par + "."], [], None),
        ("cn-only", [], [], h), ("cn-only+ip-san", [], ["192.0.2.1"], h), ("cn+other-san", [other], [], h),
        ("mismatch", [other], [], None), ("mismatch-sub", ["x" + h], [], None), ("mismatch-parent", [par], [], None),
        ("no-names", [], [], None), ("trailing-dot", [h.rstrip(".") + "."], [], None), ("no-trailing-dot", [h.rstrip(".")], [], None),
        ("nul-san", [h + "\x00.evil.example"], [], None), ("dns-as-ip-target", [h], ["192.0.2.1"], None)])


def _chain_shape(rng):
    """-> (label, certs, chain idx, trust idx); leaf is certs[0]; names/keys are small ints"""
    ok = dict(nb=-30, na=300)
    C = lambda s, i, k, sk, ca, pl=None, **kw: dict(s=s, i=i, k=k, sk=sk, ca=ca, pl=pl, nb=kw.get("nb", -30), na=kw.get("na", 300))
    root = C(1, 1, 1, 1, True)
    inter = C(2, 1, 2, 1, True)
    inter2 = C(3, 2, 3, 2, True)
    dummy = C(90, 90, 90, 90, True)
    shapes = [
        ("direct", [C(10, 1, 10, 1, False), root], [0], [1]),
        ("direct+root-sent", [C(10, 1, 10, 1, False), root], [0, 1], [1]),
        ("inter-sent", [C(10, 2, 10, 2, False), inter, root], [0, 1], [2]),
        ("inter-omitted", [C(10, 2, 10, 2, False), inter, root, dummy], [0], [2]),
        ("inter-trusted", [C(10, 2, 10, 2, False), inter, root], [0], [1, 2]),
        ("inter-only-anchor", [C(10, 2, 10, 2, False), inter, dummy], [0, 1], [1, 2]),
        ("two-inter", [C(10, 3, 10, 3, False), inter2, inter, root], [0, 1, 2], [3]),
        ("two-inter-unordered", [C(10, 3, 10, 3, False), inter2, inter, root, dummy], [0, 2, 4, 1], [3]),
        ("two-inter-one-missing", [C(10, 3, 10, 3, False), inter2, inter, root], [0, 1], [3]),
        ("self-signed-untrusted", [C(10, 10, 10, 10, False), root], [0], [1]),
        ("self-signed-trusted", [C(10, 10, 10, 10, False), root], [0], [0, 1]),
        ("leaf-in-store-no-issuer", [C(10, 7, 10, 7, False), dummy], [0], [0, 1]),
        ("unknown-ca", [C(10, 5, 10, 5, False), C(5, 5, 5, 5, True), root], [0, 1], [2]),
        ("rogue-same-name", [C(10, 1, 10, 9, False), root], [0], [1]),
        ("rogue-same-name-sent", [C(10, 1, 10, 9, False), C(1, 1, 9, 9, True), root], [0, 1], [2]),
        ("rogue-inter", [C(10, 2, 10, 8, False), C(2, 1, 8, 9, True), root], [0, 1], [2]),
        ("leaf-expired", [C(10, 1, 10, 1, False, nb=-300, na=-2), root], [0], [1]),
        ("leaf-future", [C(10, 1, 10, 1, False, nb=2, na=300), root], [0], [1]),
        ("inter-expired", [C(10, 2, 10, 2, False), dict(inter, nb=-300, na=-3), root], [0, 1], [2]),
        ("inter-future", [C(10, 2, 10, 2, False), dict(inter, nb=5, na=300), root], [0, 1], [2]),
        ("root-expired", [C(10, 1, 10, 1, False), dict(root, nb=-3000, na=-1)], [0], [1]),
        ("expired+unknown-ca", [C(10, 5, 10, 5, False, nb=-300, na=-2), root], [0], [1]),
        ("issuer-not-ca", [C(10, 2, 10, 2, False), dict(inter, ca=False), root], [0, 1], [2]),
        ("issuer-leaf-as-ca", [C(10, 11, 10, 11, False), C(11, 1, 11, 1, False), root], [0, 1], [2]),
        ("pathlen-root0-violated", [C(10, 2, 10, 2, False), inter, dict(root, pl=0)], [0, 1], [2]),
        ("pathlen-root0-ok", [C(10, 1, 10, 1, False), dict(root, pl=0)], [0], [1]),
        ("pathlen-inter0-ok", [C(10, 2, 10, 2, False), dict(inter, pl=0), dict(root, pl=1)], [0, 1], [2]),
        ("pathlen-inter0-violated", [C(10, 3, 10, 3, False), inter2, dict(inter, pl=0), root], [0, 1, 2], [3]),
        ("leaf-is-ca", [C(10, 1, 10, 1, True), root], [0], [1]),
        ("extra-unrelated-sent", [C(10, 1, 10, 1, False), root, dummy, C(5, 5, 5, 5, True)], [0, 3], [1, 2]),
    ]
    return rng.choice(shapes)


def _mutate_chain(rng, certs, chain, trust):
    r = rng.below(6)
    certs = [dict(c) for c in certs]
    if r == 0 and len(chain) > 1:
        chain = chain[:-1]
    elif r == 1:
        c = rng.choice(certs); c["nb"], c["na"] = rng.choice([(-300, -1), (1, 300), (-1, 1)])
    elif r == 2:
        c = rng.choice(certs); c["sk"] = rng.choice([c["sk"], 77])
    elif r == 3 and len(trust) > 1:
        trust = trust[1:]
    elif r == 4:
        c = rng.choice(certs)
        if c["ca"]:
            c["pl"] = rng.choice([None, 0, 1])
    else:
        tail = chain[1:]
        rng.shuffle(tail)
        chain = chain[:1] + tail
    return certs, chain, trust


def _place_trust(rng, certs, trust):
    """Where the certificates the chain shape wants trusted are put.  tmode = which options are set (default: none,
    so the bundled default file -- a stand-in written by the harness -- is what is trusted); place = configured: in the
    store(s) that count; bundle-only: only in the default bundle although a CA file/dir is configured (must NOT be
    trusted); neither: nowhere.  Unrelated roots keep every store non-empty."""
    unrelated = lambda n: dict(s=n, i=n, k=n, sk=n, ca=True, pl=None, nb=-30, na=300, dns=[], ips=[], cn=None)
    certs.append(unrelated(95)); d1 = len(certs) - 1
    certs.append(unrelated(96)); d2 = len(certs) - 1
    tmode = rng.weighted([(2, "default"), (3, "file"), (3, "dir"), (2, "both")])
    place = rng.weighted([(60, "configured"), (27, "bundle-only"), (13, "neither")])
    cafile = cadir = None
    bundle = [d2]
    if tmode == "default":
        if place != "neither":
            place = "configured"
            bundle = trust + [d2]
    else:
        conf = trust if place == "configured" else []
        if tmode == "file":
            cafile = conf + [d1]
        elif tmode == "dir":
            cadir = conf + [d1]
        else:
            k = rng.below(len(conf) + 1)
            how = rng.below(3)
            cafile = (conf if how == 0 else conf[:k] if how == 1 else []) + [d1]
            cadir = (conf if how == 0 else conf[k:] if how == 1 else conf) + [d2]
        if place == "bundle-only":
            bundle = trust + [d2]
    return {"cafile": cafile, "cadir": cadir, "bundle": bundle, "tmode": tmode, "place": place}


def _norm(case):
    """(cafile, cadir, bundle) index lists; old-format cases (trust + tmode file|dir) still replay"""
    if "cafile" in case:
        return case["cafile"], case["cadir"], case["bundle"]
    t = case["trust"]
    return (t if case["tmode"] == "file" else None), (t if case["tmode"] == "dir" else None), t


def _configured(case):
    """the configured trusted CAs of the statement: CA file and/or CA directory if set, else the default bundle"""
    f, d, b = _norm(case)
    return b if f is None and d is None else (f or []) + (d or [])


def _hs_case(rng):
    r = rng.random()
    # requested name and where it comes from
    kind = rng.weighted([(56, "host"), (26, "ip"), (13, "bad"), (5, "empty")])
    name = {"host": lambda: rng.choice(HOSTS), "ip": lambda: rng.choice(IPS), "bad": lambda: rng.choice(BAD_HOSTS),
            "empty": lambda: ""}[kind]()
    src = rng.weighted([(5, "address"), (3, "client"), (3, "preset")])
    decoy = rng.choice(["decoy.example.org", "10.1.1.1", "example.com"])
    if kind == "empty":
        preset, csni, host = "", rng.choice([None, "example.com"]), "example.com"
    elif src == "address":
        preset, csni, host = None, rng.choice([None, None, ""]), name
    elif src == "client":
        preset, csni, host = None, name, decoy
    else:
        preset, csni, host = name, rng.choice([None, decoy]), decoy
    eff = preset if preset is not None else (csni or host)
    is_ip = _py_is_ip(eff)
    base = eff if eff and eff.isascii() else (IDNA_HINTS.get(eff) or "example.com")   # SANs are IA5Strings
    label_n, dns, ips, cn = _san_variants(rng, base, is_ip)
    label_c, certs, chain, trust = _chain_shape(rng)
    mode = rng.weighted([(35, "names"), (35, "chain"), (30, "both")])
    if mode == "names":
        label_c, certs, chain, trust = ("direct",) + tuple(_chain_shape_fixed())
    elif mode == "chain":
        label_n, dns, ips, cn = ("ip-exact", [], [eff.split("%")[0]], None) if is_ip else ("exact", [base], [], None)
    if rng.chance(0.15):
        certs, chain, trust = _mutate_chain(rng, certs, list(chain), list(trust))
        label_c += "+mut"
    certs = [dict(c) for c in certs]
    for j, c in enumerate(certs):
        c.setdefault("dns", []); c.setdefault("ips", []); c.setdefault("cn", None)
    certs[0].update(dns=dns, ips=ips, cn=cn)
    if certs[0]["s"] == certs[0]["i"]:
        pass  # self-signed leaf: issuer DN is its own DN, cn included
    scen = rng.weighted([(80, 0), (7, 1), (7, 2), (6, 3)])
    child = 0 if scen == 3 else rng.weighted([(7, 0), (3, 1)])
    return {"k": "hs", "insecure": rng.chance(0.2), "preset": preset, "csni": csni, "host": host,
            "hint": IDNA_HINTS.get(eff) if eff in IDNA_HINTS else None,
            "certs": certs, "chain": list(chain), **_place_trust(rng, certs, list(trust)),
            "scen": scen, "split": rng.chance(0.3), "child": child, "cdata": child == 1 and rng.chance(0.5),
            "tags": [label_n, label_c]}


def _chain_shape_fixed():
    C = lambda s, i, k, sk, ca: dict(s=s, i=i, k=k, sk=sk, ca=ca, pl=None, nb=-30, na=300)
    return [C(10, 1, 10, 1, False), C(1, 1, 1, 1, True)], [0], [1]


def _py_is_ip(s):
    import ipaddress
    try:
        ipaddress.ip_address(s)
        return True
    except ValueError:
        return False


def gen(rng, n, tier):
    out = []
    for _ in range(n):
        r = rng.random()
        if r < 0.55:
            out.append(_hs_case(rng))
        elif r < 0.80:
            s = _ip_string(rng) if rng.chance(0.85) else rng.choice(IPS + BAD_HOSTS + HOSTS)
            out.append({"k": "ip", "s": s})
        elif r < 0.90:
            s = _host_string(rng) if rng.chance(0.8) else rng.choice(HOSTS + BAD_HOSTS + IPS)
            if not s or "\x00" in s or not s.isascii():
                s = "example.com"
            out.append({"k": "hostok", "s": s})
        else:
            s = _idna_string(rng) if rng.chance(0.8) else rng.choice(HOSTS + BAD_HOSTS)
            if any(ord(ch) > 127 for ch in s):
                s = "example.com"
            out.append({"k": "idna", "s": s})
    return out


# ------------------------------------------------------------------ implementation side

def setup_impl():
    if _S:
        return
    import ipaddress
    import warnings
    warnings.filterwarnings("ignore", message="Attribute.s length must be")
    from cryptography import x509
    from cryptography.hazmat.primitives import hashes, serialization
    from cryptography.hazmat.primitives.asymmetric import ec
    from cryptography.x509.oid import NameOID
    from mitmproxy import connection, tls as mtls
    import types
    from mitmproxy.addons import tlsconfig
    from mitmproxy.net import tls as net_tls
    from mitmproxy.proxy import commands, context, events, layer
    from mitmproxy.proxy.layers import tls as ltls
    from mitmproxy.test import taddons
    from OpenSSL import SSL, crypto
    from lib.sansio import Driver
    ta = tlsconfig.TlsConfig()
    cm = taddons.context(ta)
    tctx = cm.__enter__()
    tmp = tempfile.mkdtemp(prefix="verif-C15-", dir=os.environ.get("VERIF_TMP", None))
    atexit.register(shutil.rmtree, tmp, True)
    tctx.configure(ta, confdir=tmp)

    class Opener(layer.Layer):
        """child kind 0"""
        seen = None

        def _handle_event(self, ev):
            est = bool(self.context.server.tls_established)
            if isinstance(ev, events.Start):
                self.seen.append((1, est))
                err = yield commands.OpenConnection(self.context.server)
                self.seen.append((4 if err else 3, bool(self.context.server.tls_established)))
                if not err:
                    yield commands.SendData(self.context.server, b"APPDATA")
            else:
                self.seen.append((_cev_code(ev, events), est))

    class Eager(layer.Layer):
        """child kind 1"""
        seen = None

        def _handle_event(self, ev):
            est = bool(self.context.server.tls_established)
            self.seen.append((_cev_code(ev, events), est))
            if isinstance(ev, events.Start):
                if est:
                    yield commands.SendData(self.context.server, b"APPDATA")
            elif isinstance(ev, events.DataReceived) and ev.connection is self.context.client:
                yield commands.SendData(self.context.client, ev.data)

    _S.update(ipaddress=ipaddress, x509=x509, hashes=hashes, ser=serialization, ec=ec, NameOID=NameOID, connection=connection,
              mtls=mtls, ta=ta, tctx=tctx, cm=cm, commands=commands, context=context, events=events, layer=layer, ltls=ltls,
              SSL=SSL, crypto=crypto, Driver=Driver, tmp=tmp, T0=int(time.time()), keys={}, certs={}, stores={},
              children=[Opener, Eager], opts=None, bundle=None, net_tls=net_tls, types=types, hctx=SSL.Context(SSL.TLS_CLIENT_METHOD))


def _cev_code(ev, events):
    if isinstance(ev, events.Start):
        return 1
    if isinstance(ev, events.OpenConnectionCompleted):
        return 4 if ev.reply else 3
    if isinstance(ev, events.DataReceived):
        return 2 if ev.connection.__class__.__name__ == "Client" else 5
    if isinstance(ev, events.ConnectionClosed):
        return 6
    return 9


def _key(kid):
    k = _S["keys"].get(kid)
    if k is None:
        k = _S["keys"][kid] = _S["ec"].generate_private_key(_S["ec"].SECP256R1())
    return k


def _dn(case, sid):
    x509, OID = _S["x509"], _S["NameOID"]
    cn = None
    for c in case["certs"]:
        if c["s"] == sid and c.get("cn") is not None:
            cn = c["cn"]
    attrs = [x509.NameAttribute(OID.ORGANIZATION_NAME, "n%d" % sid)]
    if cn is not None:
        attrs.append(x509.NameAttribute(OID.COMMON_NAME, cn, _validate=False))
    return x509.Name(attrs)


def _packed(text):
    return _S["ipaddress"].ip_address(text).packed


def _cert(case, c):
    """abstract certificate -> (cryptography certificate, private key); cached"""
    import datetime
    x509 = _S["x509"]
    subj, iss = _dn(case, c["s"]), _dn(case, c["i"])
    key = (subj.public_bytes(), iss.public_bytes(), c["k"], c["sk"], c["nb"], c["na"], c["ca"], c["pl"], tuple(c["dns"]), tuple(c["ips"]))
    hit = _S["certs"].get(key)
    if hit:
        return hit
    t0 = datetime.datetime.fromtimestamp(_S["T0"], datetime.timezone.utc)
    b = (x509.CertificateBuilder().subject_name(subj).issuer_name(iss).public_key(_key(c["k"]).public_key())
         .serial_number(int.from_bytes(hashlib.sha256(repr(key).encode()).digest()[:8], "big") | 1)
         .not_valid_before(t0 + datetime.timedelta(days=c["nb"])).not_valid_after(t0 + datetime.timedelta(days=c["na"]))
         .add_extension(x509.BasicConstraints(ca=c["ca"], path_length=c["pl"] if c["ca"] else None), critical=True))
    sans = [x509.DNSName._init_without_validation(d) for d in c["dns"]] + [x509.IPAddress(_S["ipaddress"].ip_address(i)) for i in c["ips"]]
    if sans:
        b = b.add_extension(x509.SubjectAlternativeName(sans), critical=False)
    crt = b.sign(_key(c["sk"]), _S["hashes"].SHA256())
    _S["certs"][key] = (crt, _key(c["k"]))
    return _S["certs"][key]


def _write_store(case, idx, kind):
    """write certificates idx as a PEM file (kind file) or a hashed directory (kind dir); -> path (content-addressed)"""
    ser, crypto = _S["ser"], _S["crypto"]
    ders = [_cert(case, case["certs"][i])[0] for i in idx]
    dig = hashlib.sha256(b"".join(c.public_bytes(ser.Encoding.DER) for c in ders)).hexdigest()[:24]
    key = (kind, dig)
    if key in _S["stores"]:
        return _S["stores"][key]
    if kind == "file":
        p = os.path.join(_S["tmp"], f"ca-{dig}.pem")
        with open(p, "wb") as f:
            for c in ders:
                f.write(c.public_bytes(ser.Encoding.PEM))
    else:
        p = os.path.join(_S["tmp"], f"cadir-{dig}")
        os.makedirs(p, exist_ok=True)
        seen = {}
        for c in ders:
            h = "%08x" % crypto.X509.from_cryptography(c).subject_name_hash()
            n = seen.get(h, 0)
            seen[h] = n + 1
            with open(os.path.join(p, f"{h}.{n}"), "wb") as f:
                f.write(c.public_bytes(ser.Encoding.PEM))
    _S["stores"][key] = p
    return p


def _store(case):
    """-> (ssl_verify_upstream_trusted_ca, ssl_verify_upstream_trusted_confdir, stand-in for certifi.where())"""
    f, d, b = _norm(case)
    return (None if f is None else _write_store(case, f, "file"), None if d is None else _write_store(case, d, "dir"),
            _write_store(case, b, "file"))


VERR_CLASS = {2: 1, 7: 1, 18: 1, 19: 1, 20: 1, 21: 1, 24: 1, 25: 1, 26: 1, 27: 1, 79: 1, 9: 2, 10: 2, 62: 3, 64: 3}
EXC_CODE = {"ValueError": 1, "UnicodeError": 2, "TypeError": 3, "Error": 4}


def _run_hs(case):
    S = _S
    SSL, crypto, connection = S["SSL"], S["crypto"], S["connection"]
    ca_file, ca_dir, bundle = _store(case)
    if S["bundle"] != bundle:
        # the bundled default CA file is replaced by a harness-made one (we cannot mint chains under public roots);
        # create_proxy_server_context is lru_cached on the option values, not on the content of the default file
        S["net_tls"].certifi = S["types"].SimpleNamespace(where=lambda b=bundle: b)
        S["net_tls"].create_proxy_server_context.cache_clear()
        S["bundle"] = bundle
    want = (bool(case["insecure"]), ca_file, ca_dir)
    if S["opts"] != want:
        S["tctx"].configure(S["ta"], ssl_insecure=want[0], ssl_verify_upstream_trusted_ca=ca_file,
                            ssl_verify_upstream_trusted_confdir=ca_dir)
        S["opts"] = want
    cl = connection.Client(peername=("client", 1234), sockname=("127.0.0.1", 8080), timestamp_start=0,
                           state=connection.ConnectionState.OPEN)
    cl.sni = case["csni"]
    cx = S["context"].Context(cl, S["tctx"].options)
    cx.server.address = (case["host"], 443)
    if case["preset"] is not None:
        cx.server.sni = case["preset"]
    if case["child"] == 1:
        cx.server.state = connection.ConnectionState.OPEN
    info = {"exc": 0, "cls": 0, "sni": None}

    def policy(hook, drv):
        if hook.name == "tls_start_server":
            try:
                S["ta"].tls_start_server(hook.data)
            except Exception as e:      # addonmanager logs hook exceptions and carries on
                info["exc"] = EXC_CODE.get(type(e).__name__, 9)
            info["sni"] = hook.data.conn.sni
        elif hook.name == "tls_failed_server":
            sc = hook.data.ssl_conn
            err = hook.data.conn.error or ""
            if sc is not None and err.lower().startswith("certificate verify failed"):
                info["cls"] = VERR_CLASS.get(SSL._lib.SSL_get_verify_result(sc._ssl), 0)

    seen = []

    def mk(c):
        l = S["ltls"].ServerTLSLayer(c)
        ch = S["children"][case["child"]](c)
        ch.seen = seen
        l.child_layer = ch
        return l

    connect = (lambda conn, drv: "connect failed") if case["scen"] == 3 else None
    drv = S["Driver"](mk, ctx=cx, policy=policy, connect=connect)
    if case["child"] == 1:
        drv.conns.append(cx.server)
    # the peer
    chain = [_cert(case, case["certs"][i]) for i in case["chain"]]
    sctx = SSL.Context(SSL.TLS_SERVER_METHOD)
    sctx.use_certificate(crypto.X509.from_cryptography(chain[0][0]))
    sctx.use_privatekey(crypto.PKey.from_cryptography_key(chain[0][1]))
    for c, _ in chain[1:]:
        sctx.add_extra_chain_cert(crypto.X509.from_cryptography(c))
    srv = SSL.Connection(sctx)
    srv.set_accept_state()

    pos = [0]
    closed_fed = [False]

    def to_server():
        out = b"".join(bytes.fromhex(t[2]) for t in drv.trace[pos[0]:] if t[0] == "send" and t[1] == 1)
        pos[0] = len(drv.trace)
        return out

    def pump_server(data):
        """bytes from the proxy -> peer; returns what the peer wants to send back"""
        if data:
            srv.bio_write(data)
        try:
            srv.do_handshake()
        except SSL.WantReadError:
            pass
        except SSL.Error:
            pass
        plain = b""
        while True:
            try:
                plain += srv.recv(65535)
            except (SSL.WantReadError, SSL.Error):
                break
        back = b""
        while True:
            try:
                back += srv.bio_read(65535)
            except SSL.WantReadError:
                break
        return plain, back

    now = int(time.time())
    drv.start()
    if case["cdata"]:
        drv.data(0, b"x")
    hello = to_server()
    app = b""
    servername = None
    if hello and case["scen"] != 3:
        plain, back = pump_server(hello)
        app += plain
        sn = srv.get_servername()
        servername = hx(sn) if sn is not None else None
        if case["scen"] == 2:
            back = b"HTTP/1.1 400 Bad Request\r\n\r\n"
        if case["split"]:
            drv.data(1, back[:3])
            back = back[3:]
        if case["scen"] == 1:
            drv.close(1)
        else:
            drv.data(1, back)
            plain, _ = pump_server(to_server())
            app += plain
    closes = [t for t in drv.trace if t[0] == "close" and t[1] == 1]
    if closes and not (case["scen"] == 1 and hello):
        drv.close(1, tcp_half_close=False)      # proxy/server.py: ConnectionClosed follows the close command
    plain, _ = pump_server(to_server())
    app += plain

    code = {"tls_start_server": 2, "tls_established_server": 3, "tls_failed_server": 4}
    cmds = []
    for t in drv.trace:
        if t[0] == "open":
            cmds.append(1)
        elif t[0] == "hook":
            cmds.append(code.get(t[1], 8))
        elif t[0] == "close" and t[1] == 1:
            cmds.append(5)
        elif t[0] == "send" and t[1] == 0:
            cmds.append(6)
        elif t[0] == "crash":
            cmds.append(7)
        elif t[0] != "send":
            cmds.append(8)
    return {"sni": info["sni"], "exc": info["exc"], "hello": bool(hello) and case["scen"] != 3, "servername": servername,
            "cmds": cmds, "child": [2 * c + int(e) for c, e in seen], "app": hx(app),
            "errlogs": sum(1 for lv, _ in drv.logs if lv >= 40), "warnlogs": sum(1 for lv, _ in drv.logs if 30 <= lv < 40),
            "cls": info["cls"], "now": now, "t0": _S["T0"], "crashed": drv.crashed,
            "established": bool(cx.server.tls_established), "error": bool(cx.server.error),
            "state_closed": cx.server.state is connection.ConnectionState.CLOSED}


def run_impl(case):
    if case["k"] == "ip":
        try:
            return {"packed": hx(_S["ipaddress"].ip_address(case["s"]).packed)}
        except ValueError:
            return {"packed": None}
    if case["k"] == "hostok":
        SSL = _S["SSL"]
        c = SSL.Connection(_S["hctx"])
        name = case["s"].encode("latin-1")
        return {"ok": SSL._lib.X509_VERIFY_PARAM_set1_host(SSL._lib.SSL_get0_param(c._ssl), name, len(name)) == 1}
    if case["k"] == "idna":
        try:
            return {"enc": hx(case["s"].encode("idna"))}
        except UnicodeError:
            return {"enc": None}
    return _run_hs(case)


# ------------------------------------------------------------------ Coq terms

def _s(x):
    return cbytes(x.encode("utf-8"))


def _ob(x):
    return copt(x, _s, "bytes")


def _ccert(case, c, t0):
    ips = [_packed(i) for i in c["ips"]]
    return ("(mkCert %s %s %s %s %s %s %s %s %s %s %s)" % (
        cN(c["s"]), cN(c["i"]), cN(c["k"]), cN(c["sk"]), cZ(t0 + c["nb"] * DAY), cZ(t0 + c["na"] * DAY), cbool(c["ca"]),
        copt(c["pl"] if c["ca"] else None, cN, "N"), clist([_s(d) for d in c["dns"]], "bytes"),
        clist([cbytes(i) for i in ips], "bytes"), _ob(c["cn"])))


def coq_case(case, obs):
    if case["k"] == "ip":
        return f"Ip {_s(case['s'])} {copt(obs['packed'], lambda h: cbytes(unhx(h)), 'bytes')}"
    if case["k"] == "hostok":
        return f"Hostok {cbytes(case['s'].encode('latin-1'))} {cbool(obs['ok'])}"
    if case["k"] == "idna":
        return f"Idna {_s(case['s'])} {copt(obs['enc'], lambda h: cbytes(unhx(h)), 'bytes')}"
    t0 = obs["t0"]
    sni = obs["sni"] if obs["sni"] is not None else ""      # hook not reached (TCP connect failed): not compared
    i = f"(mkIn {cbool(case['insecure'])} {_ob(case['preset'])} {_ob(case['csni'])} {_s(case['host'])} {_ob(case['hint'])})"
    cl_ = lambda idx: clist([_ccert(case, case["certs"][j], t0) for j in idx], "cert")
    f, d, b = _norm(case)
    trust = f"(mkTc {copt(f, cl_, '(list cert)')} {copt(d, cl_, '(list cert)')} {cl_(b)})"
    chain = clist([_ccert(case, case["certs"][j], t0) for j in case["chain"]], "cert")
    nl = lambda l: clist([cN(x) for x in l], "N")
    return (f"Hs {i} {trust} {chain} {cZ(obs['now'])} {cN(case['scen'])} {cbool(case['split'])} {cN(case['child'])} "
            f"{cbool(case['cdata'])} {_s(sni)} {cN(obs['exc'])} {cbool(obs['hello'])} "
            f"{copt(obs['servername'], lambda h: cbytes(unhx(h)), 'bytes')} {nl(obs['cmds'])} {nl(obs['child'])} "
            f"{cbytes(unhx(obs['app']))} {cN(obs['errlogs'])} {cN(obs['warnlogs'])} {cN(obs['cls'])}")


# ------------------------------------------------------------------ oracle: the property on the implementation

def _ref_dns_match(pat, host):
    """RFC 6125 6.4 with the two restrictions of the statement: the wildcard is one whole left-most label
    (no partial wildcards), never the public-suffix level; comparison is ASCII case-insensitive."""
    if "\x00" in pat:
        return False
    p, h = pat.lower(), host.lower()
    if p.startswith("*."):
        rest = p[2:]
        labels = rest.split(".")
        wellformed = len(labels) >= 2 and all(
            l and all(ch.isascii() and (ch.isalnum() or ch == "-") for ch in l) and l[0] != "-" and l[-1] != "-" for l in labels)
        if wellformed:
            if not h.endswith("." + rest):
                return False
            first = h[: len(h) - len(rest) - 1]
            return first == "*" or (first != "" and all(ch.isascii() and (ch.isalnum() or ch == "-") for ch in first))
    return p == h


def _ref_chain_ok(certs, chain, trust, now_day):
    """is there a path leaf -> ... -> self-issued (root) member of the trust set, every link a CA signature with
    matching names and key, path lengths respected, everything valid today?"""
    leaf = certs[chain[0]]
    pool = [certs[i] for i in trust] + [certs[i] for i in chain[1:]]
    anchors = [certs[i] for i in trust]
    valid = lambda c: c["nb"] <= now_day <= c["na"]

    def same(a, b):
        return all(a[f] == b[f] for f in ("s", "i", "k", "sk", "nb", "na", "ca", "pl")) and a.get("dns") == b.get("dns") \
            and a.get("ips") == b.get("ips") and a.get("cn") == b.get("cn")

    def go(c, depth, fuel):
        if not valid(c):
            return False
        if c["s"] == c["i"] and any(same(c, a) for a in anchors):      # RFC 5280 6.1: an anchor is trusted by configuration
            return True
        if fuel == 0:
            return False
        for p in pool:
            if p["s"] == c["i"] and p["k"] == c["sk"] and p["ca"] and (p["pl"] is None or depth <= p["pl"]):
                if go(p, depth + 1, fuel - 1):
                    return True
        return False
    return go(leaf, 0, len(pool) + 1)


def _ref_hostname(ref):
    """the DNS names the statement is about: dot-separated labels of 1..63 letters/digits/hyphens/underscores,
    no hyphen at a label edge, no trailing dot, at least two characters"""
    labels = ref.split(".")
    return len(ref) >= 2 and all(
        0 < len(l) <= 63 and l[0] != "-" and l[-1] != "-" and all(ch.isascii() and (ch.isalnum() or ch in "-_") for ch in l)
        for l in labels)


def _ref_expected(case):
    """None if the requested name is neither an IP address nor a DNS name (nothing can be verified), else bool:
    must the handshake be accepted"""
    eff = case["preset"] if case["preset"] is not None else (case["csni"] or case["host"])
    if not eff:
        return None
    leaf = case["certs"][case["chain"][0]]
    try:
        ip = _S["ipaddress"].ip_address(eff).packed
        name_ok = any(_packed(i) == ip for i in leaf["ips"])
    except ValueError:
        try:
            ref = eff.encode("idna").decode("ascii")
        except UnicodeError:
            return None
        if not _ref_hostname(ref):
            return None
        name_ok = any(_ref_dns_match(p, ref) for p in leaf["dns"])
    return name_ok and _ref_chain_ok(case["certs"], case["chain"], _configured(case), 0)


def oracle(case, obs):
    if case["k"] != "hs":
        return []
    v = []
    desc = (f"sni preset={case['preset']!r} client={case['csni']!r} address={case['host']!r} insecure={case['insecure']} "
            f"leaf dns={case['certs'][case['chain'][0]]['dns']!r} ips={case['certs'][case['chain'][0]]['ips']!r} "
            f"cn={case['certs'][case['chain'][0]]['cn']!r} shape={case['tags']} trust-options={case.get('tmode')} wanted-roots-placed={case.get('place', 'configured')}")
    est = 3 in obs["cmds"]
    failed = 4 in obs["cmds"]
    app = unhx(obs["app"])
    exp = _ref_expected(case)
    attempted = case["scen"] != 3
    if obs["crashed"]:
        v.append({"key": "layer-crashed", "what": f"layer raised {obs['crashed']}: {desc}"})
    # 1. only verified peers get a completed handshake and application data
    if not case["insecure"]:
        if (est or app) and exp is not True:
            v.append({"key": "accepted-unverified", "what": f"handshake completed/application data sent although the certificate does not verify: {desc}"})
        if case["scen"] == 0 and exp is True and not est:
            v.append({"key": "valid-rejected", "what": f"valid, trusted, matching certificate rejected: {desc}"})
    else:
        # 4. ssl_insecure: handshakes succeed whatever the certificate is
        if case["scen"] == 0 and not est:
            k = "insecure-rejected" if exp is not None else "insecure-unverifiable-name-fails"
            v.append({"key": k, "what": f"ssl_insecure on but handshake failed (hook exception code {obs['exc']}): {desc}"})
    if est and case["scen"] in (1, 2):
        v.append({"key": "established-without-peer", "what": f"established although the server closed/spoke no TLS: {desc}"})
    # 2. a handshake that does not complete fails the connection: hooks, close, child informed, no data
    if attempted and not est:
        if app:
            v.append({"key": "appdata-after-failure", "what": f"{app!r} reached the server without a completed handshake: {desc}"})
        if not failed or 5 not in obs["cmds"] or not obs["error"]:
            k = "hook-exception-hangs" if obs["exc"] else "no-failure-signal"
            v.append({"key": k, "what": f"handshake not completed but tls_failed_server/close/conn.error missing (commands {obs['cmds']}, "
                                        f"hook exception code {obs['exc']}): {desc}"})
        elif case["child"] == 0 and 8 not in obs["child"] and 9 not in obs["child"]:
            v.append({"key": "child-not-informed", "what": f"child never got OpenConnectionCompleted(error): {desc}"})
        if obs["cmds"].count(4) > 1:
            v.append({"key": "failure-hook-twice", "what": f"tls_failed_server fired more than once: {desc}"})
    if est and failed:
        v.append({"key": "established-and-failed", "what": f"both hooks fired: {desc}"})
    if est and app != b"APPDATA":
        v.append({"key": "appdata-lost", "what": f"established but peer decrypted {app!r}: {desc}"})
    return v


def nontrivial(case, obs):
    if case["k"] == "hs":
        return obs["hello"] and not case["insecure"]
    if case["k"] == "ip":
        return ":" in case["s"] or "." in case["s"]
    return len(case["s"]) > 1


def classify(case, obs):
    if case["k"] == "ip":
        return ["ip", "ip:none" if obs["packed"] is None else "ip:v%d" % (4 if len(obs["packed"]) == 8 else 6)]
    if case["k"] == "idna":
        return ["idna", "idna:error" if obs["enc"] is None else "idna:ok"]
    if case["k"] == "hostok":
        return ["hostok", "hostok:%d" % obs["ok"]]
    out = ["hs", "insecure" if case["insecure"] else "verify", "scen%d" % case["scen"], "child%d" % case["child"],
           "name:" + case["tags"][0], "chain:" + case["tags"][1],
           "outcome:" + ("established" if 3 in obs["cmds"] else "failed" if 4 in obs["cmds"] else "none"),
           "exc%d" % obs["exc"], "cls%d" % obs["cls"], "trust:" + case["tmode"], "place:" + case.get("place", "configured")]
    if not case["insecure"] and case["scen"] == 0 and 4 in obs["cmds"] and obs["cls"] == 0 and obs["exc"] == 0:
        out.append("unclassified-verify-error")
    return out
