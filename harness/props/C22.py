"""C22 -- Client connections from blocked address classes are refused (mitmproxy/addons/block.py)."""
import os
import re

from lib.coqterm import cbool, cN, clist, copt

ID = "C22"
QUICK_N = 2500
THOROUGH_N = 20000
SHARD = 500
RULE = ("Boundary stream (always): every bound of every IANA special-purpose block and of every CPython ipaddress "
        "table (and of ::ffff:0:0/96), each -1/+0/+1, as IPv4, as IPv4-mapped IPv6 and as plain IPv6, spelled by the "
        "harness itself in a rotating notation (dotted, compressed, exploded, upper-case, dotted-tail, ::ffff:hex) with "
        "and without a %zone suffix, crossed with the 4 option settings and a rotating proxy mode (thorough: all "
        "notations). Random stream: 45% random offset inside a random registry/stdlib block, 20% inside a computed "
        "table-difference interval, 15% uniform, 20% within +-300 of a bound; options/mode/notation/zone random. "
        "Histories (a fixed table of same-peer local/non-local orders + 20% of the random stream): 2-6 connections on ONE "
        "fresh Block instance from a pool of 1-3 peers, 35% local mode, options changing with p=0.2 per step, each "
        "connection judged independently. Every case uses a fresh Block instance registered with a fresh master. "
        "2% end-to-end cases drive the real ConnectionHandler.handle_client. Non-trivial = the address is in some "
        "special block or the connection was refused; distinct by canonical JSON.")
TRUSTED = ["Coq 8.16.1 kernel (coqc), vm_compute for the interval checks and case evaluation",
           "harness/translators/block.py (ast -> Gallina for client_connected and the ipaddress properties; tied by correspondence)",
           "Model/Iana.v: hand-entered IANA special-purpose registries (the specification)",
           "CPython ipaddress.ip_address parsing of the peer name (spelling -> family,integer): not modelled, exercised by the harness in 8 notations",
           "harness/props/C22.py generator, address speller and comparison glue (Corr/C22.v)"]
ASSUMPTIONS = ["client.peername[0] is a numeric host as produced by the socket layer (optionally with one %zone)",
               "IPv4Address objects are truthy (no __bool__/__len__), so `address.ipv4_mapped or address` unmaps every mapped address",
               "private = not globally reachable per IANA, except 100.64.0.0/10 which is neither (documented ipaddress meaning)"]
TRANSLATORS = ["block"]
ALLOWED_AXIOMS = []
CASE_TYPE = "case"
COQ_PRELUDE = "From MV Require Import Model.Ipaddr Gen.Block Model.BlockDiff.\nOpen Scope string_scope.\n"

VERIF = os.path.dirname(os.path.dirname(os.path.dirname(os.path.abspath(__file__))))
MAXV = {4: 2**32 - 1, 6: 2**128 - 1}
MAPPED = 0xFFFF << 32
MODES = ["regular", "transparent", "upstream:http://example.com:8080", "reverse:http://example.com:80", "socks5",
         "dns", "wireguard", "local", "local:curl", "tun", "reverse:tcp://10.0.0.1:25"]
ZONES = ["", "", "eth0", "1", "scope", "en0.1", "lo%x"]     # the last one only for IPv6 (rsplit strips one suffix)
OPTS = [(False, False), (False, True), (True, False), (True, True)]


# ------------------------------------------------------------------ the specification (read from Model/Iana.v)

def _load_spec():
    src = open(os.path.join(VERIF, "coq", "Model", "Iana.v")).read()
    num = lambda s: int(s, 0)
    t4, t6 = [], []
    for m in re.finditer(r"^\s*e4\s+(\d+)\s+(\d+)\s+(\d+)\s+(\d+)\s+(\d+)\s+(true|false)", src, re.M):
        a, b, c, d, ln = map(int, m.groups()[:5])
        base = (a << 24) | (b << 16) | (c << 8) | d
        t4.append((base, base + 2 ** (32 - ln) - 1, m.group(6) == "true"))
    for m in re.finditer(r"^\s*e6\s+((?:(?:0x[0-9a-fA-F]+|\d+)\s+){8})(\d+)\s+(true|false)", src, re.M):
        g = [num(x) for x in m.group(1).split()]
        base = 0
        for x in g:
            base = (base << 16) | x
        t6.append((base, base + 2 ** (128 - int(m.group(2))) - 1, m.group(3) == "true"))
    assert len(t4) >= 20 and len(t6) >= 18, "could not read the registry tables from Model/Iana.v"
    return {4: t4, 6: t6}


SPEC = _load_spec()
SHARED = ((100 << 24) | (64 << 16), ((100 << 24) | (64 << 16)) + 2 ** 22 - 1)


def effective(fam, n):
    if fam == 6 and MAPPED <= n <= MAPPED + MAXV[4]:
        return 4, n - MAPPED
    return fam, n


def spec_classes(fam, n):
    """(loopback, private, global) of an already-unmapped address per the IANA registries"""
    reach = True
    for lo, hi, r in SPEC[fam]:
        if lo <= n <= hi:
            reach = r
    if fam == 4:
        return ((127 << 24) <= n <= (127 << 24) + 2 ** 24 - 1, (not reach) and not (SHARED[0] <= n <= SHARED[1]), reach)
    return (n == 1, not reach, reach)


def spec_refused(bp, bg, local, fam, n):
    f, a = effective(fam, n)
    loop, priv, glob = spec_classes(f, a)
    return (not (loop or local)) and ((bp and priv) or (bg and glob))


# ------------------------------------------------------------------ spelling (independent of ipaddress)

def dotted(n):
    return ".".join(str((n >> s) & 255) for s in (24, 16, 8, 0))


def groups(n):
    return [(n >> (16 * (7 - i))) & 0xFFFF for i in range(8)]


def compress(gs, fmt):
    best, bl, i = -1, 0, 0
    while i < len(gs):
        if gs[i] == 0:
            j = i
            while j < len(gs) and gs[j] == 0:
                j += 1
            if j - i > bl:
                best, bl = i, j - i
            i = j
        else:
            i += 1
    if bl < 1:
        return ":".join(fmt % g for g in gs)
    return ":".join(fmt % g for g in gs[:best]) + "::" + ":".join(fmt % g for g in gs[best + bl:])


NOTATIONS = {4: ["dotted"], 6: ["compressed", "exploded", "upper", "full-short", "dotted-tail", "dotted-tail-exploded"]}


def spell(fam, n, notation):
    if fam == 4:
        return dotted(n)
    gs = groups(n)
    if notation == "compressed":
        return compress(gs, "%x")
    if notation == "exploded":
        return ":".join("%04x" % g for g in gs)
    if notation == "upper":
        return compress(gs, "%X")
    if notation == "full-short":
        return ":".join("%x" % g for g in gs)
    tail = dotted(n & 0xFFFFFFFF)
    if notation == "dotted-tail":
        head = compress(gs[:6], "%x")
        return head + tail if head.endswith("::") else head + ":" + tail
    if notation == "dotted-tail-exploded":
        return ":".join("%04X" % g for g in gs[:6]) + ":" + tail
    raise ValueError(notation)


# ------------------------------------------------------------------ bounds and expected table differences

_STATE = {}


def _stdlib_tables(fam):
    import ipaddress
    consts = ipaddress._IPv4Constants if fam == 4 else ipaddress._IPv6Constants
    out = []
    for k, v in vars(consts).items():
        for n in (v if isinstance(v, list) else [v]):
            if isinstance(n, (ipaddress.IPv4Network, ipaddress.IPv6Network)):
                out.append((int(n.network_address), int(n.broadcast_address)))
    return out


def bounds(fam):
    if ("b", fam) not in _STATE:
        bs = {0, MAXV[fam]}
        for lo, hi, _ in SPEC[fam]:
            bs |= {lo, hi + 1}
        for lo, hi in _stdlib_tables(fam):
            bs |= {lo, hi + 1}
        if fam == 4:
            bs |= {SHARED[0], SHARED[1] + 1}
        else:
            bs |= {MAPPED, MAPPED + MAXV[4] + 1, 1, 2}
        _STATE[("b", fam)] = sorted(b for b in bs if 0 <= b <= MAXV[fam])
    return _STATE[("b", fam)]


def blocks(fam):
    return [(lo, hi) for lo, hi, _ in SPEC[fam]] + _stdlib_tables(fam)


def diff_intervals(fam):
    """Maximal intervals where the STDLIB classification (real ipaddress objects) differs from the registry, evaluated
    per cell between consecutive bounds; used to name findings and to aim the generator. Unmapped addresses only."""
    if ("d", fam) not in _STATE:
        import ipaddress
        cls = ipaddress.IPv4Address if fam == 4 else ipaddress.IPv6Address
        bs = bounds(fam)
        bs = bs + ([MAXV[fam] + 1] if bs[-1] != MAXV[fam] + 1 else [])
        out = []
        for lo, nxt in zip(bs, bs[1:]):
            hi = nxt - 1
            if hi < lo or (fam == 6 and MAPPED <= lo <= MAPPED + MAXV[4]):
                continue
            a = cls(lo)
            m = ((not a.is_loopback) and a.is_private, (not a.is_loopback) and a.is_global)
            sl, sp, sg = spec_classes(fam, lo)
            if m != ((not sl) and sp, (not sl) and sg):
                if out and out[-1][1] + 1 == lo:
                    out[-1] = (out[-1][0], hi)
                else:
                    out.append((lo, hi))
        _STATE[("d", fam)] = out
    return _STATE[("d", fam)]


def diff_key(fam, n):
    f, a = effective(fam, n)
    for lo, hi in diff_intervals(f):
        if lo <= a <= hi:
            return "ipaddress-table:" + spell(f, lo, "compressed") + "-" + spell(f, hi, "compressed")
    return None


# ------------------------------------------------------------------ generator

def _conn(fam, n, notation, zone, bp, bg, mode, kind="conn"):
    if fam == 4 and "%" in zone:
        zone = "eth0"
    s = spell(fam, n, notation)
    return {"k": kind, "fam": fam, "n": str(n), "peer": s + ("%" + zone if zone else ""), "bp": bp, "bg": bg, "mode": mode}


def _views(n4):
    """an IPv4 integer as plain IPv4 and as IPv4-mapped IPv6"""
    return [(4, n4), (6, MAPPED + n4)]


HIST_PEERS = [(4, 134744072), (4, 167772161), (6, MAPPED + 134744072), (6, 0x20014860486000000000000000008888),
              (4, 1681915905), (6, 0xfe800000000000000000000000000001), (4, 2130706433), (4, 3232235777)]
HIST_MODES = ["regular", "socks5", "reverse:http://example.com:80", "wireguard", "transparent"]


def _hist(steps):
    return {"k": "hist", "steps": [{k: v for k, v in c.items() if k != "k"} for c in steps]}


def _hist_table():
    """same peer, same options, on one instance: local then non-local, non-local then local, and A-B-A orders"""
    out = []
    k = 0
    for fam, a in HIST_PEERS:
        for bp, bg in OPTS[1:]:
            k += 1
            m = HIST_MODES[k % len(HIST_MODES)]
            m2 = HIST_MODES[(k + 1) % len(HIST_MODES)]
            nt = NOTATIONS[fam][k % len(NOTATIONS[fam])]
            z = ZONES[k % len(ZONES)]
            mk = lambda mode, b1=bp, b2=bg: _conn(fam, a, nt, z, b1, b2, mode)
            out.append(_hist([mk("local"), mk(m)]))
            out.append(_hist([mk(m), mk("local:curl")]))
            out.append(_hist([mk(m), mk(m2), mk("local"), mk(m)]))
            out.append(_hist([mk("local"), mk(m, not bp, not bg), mk(m), mk("local", not bp, bg), mk(m2)]))
    return out


def _rand_hist(rng):
    pool = []
    for _ in range(rng.randint(1, 3)):
        fam, a = rng.choice(HIST_PEERS) if rng.chance(0.6) else (4, rng.below(MAXV[4] + 1))
        pool.append((fam, a, rng.choice(NOTATIONS[fam]), rng.choice(ZONES)))
    bp, bg = rng.choice(OPTS)
    steps = []
    for _ in range(rng.randint(2, 6)):
        if rng.chance(0.2):
            bp, bg = rng.choice(OPTS)
        fam, a, nt, z = rng.choice(pool)
        mode = rng.choice(["local", "local:curl"]) if rng.chance(0.35) else rng.choice(MODES)
        steps.append(_conn(fam, a, nt, z, bp, bg, mode))
    return _hist(steps)


def gen(rng, n, tier):
    out = [{"k": "diffs"}] + _hist_table()
    k = 0
    addrs = []
    for b in bounds(4):
        for d in (-1, 0, 1):
            if 0 <= b + d <= MAXV[4]:
                addrs += _views(b + d)
    for b in bounds(6):
        for d in (-1, 0, 1):
            if 0 <= b + d <= MAXV[6]:
                addrs.append((6, b + d))
    for fam in (4, 6):                       # both ends and the middle of every computed difference interval
        for lo, hi in diff_intervals(fam):
            for a in (lo, (lo + hi) // 2, hi):
                addrs += _views(a) if fam == 4 else [(6, a)]
    for fam, a in addrs:
        nots = NOTATIONS[fam] if tier == "thorough" else [NOTATIONS[fam][k % len(NOTATIONS[fam])]]
        for notation in nots:
            for bp, bg in OPTS:
                k += 1
                out.append(_conn(fam, a, notation, ZONES[k % len(ZONES)], bp, bg, MODES[k % len(MODES)]))
    for _ in range(n):
        if rng.chance(0.2):
            out.append(_rand_hist(rng))
            continue
        r = rng.random()
        fam = 4 if rng.chance(0.45) else 6
        if r < 0.45:
            lo, hi = rng.choice(blocks(fam))
            a = lo + rng.below(hi - lo + 1)
        elif r < 0.65:
            lo, hi = rng.choice(diff_intervals(fam))
            a = lo + rng.below(hi - lo + 1)
        elif r < 0.80:
            a = rng.below(MAXV[fam] + 1) if rng.chance(0.7) else rng.below(2 ** rng.randint(1, 127 if fam == 6 else 31))
        else:
            a = min(MAXV[fam], max(0, rng.choice(bounds(fam)) + rng.randint(-300, 300)))
        if fam == 4 and rng.chance(0.5):
            fam, a = 6, MAPPED + a
        kind = "e2e" if rng.chance(0.02) else "conn"
        bp, bg = rng.choice(OPTS) if rng.chance(0.8) else (True, True)
        out.append(_conn(fam, a, rng.choice(NOTATIONS[fam]), rng.choice(ZONES), bp, bg,
                         rng.choice(MODES) if rng.chance(0.8) else "regular", kind))
    return out


# ------------------------------------------------------------------ implementation

def setup_impl():
    import logging
    from mitmproxy import connection
    from mitmproxy.addons import block
    from mitmproxy.proxy import mode_specs
    from mitmproxy.test import taddons
    logging.disable(logging.CRITICAL)
    _STATE.update(block=block, taddons=taddons, connection=connection, mode_specs=mode_specs, ready=True)


def _fresh():
    """A NEW Block instance registered with a new master: every case starts from a fresh addon, so a case replays on its
    own; option updates reach the addon's configure hook (if it has one) through the real addon manager."""
    addon = _STATE["block"].Block()
    tctx = _STATE["taddons"].context(addon)          # Master() also installs mitmproxy.ctx.options
    return addon, tctx


def _close(tctx):
    if tctx.owns_loop and not tctx.master.event_loop.is_closed():
        tctx.master.event_loop.close()


def _check_speller(c):
    # the generator's own claim "this spelling denotes (fam, n)" is checked against the reference parser
    import ipaddress
    ref = ipaddress.ip_address(c["peer"].split("%", 1)[0])
    if (ref.version, int(ref)) != (c["fam"], int(c["n"])):
        raise AssertionError(f"harness speller wrong: {c['peer']} is not ({c['fam']}, {c['n']})")


def _set_options(tctx, c):
    # only options whose value really changes are set (OptManager.update reports every key it is given as updated,
    # which would spuriously run configure hooks between two connections served under unchanged options)
    want = {"block_private": c["bp"], "block_global": c["bg"]}
    changed = {k: v for k, v in want.items() if getattr(tctx.options, k) != v}
    if changed:
        tctx.options.update(**changed)


def _hook(addon, tctx, c):
    """one client_connected event on the given instance, with the given option values current"""
    _check_speller(c)
    _set_options(tctx, c)
    client, mode_cls = _client(c)
    o = {"mode_cls": mode_cls}
    try:
        addon.client_connected(client)
        o["error"] = client.error
    except Exception as e:
        o["raised"] = type(e).__name__
    return o


def _client(case):
    S = _STATE
    mode = S["mode_specs"].ProxyMode.parse(case["mode"])
    return S["connection"].Client(peername=(case["peer"], 51234), sockname=("0.0.0.0", 8080), proxy_mode=mode), type(mode).__name__


def run_impl(case):
    if "ready" not in _STATE:
        setup_impl()
    S = _STATE
    if case["k"] == "diffs":
        return {"d4": [[str(a), str(b)] for a, b in diff_intervals(4)], "d6": [[str(a), str(b)] for a, b in diff_intervals(6)]}
    addon, tctx = _fresh()
    try:
        if case["k"] == "hist":
            return {"steps": [_hook(addon, tctx, c) for c in case["steps"]]}
        if case["k"] == "conn":
            return _hook(addon, tctx, case)
        return _e2e(addon, tctx, case)
    finally:
        _close(tctx)


def _e2e(addon, tctx, case):
    S = _STATE
    _check_speller(case)
    _set_options(tctx, case)
    client, mode_cls = _client(case)
    obs = {"mode_cls": mode_cls}
    # end-to-end: the real ConnectionHandler.handle_client with the Block addon behind the hook
    import asyncio
    from mitmproxy.proxy import context, server, server_hooks
    trace = []

    class Writer:
        def close(self):
            trace.append("CloseWriter")

    class H(server.ConnectionHandler):
        async def handle_hook(self, hook):
            if isinstance(hook, server_hooks.ClientConnectedHook):
                trace.append("hook")
                addon.client_connected(*hook.args())

        async def server_event(self, event):
            trace.append("StartEvent" if type(event).__name__ == "Start" else type(event).__name__)

        async def handle_connection(self, conn):
            trace.append("HandleConnection")

    async def go():
        h = H(context.Context(client, tctx.options))
        h.transports[client] = server.ConnectionIO(writer=Writer())
        await h.handle_client()

    try:
        asyncio.run(go())
        obs["error"] = client.error
    except Exception as e:
        obs["raised"] = type(e).__name__
    obs["trace"] = trace
    return obs


def _cip(case):
    return f"(IPv{case['fam']} {cN(int(case['n']))})"


def _cstr(s):
    assert all(32 <= ord(c) < 127 for c in s)
    return '"' + s.replace('"', '""') + '"'


def coq_case(case, obs):
    if case["k"] == "diffs":
        # ties the finding keys (difference intervals seen on the real ipaddress objects) to the difference
        # computed inside Coq from the dumped tables
        pl = lambda d: clist((f"({cN(int(a))}, {cN(int(b))})" for a, b in d), "(N * N)")
        return f"Diffs {pl(obs['d4'])} {pl(obs['d6'])}"
    if case["k"] == "hist":
        steps = []
        for c, ob in zip(case["steps"], obs["steps"]):
            oo = "ObsRaised" if "raised" in ob else f"(ObsError {copt(ob['error'], _cstr, 'string')})"
            steps.append(f"(Build_conn {cbool(c['bp'])} {cbool(c['bg'])} {ob['mode_cls']} {_cip(c)}, {oo})")
        return f"Hist {clist(steps, '(conn * obs)')}"
    o = "ObsRaised" if "raised" in obs else f"(ObsError {copt(obs['error'], _cstr, 'string')})"
    head = f"{cbool(case['bp'])} {cbool(case['bg'])} {obs['mode_cls']} {_cip(case)} {o}"
    if case["k"] == "conn":
        return f"Conn {head}"
    tr = obs["trace"]
    assert tr[:1] == ["hook"], tr
    return f"E2E {head} {clist(tr[1:], 'action')}"


def oracle(case, obs):
    if case["k"] == "diffs":
        return []
    if case["k"] == "hist":
        # every connection of the history is judged on its own: current options, its own peer and mode only
        v = []
        hist = " -> ".join(f"{c['peer']}[{c['mode']},bp={int(c['bp'])},bg={int(c['bg'])}]" for c in case["steps"])
        for i, (c, ob) in enumerate(zip(case["steps"], obs["steps"])):
            for x in oracle({**c, "k": "conn"}, ob):
                v.append({"key": x["key"], "what": f"connection {i + 1} of the history {hist} on one Block instance: {x['what']}"})
        return v
    if "raised" in obs:
        return [{"key": "raised", "what": f"client_connected raised {obs['raised']} for peer {case['peer']}"}]
    fam, n = case["fam"], int(case["n"])
    local = obs["mode_cls"] == "LocalMode"
    want = spec_refused(case["bp"], case["bg"], local, fam, n)
    got = obs["error"] is not None
    v = []
    if want != got:
        key = diff_key(fam, n) or "refusal-mismatch"
        v.append({"key": key, "what": f"peer {case['peer']} block_private={case['bp']} block_global={case['bg']} mode={case['mode']}: "
                                      f"{'refused' if got else 'not refused'}, registry says {'refuse' if want else 'do not refuse'}"})
    if case["k"] == "e2e":
        tr = obs["trace"]
        if got and tr != ["hook", "CloseWriter"]:
            v.append({"key": "processed-after-refusal", "what": f"peer {case['peer']}: handle_client trace {tr}"})
        if not got and (tr[:2] != ["hook", "StartEvent"] or "CloseWriter" in tr):
            v.append({"key": "not-processed", "what": f"peer {case['peer']}: handle_client trace {tr}"})
    return v


def nontrivial(case, obs):
    if case["k"] == "diffs":
        return True
    if case["k"] == "hist":
        return any(nontrivial({**c, "k": "conn"}, ob) for c, ob in zip(case["steps"], obs["steps"]))
    f, a = effective(case["fam"], int(case["n"]))
    return obs.get("error") is not None or any(lo <= a <= hi for lo, hi, _ in SPEC[f])


def classify(case, obs):
    if case["k"] == "diffs":
        return ["diffs"]
    if case["k"] == "hist":
        st, ob = case["steps"], obs["steps"]
        tags = ["hist", f"hist-len={min(len(st), 6)}"]
        seen = {}
        for c, o in zip(st, ob):
            loc = o["mode_cls"] == "LocalMode"
            for (ploc, pbp, pbg) in seen.get(c["peer"], []):
                tags.append("hist-repeat-peer")
                if ploc != loc and (pbp, pbg) == (c["bp"], c["bg"]):
                    tags.append("hist-same-peer-local-vs-nonlocal-same-options")
                if (pbp, pbg) != (c["bp"], c["bg"]):
                    tags.append("hist-same-peer-options-changed")
            seen.setdefault(c["peer"], []).append((loc, c["bp"], c["bg"]))
        tags += ["hist-some-killed" if any(o.get("error") for o in ob) else "hist-none-killed"]
        return sorted(set(tags))
    fam, n = case["fam"], int(case["n"])
    f, a = effective(fam, n)
    loop, priv, glob = spec_classes(f, a)
    cls = "loopback" if loop else "private" if priv else "global" if glob else "shared"
    err = obs.get("error")
    return [case["k"], "v4" if fam == 4 else ("mapped" if f == 4 else "v6"), "zone" if "%" in case["peer"] else "nozone",
            f"spec-{cls}", "raised" if "raised" in obs else "allowed" if err is None else "killed-private" if "private" in err else "killed-global",
            f"opts={int(case['bp'])}{int(case['bg'])}", "local" if obs["mode_cls"] == "LocalMode" else "nonlocal",
            "in-difference" if diff_key(fam, n) else "agree-region"]
