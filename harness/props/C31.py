"""C31 -- Content-Encoding round-trips and the codec cache is transparent
(mitmproxy/net/encoding.py encode/decode + _cache; mitmproxy/http.py Message.set_content/get_content/decode/encode)."""
import codecs
import gzip
import zlib
from io import BytesIO

from lib.coqterm import cbytes, cbool, copt, clist, cN, hx, unhx

ID = "C31"
QUICK_N = 1000
THOROUGH_N = 5000
SHARD = 100
COQ_PRELUDE = "From MV Require Import Model.Encoding.\n"
RULE = ("each case is one history of 1-10 calls on a fresh cache: raw encoding.decode/encode calls and "
        "Message.set_content/get_content/decode/encode on two real messages (a Response and a Request), interleaved with "
        "harness edits of Content-Encoding / Transfer-Encoding / raw_content. Per case one main coding (80% one of the five "
        "cached codings, used in 70% of the calls, in mixed case 30%) plus 0-2 others (identity/none/empty, unknown or "
        "multi-valued names, Python byte and str codecs such as hex, zlib, utf8, rot13); bodies: 1-2 plain strings, their "
        "valid streams under the main coding (raw deflate too), and truncated / trailing-junk / doubled / bit-flipped "
        "streams of all codecs; 35% of operands are results of earlier steps, so the one-entry cache is hit with the same "
        "bytes under the same and under different codings (hits are tagged). Thorough adds every 3-call history over 15 "
        "decode/encode calls around one body. 25% of the cases are lenient-decode scenarios: a body of a cached coding "
        "malformed by offset class (sync-/full-flushed without final block, trailer missing / halved / one byte short, header only, "
        "mid-data, any offset, trailing data, doubled, raw sync-flushed / truncated) is read on one message or decoded, then its "
        "content is assigned to ANOTHER message / Message.encode / encoding.encode under the same coding. Non-trivial = at least two cache-relevant calls and one cached coding; "
        "distinct by canonical JSON.")
TRUSTED = ["Coq 8.16.1 kernel (coqc), vm_compute for case evaluation",
           "harness/props/C31.py generator, runner, table of library results and comparison glue (Corr/C31.v)",
           "CONTRACT (hypothesis of the round-trip theorems, not proved): for gzip/zlib/brotli/zstd as called by encoding.py, "
           "decompress(compress(x)) = x and compress(x) is non-empty; checked on every generated body by the oracle's "
           "independent decoders",
           "hand model coq/Model/Encoding.v of encoding.py and of the four Message methods (tied by correspondence)",
           "Headers reduced to get(content-encoding), (transfer-encoding in headers), get(content-length): operations on one "
           "name do not affect another (property C35)"]
ASSUMPTIONS = ["bodies are bytes (set_content rejects other types before encoding.encode is reached)",
               "coding names and error modes are ASCII, so str.lower is ASCII lower",
               "model flag lenient is probed once from the live code: does set_content let the TypeError of a str codec escape"]

CACHED = ["gzip", "deflate", "deflateraw", "br", "zstd"]
SUPPORTED = CACHED + ["identity", "none"]
NAMES_GOOD = ["gzip", "deflate", "br", "zstd", "gzip", "deflate", "deflateraw", "GZip", "BR", "Deflate", "ZSTD", "zStd",
              "identity", "none", "", "Identity"]
NAMES_UNKNOWN = ["zopfli", "gzip, br", "gzip ", "x-gzip", "compress", " br", "gzip\x00", "deflate;q=1"]
NAMES_PY = ["hex", "base64", "zlib", "bz2", "quopri", "utf8", "latin1", "rot13", "utf-16", "idna", "UTF8", "punycode", "ascii"]
ERRORS = ["strict", "strict", "strict", "strict", "strict", "strict", "ignore", "replace", ""]
PLAIN = [b"", b"a", b"hello world hello world", b"\x00" * 20, b"x\x9c", b"\x1f\x8b\x08", b"abcabcabcabcabcabcabc",
         b"The quick brown fox", b"\xff\xfe\xfd", b"{\"a\": 1}"]

PRIM = {"gzip_compress": 0, "zlib_auto": 1, "zlib_compress": 2, "zlib_decompress": 3, "zlib_decompress_raw": 4,
        "brotli_compress": 5, "brotli_decompress": 6, "zstd_compress": 7, "zstd_decompress": 8, "py_encode": 9, "py_decode": 10}

_libs = {}


def _lib():
    if not _libs:
        import brotli
        import sys
        if sys.version_info >= (3, 14):
            from compression import zstd
        else:
            from backports import zstd
        _libs["brotli"] = brotli
        _libs["zstd"] = zstd
    return _libs


# ---------- the library primitives, called directly with the parameters encoding.py documents ----------
def _gzip1(x):
    s = BytesIO()
    with gzip.GzipFile(fileobj=s, mode="wb", mtime=0, compresslevel=1) as f:
        f.write(x)
    return s.getvalue()


def _zauto(x):
    d = zlib.decompressobj(47)
    return d.decompress(x) + d.flush()


def prim(pid, x, name="", errors=""):
    """-> ['b', hex] | ['s'] | ['e'] | ['t']"""
    L = _lib()
    try:
        if pid == 0: r = _gzip1(x)
        elif pid == 1: r = _zauto(x)
        elif pid == 2: r = zlib.compress(x, level=1)
        elif pid == 3: r = zlib.decompress(x)
        elif pid == 4: r = zlib.decompress(x, -15)
        elif pid == 5: r = L["brotli"].compress(x, quality=0)
        elif pid == 6: r = L["brotli"].decompress(x)
        elif pid == 7: r = L["zstd"].compress(x, level=1)
        elif pid == 8: r = L["zstd"].decompress(x)
        elif pid == 9: r = codecs.encode(x, name, errors)
        else: r = codecs.decode(x, name, errors)
    except TypeError:
        return ["t"]
    except Exception:
        return ["e"]
    if isinstance(r, str):
        return ["s"]
    return ["b", hx(bytes(r))]


def _dec_keys(x, name, errors):
    n = name.lower()
    if n == "gzip": return [(1, "", "", x)]
    if n in ("deflate", "deflateraw"): return [(3, "", "", x), (4, "", "", x)]
    if n == "br": return [(6, "", "", x)]
    if n == "zstd": return [(8, "", "", x)]
    if n in ("identity", "none"): return []
    return [(10, n, errors, x)]


def _enc_keys(x, name, errors):
    n = name.lower()
    if n == "gzip": return [(0, "", "", x)]
    if n in ("deflate", "deflateraw"): return [(2, "", "", x)]
    if n == "br": return [(5, "", "", x)]
    if n == "zstd": return [(7, "", "", x)]
    if n in ("identity", "none"): return []
    return [(9, n, errors, x)]


# ---------- strict reference decoders (independent API paths; used by the oracle only) ----------
def ref_decode(name, x):
    """-> bytes, or None if a standards-following recipient rejects the stream."""
    n = name.lower()
    L = _lib()
    if n in ("identity", "none", ""):
        return x
    if x == b"":
        return b""
    try:
        if n == "gzip":
            # two independent readers must agree (CPython's gzip module ignores reserved FLG bits that
            # RFC 1952 tells a decoder to reject; zlib rejects them): otherwise no reference verdict
            a = gzip.decompress(x)
            b, rest = b"", x
            while rest:
                d = zlib.decompressobj(31)
                b += d.decompress(rest) + d.flush()
                if not d.eof:
                    return None
                rest = d.unused_data
            return a if a == b else None
        if n in ("deflate", "deflateraw"):
            for wb in (15, -15):
                try:
                    d = zlib.decompressobj(wb)
                    out = d.decompress(x) + d.flush()
                    if d.eof and not d.unused_data:
                        return out
                except zlib.error:
                    pass
            return None
        if n == "br":
            d = L["brotli"].Decompressor()
            out = d.process(x)
            return out if d.is_finished() else None
        if n == "zstd":
            out, rest = b"", x
            while rest:
                d = L["zstd"].ZstdDecompressor()
                out += d.decompress(rest)
                if not d.eof:
                    return None
                rest = d.unused_data
            return out
    except Exception:
        return None
    return None


def _gzip_first_member_only(x, got):
    """x holds >= 2 gzip members and got is exactly the first member's data."""
    try:
        d = zlib.decompressobj(31)
        first = d.decompress(x) + d.flush()
        return d.eof and d.unused_data[:2] == b"\x1f\x8b" and got == first
    except zlib.error:
        return False


# ---------- generator ----------
def _streams(rng, b, main=None):
    L = _lib()
    z = zlib.compress(b, level=1)
    g = _gzip1(b)
    base = [g, z, z[2:-4], L["brotli"].compress(b, quality=0), L["zstd"].compress(b, level=1), zlib.compress(b, 9),
            gzip.compress(b, 6, mtime=1)]
    s = _valid_stream(main, b) if main and rng.chance(0.6) else rng.choice(base)
    r = rng.random()
    if not s:
        return s
    if r < 0.55:
        return s
    if r < 0.65:
        return s[:max(1, len(s) - rng.randint(1, 8))]
    if r < 0.72:
        return s[:rng.randint(1, min(14, len(s)))]
    if r < 0.82:
        return s + rng.choice([b"junk", b"\x00", b"\r\n", s[:3]])
    if r < 0.92:
        return s + rng.choice([s, s, g, z])
    i = rng.below(len(s))
    return s[:i] + bytes([s[i] ^ (1 << rng.below(8))]) + s[i + 1:]


def _valid_stream(name, b):
    L = _lib()
    n = name.lower()
    if n == "gzip": return _gzip1(b)
    if n in ("deflate", "deflateraw"): return zlib.compress(b, level=1)
    if n == "br": return L["brotli"].compress(b, quality=0)
    if n == "zstd": return L["zstd"].compress(b, level=1)
    return b


def _variant(rng, n):
    r = rng.random()
    return n if r < 0.7 else n.upper() if r < 0.8 else n.capitalize() if r < 0.9 else n[:1] + n[1:].upper()


def _pick_names(rng, main):
    out = [main, _variant(rng, main)]
    for _ in range(rng.randint(0, 2)):
        r = rng.random()
        out.append(rng.choice(NAMES_GOOD) if r < 0.5 else rng.choice(NAMES_UNKNOWN) if r < 0.8 else rng.choice(NAMES_PY))
    return out


def _gen_case(rng):
    main = rng.choice(CACHED) if rng.chance(0.8) else rng.choice(NAMES_GOOD + NAMES_UNKNOWN + NAMES_PY)
    names = _pick_names(rng, main)
    plains = [rng.choice(PLAIN) if rng.chance(0.7) else rng.bytes(rng.randint(1, 30)) for _ in range(rng.randint(1, 2))]
    valid = [_valid_stream(main, p) for p in plains]
    if main in ("deflate", "deflateraw") and rng.chance(0.4):
        valid += [zlib.compress(p, level=1)[2:-4] for p in plains if p]      # raw deflate, accepted by decode_deflate
    pool = list(plains) + valid
    for _ in range(rng.randint(0, 2)):
        pool.append(_streams(rng, rng.choice(plains), main))
    steps = []

    def body(prefer=None, allow_none=True):
        r = rng.random()
        if steps and r < 0.35:
            return {"res": rng.below(len(steps)), "alt": hx(rng.choice(pool))}
        if allow_none and 0.35 <= r < 0.38:
            return None
        if prefer and r < 0.75:
            return {"lit": hx(rng.choice(prefer))}
        return {"lit": hx(rng.choice(pool))}

    def name():
        return rng.choice(names[:2]) if rng.chance(0.7) else rng.choice(names)

    for _ in range(rng.randint(1, 10)):
        k = rng.weighted([(16, "dec"), (16, "enc"), (16, "set"), (12, "get"), (8, "mdec"), (10, "menc"), (12, "edit")])
        slot = rng.below(2)
        if k == "dec":
            steps.append({"op": k, "body": body(valid + pool[len(plains) + len(valid):]), "name": name(), "errors": rng.choice(ERRORS)})
        elif k == "enc":
            steps.append({"op": k, "body": body(plains), "name": name(), "errors": rng.choice(ERRORS)})
        elif k == "set":
            steps.append({"op": k, "slot": slot, "body": body(plains)})
        elif k in ("get", "mdec"):
            steps.append({"op": k, "slot": slot, "strict": rng.chance(0.6)})
        elif k == "menc":
            steps.append({"op": k, "slot": slot, "name": name()})
        else:
            e = {"op": "edit", "slot": slot}
            if rng.chance(0.7):
                e["ce"] = name() if rng.chance(0.85) else None
            if rng.chance(0.25):
                e["te"] = rng.chance(0.6)
            if rng.chance(0.5):
                e["raw"] = body(valid + pool[len(plains) + len(valid):])
            steps.append(e)
    return {"steps": steps}


def _all_cases_small():
    """thorough: every 3-step history over a small alphabet of calls around one body (cache-key coverage)."""
    b = b"hello world hello world"
    z = zlib.compress(b, level=1)
    g = _gzip1(b)
    alpha = []
    for n in ("gzip", "deflate", "deflateraw"):
        alpha.append({"op": "enc", "body": {"lit": hx(b)}, "name": n, "errors": "strict"})
        alpha.append({"op": "dec", "body": {"lit": hx(z)}, "name": n, "errors": "strict"})
        alpha.append({"op": "dec", "body": {"lit": hx(g + g)}, "name": n, "errors": "strict"})
        alpha.append({"op": "dec", "body": {"res": 0, "alt": hx(g[:-5])}, "name": n, "errors": "strict"})
        alpha.append({"op": "enc", "body": {"res": 0, "alt": hx(b)}, "name": n, "errors": "ignore"})
    out = []
    for a in alpha:
        for c in alpha:
            for d in alpha:
                out.append({"steps": [dict(a), dict(c), dict(d)]})
    return out


MALFORMED_CLASSES = ["sync-flushed", "full-flushed", "missing-trailer", "half-trailer", "one-short", "header-only",
                     "mid-data", "trailing-data", "doubled", "raw-sync-flushed", "raw-truncated", "cut-at"]


def _malformed(rng, name, b, cls):
    """a body that is NOT a complete, exact stream of coding name for content b (by offset class)."""
    L = _lib()
    n = name.lower()
    if n in ("gzip", "deflate", "deflateraw"):
        wb = 31 if n == "gzip" else 15
        trailer = 8 if n == "gzip" else 4
        hdr = 10 if n == "gzip" else 2
        full = _valid_stream(n, b)
        if cls in ("sync-flushed", "full-flushed", "raw-sync-flushed"):
            c = zlib.compressobj(rng.choice([1, 6, 9]), zlib.DEFLATED, -15 if cls == "raw-sync-flushed" else wb)
            return c.compress(b) + c.flush(zlib.Z_FULL_FLUSH if cls == "full-flushed" else zlib.Z_SYNC_FLUSH)
        if cls == "raw-truncated":
            raw = full[hdr:-trailer]
            return raw[:max(1, len(raw) - rng.randint(1, 3))]
    else:
        full = _valid_stream(n, b)
        trailer, hdr = 4, min(4, len(full))
    if cls == "missing-trailer": return full[:-trailer]
    if cls == "half-trailer": return full[:-(trailer // 2)]
    if cls == "one-short": return full[:-1]
    if cls == "header-only": return full[:hdr]
    if cls == "mid-data": return full[:max(1, (hdr + len(full) - trailer) // 2)]
    if cls == "trailing-data": return full + rng.choice([b"\x00", b"junk", b"\r\n0\r\n\r\n"])
    if cls == "doubled": return full + full
    return full[:rng.randint(1, max(1, len(full) - 1))]          # cut-at: any offset


def _gen_lenient_scenario(rng):
    """a decode of a malformed / truncated body (message read or raw call), then -- mostly with no other cached call in
    between -- the decoded content is encoded again: on another message, by Message.encode, or by encoding.encode."""
    name = rng.choice(CACHED)
    shown = _variant(rng, name)
    b = rng.choice([p for p in PLAIN if p]) if rng.chance(0.6) else rng.bytes(rng.randint(4, 40), b"ab{}\"\x00")
    cls = rng.choice(MALFORMED_CLASSES)
    bad_stream = _malformed(rng, name, b, cls)
    steps = []
    if rng.chance(0.25):                       # something unrelated in the cache first
        steps.append({"op": "enc", "body": {"lit": hx(rng.choice(PLAIN))}, "name": rng.choice(CACHED), "errors": "strict"})
    if rng.chance(0.6):
        steps.append({"op": "edit", "slot": 0, "ce": shown, "raw": {"lit": hx(bad_stream)}})
        steps.append({"op": rng.choice(["get", "get", "mdec"]), "slot": 0, "strict": rng.chance(0.5)})
    else:
        steps.append({"op": "dec", "body": {"lit": hx(bad_stream)}, "name": shown, "errors": "strict"})
    src = len(steps) - 1
    if rng.chance(0.15):                       # an intervening call that may or may not evict the entry
        steps.append(rng.choice([{"op": "get", "slot": 1, "strict": True},
                                 {"op": "enc", "body": {"lit": hx(b)}, "name": "identity", "errors": "strict"},
                                 {"op": "dec", "body": {"lit": hx(bad_stream)}, "name": rng.choice(CACHED), "errors": "strict"}]))
    content = {"res": src, "alt": hx(b)} if rng.chance(0.7) else {"lit": hx(b)}
    k = rng.weighted([(5, "set"), (2, "menc"), (3, "enc")])
    if k == "set":
        steps.append({"op": "edit", "slot": 1, "ce": _variant(rng, name)})
        steps.append({"op": "set", "slot": 1, "body": content})
        steps.append({"op": "get", "slot": 1, "strict": True})
    elif k == "menc":
        steps.append({"op": "edit", "slot": 1, "ce": None, "raw": content})
        steps.append({"op": "menc", "slot": 1, "name": _variant(rng, name)})
    else:
        steps.append({"op": "enc", "body": content, "name": _variant(rng, name), "errors": "strict"})
    return {"steps": steps, "scenario": f"{name}:{cls}"}


def gen(rng, n, tier):
    out = []
    if tier == "thorough":
        out.extend(_all_cases_small())
    for _ in range(n):
        out.append(_gen_lenient_scenario(rng) if rng.chance(0.25) else _gen_case(rng))
    return out


# ---------- implementation runner ----------
def setup_impl():
    global E, http, tutils, LENIENT
    from mitmproxy.net import encoding as E  # noqa
    from mitmproxy import http  # noqa
    from mitmproxy.test import tutils  # noqa
    r = tutils.tresp()
    r.headers["content-encoding"] = "utf8"
    snap = E._cache
    try:
        r.set_content(b"x")
        LENIENT = True
    except TypeError:
        LENIENT = False
    E._cache = snap


def _res(f):
    try:
        r = f()
    except ValueError:
        return {"k": "value"}
    except TypeError:
        return {"k": "type"}
    except BaseException as e:
        return {"k": "other:" + type(e).__name__}
    if r is None:
        return {"k": "none"}
    if isinstance(r, str):
        return {"k": "str"}
    return {"k": "bytes", "b": hx(bytes(r))}


def _out(f):
    try:
        f()
        return "done"
    except ValueError:
        return "value"
    except TypeError:
        return "type"
    except BaseException as e:
        return "other:" + type(e).__name__


def _bs(s):
    return None if s is None else hx(s.encode("utf-8", "surrogateescape"))


def _mstate(m):
    return {"ce": _bs(m.headers.get("content-encoding")), "te": "transfer-encoding" in m.headers,
            "cl": _bs(m.headers.get("content-length")), "raw": None if m.raw_content is None else hx(m.raw_content)}


def _fresh_cache():
    return E.CachedDecode(None, None, None, None)


def _with_cache(cache, f):
    """run f under the given cache value, then put the live cache back."""
    snap = E._cache
    E._cache = cache
    try:
        return f()
    finally:
        E._cache = snap


def run_impl(case):
    E._cache = _fresh_cache()
    msgs = [tutils.tresp(), tutils.treq()]
    results = []   # resolved bytes result per step (or None)
    obs = []
    table = {}

    def need(keys):
        for (pid, nm, er, x) in keys:
            k = (pid, nm, er, x)
            if k not in table:
                table[k] = prim(pid, x, nm, er)

    def resolve(b):
        if b is None:
            return None
        if "lit" in b:
            return unhx(b["lit"])
        r = results[b["res"]] if b["res"] < len(results) else None
        return r if r is not None else unhx(b["alt"])

    for st in case["steps"]:
        op = st["op"]
        o = {}
        result = None
        if op in ("dec", "enc"):
            x = resolve(st["body"])
            fn = E.decode if op == "dec" else E.encode
            o["in"] = None if x is None else hx(x)
            o["fresh"] = _with_cache(_fresh_cache(), lambda: _res(lambda: fn(x, st["name"], st["errors"])))
            snap = E._cache
            o["r"] = _res(lambda: fn(x, st["name"], st["errors"]))
            o["hit"] = bool(E._cache is snap and o["r"]["k"] == "bytes" and st["name"].lower() in CACHED)
            if x is not None:
                need((_dec_keys if op == "dec" else _enc_keys)(x, st["name"], st["errors"]))
            if o["r"]["k"] == "bytes":
                result = unhx(o["r"]["b"])
        else:
            m = msgs[st["slot"]]
            o["before"] = _mstate(m)
            ce = m.headers.get("content-encoding")
            raw = m.raw_content
            if op == "edit":
                if "ce" in st:
                    if st["ce"] is None:
                        m.headers.pop("content-encoding", None)
                    else:
                        m.headers["content-encoding"] = st["ce"]
                if "te" in st:
                    if st["te"]:
                        m.headers["transfer-encoding"] = "chunked"
                    else:
                        m.headers.pop("transfer-encoding", None)
                if "raw" in st:
                    m.raw_content = resolve(st["raw"])
                result = m.raw_content
            elif op == "set":
                v = resolve(st["body"])
                o["v"] = None if v is None else hx(v)
                c = m.copy()
                o["fresh"] = _with_cache(_fresh_cache(), lambda: {"out": _out(lambda: c.set_content(v)), "after": _mstate(c)})
                snap = E._cache
                o["out"] = _out(lambda: m.set_content(v))
                o["hit"] = bool(E._cache is snap and v is not None and o["out"] == "done" and (ce or "").lower() in CACHED)
                if v is not None:
                    need(_enc_keys(v, ce or "identity", "strict"))
                result = m.raw_content
            elif op == "get":
                c = m.copy()
                o["fresh"] = _with_cache(_fresh_cache(), lambda: _res(lambda: c.get_content(st["strict"])))
                snap = E._cache
                o["g"] = _res(lambda: m.get_content(st["strict"]))
                o["hit"] = bool(E._cache is snap and raw is not None and o["g"]["k"] == "bytes" and (ce or "").lower() in CACHED
                                and (st["strict"] or o["g"]["b"] != hx(raw)))
                if raw is not None and ce:
                    need(_dec_keys(raw, ce, "strict"))
                if o["g"]["k"] == "bytes":
                    result = unhx(o["g"]["b"])
            elif op == "mdec":
                c = m.copy()
                o["content_before"] = _with_cache(E._cache, lambda: _res(lambda: c.get_content(True)))
                c = m.copy()
                o["fresh"] = _with_cache(_fresh_cache(), lambda: {"out": _out(lambda: c.decode(st["strict"])), "after": _mstate(c)})
                o["out"] = _out(lambda: m.decode(st["strict"]))
                if raw and ce:
                    need(_dec_keys(raw, ce, "strict"))
                result = m.raw_content
            elif op == "menc":
                c = m.copy()
                o["fresh"] = _with_cache(_fresh_cache(), lambda: {"out": _out(lambda: c.encode(st["name"])), "after": _mstate(c)})
                o["out"] = _out(lambda: m.encode(st["name"]))
                if raw is not None:
                    need(_enc_keys(raw, st["name"] or "identity", "strict"))
                result = m.raw_content
            o["after"] = _mstate(m)
            if op in ("set", "mdec", "menc"):
                c = m.copy()
                o["readback"] = _with_cache(E._cache, lambda: _res(lambda: c.get_content(True)))
        results.append(result)
        obs.append(o)
    tbl = [[k[0], k[1], k[2], hx(k[3]), v] for k, v in table.items()]
    return {"lenient": LENIENT, "steps": obs, "table": tbl}


# ---------- Coq printer ----------
def _cs(s):
    return cbytes(s.encode("ascii"))


def _cob(h):
    return copt(h, lambda v: cbytes(unhx(v)), "bytes")


def _cmsg(m):
    return f"(Build_msg {_cob(m['ce'])} {cbool(m['te'])} {_cob(m['cl'])} {_cob(m['raw'])})"


_RES = {"none": "RNone", "str": "RStr", "value": "RValueError", "type": "RTypeError"}
_GRES = {"none": "GNone", "value": "GValueError", "type": "GTypeError"}
_OUT = {"done": "Done", "value": "RaisedValueError", "type": "RaisedTypeError"}


def _cres(r, tab, ctor):
    if r["k"] == "bytes":
        return f"({ctor} {cbytes(unhx(r['b']))})"
    return tab.get(r["k"])


def _cpres(v):
    return {"b": lambda: f"(PBytes {cbytes(unhx(v[1]))})", "s": lambda: "PStr", "e": lambda: "PExc", "t": lambda: "PTypeErr"}[v[0]]()


def coq_case(case, obs):
    steps = []
    for st, o in zip(case["steps"], obs["steps"]):
        op = st["op"]
        if op in ("dec", "enc"):
            r = _cres(o["r"], _RES, "RBytes")
            if r is None:
                return None
            steps.append(f"{'SDecode' if op == 'dec' else 'SEncode'} {_cob(o['in'])} {_cs(st['name'])} {_cs(st['errors'])} {r}")
        elif op == "edit":
            continue
        else:
            if op == "get":
                g = _cres(o["g"], _GRES, "GBytes")
                if g is None:
                    return None
                steps.append(f"SGet {_cmsg(o['before'])} {cbool(st['strict'])} {g}")
                continue
            out = _OUT.get(o["out"])
            if out is None:
                return None
            if op == "set":
                steps.append(f"SSet {_cmsg(o['before'])} {_cob(o['v'])} {out} {_cmsg(o['after'])}")
            elif op == "mdec":
                steps.append(f"SMDecode {_cmsg(o['before'])} {cbool(st['strict'])} {out} {_cmsg(o['after'])}")
            else:
                steps.append(f"SMEncode {_cmsg(o['before'])} {_cs(st['name'])} {out} {_cmsg(o['after'])}")
    tbl = clist((f"({cN(t[0])}, {_cs(t[1])}, {_cs(t[2])}, {cbytes(unhx(t[3]))}, {_cpres(t[4])})" for t in obs["table"]),
                "(N * bytes * bytes * bytes * pres)")
    return f"Case {cbool(obs['lenient'])} {tbl} {clist(steps, 'stepc')}"


# ---------- oracle: the property on the implementation's observations (never calls the model) ----------
def _is_str_codec(name, x):
    """codecs.encode of bytes with this name raises TypeError (a str codec such as utf8)."""
    try:
        codecs.encode(x, name.lower(), "strict")
    except TypeError:
        return True
    except Exception:
        return False
    return False


def _is_str_codec_dec(name, x):
    try:
        codecs.decode(x, name.lower(), "strict")
    except TypeError:
        return True
    except Exception:
        return False
    return False


def _replay_key(name, stream, content):
    """Which family a replayed stream that a strict recipient rejects belongs to. Two families are recorded findings:
    gzip bodies that zlib header auto-detection decodes to the content although they are truncated / followed by more data
    / in zlib format, and deflate bodies that are a COMPLETE zlib or raw deflate stream followed by extra bytes.
    Everything else (e.g. an unterminated deflate stream) gets its own key."""
    n = name.lower()
    try:
        if n == "gzip":
            d = zlib.decompressobj(47)
            if d.decompress(stream) + d.flush() == content:
                return "cache-replays-lenient-gzip-stream"
        if n in ("deflate", "deflateraw"):
            for wb in (15, -15):
                try:
                    d = zlib.decompressobj(wb)
                    out = d.decompress(stream) + d.flush()
                except zlib.error:
                    continue
                if d.eof and d.unused_data and out == content:
                    return "cache-replays-deflate-trailing-data"
                if not d.eof and out == content:
                    return "cache-replays-unterminated-deflate-stream"
    except zlib.error:
        pass
    return "cache-replays-undecodable-stream"


def oracle(case, obs):
    v = []
    seen = set()

    def bad(key, what):
        if key not in seen:
            seen.add(key)
            v.append({"key": key, "what": what})

    decoded_events = []   # (lowered name, input stream, decoded bytes) of every decode so far in this history

    def replayed(name, stream, content):
        return (name.lower(), stream, content) in decoded_events

    def check_stream(i, name, stream, content, fresh_stream, what):
        """stream was produced for content under a supported coding: a strict recipient must get content back."""
        if name.lower() not in SUPPORTED:
            return
        if ref_decode(name, stream) == content:
            return
        if stream != fresh_stream and replayed(name, stream, content):
            bad(_replay_key(name, stream, content),
                f"step {i}: {what} under {name!r} produced {stream.hex()} (replayed from an earlier lenient decode); a strict "
                f"decoder does not return {content.hex()}; with an empty cache the result is {None if fresh_stream is None else fresh_stream.hex()}")
        else:
            bad("encoded-not-decodable", f"step {i}: {what} under {name!r} produced {stream.hex()} which does not decode to {content.hex()}")

    def cl_rule(i, before, after):
        if after["te"] != before["te"]:
            bad("transfer-encoding-changed", f"step {i}")
        if after["raw"] is None:
            return
        if before["te"]:
            if after["cl"] != before["cl"]:
                bad("content-length", f"step {i}: Content-Length changed although Transfer-Encoding is present")
        elif after["cl"] != hx(str(len(unhx(after["raw"]))).encode()):
            bad("content-length", f"step {i}: Content-Length {after['cl']} != len(raw_content) {len(unhx(after['raw']))}")

    for i, (st, o) in enumerate(zip(case["steps"], obs["steps"])):
        op = st["op"]
        if op == "dec":
            r, fr, name = o["r"], o["fresh"], st["name"]
            if r != fr:
                bad("decode-depends-on-history", f"step {i}: decode({o['in']}, {name!r}) = {r} but {fr} with an empty cache")
            if r["k"].startswith("other"):
                bad("decode-raises-other", f"step {i}: {r['k']}")
            if o["in"] is not None and name.lower() in SUPPORTED:
                x = unhx(o["in"])
                want = ref_decode(name, x)
                if want is not None and (r["k"] != "bytes" or unhx(r["b"]) != want):
                    if name.lower() == "gzip" and r["k"] == "bytes" and _gzip_first_member_only(x, unhx(r["b"])):
                        bad("gzip-multimember-dropped", f"step {i}: decode of a multi-member gzip stream {o['in']} returns only the first member")
                    else:
                        bad("decode-differs-from-reference", f"step {i}: decode({o['in']}, {name!r}) = {r}, reference decoder gives {want.hex()}")
                if r["k"] == "bytes":
                    decoded_events.append((name.lower(), x, unhx(r["b"])))
        elif op == "enc":
            r, fr, name = o["r"], o["fresh"], st["name"]
            if r["k"].startswith("other"):
                bad("encode-raises-other", f"step {i}: {r['k']}")
            if o["in"] is not None and name.lower() in SUPPORTED:
                x = unhx(o["in"])
                if r["k"] != "bytes" or fr["k"] != "bytes":
                    bad("encode-fails", f"step {i}: encode({o['in']}, {name!r}) = {r} / {fr}")
                else:
                    check_stream(i, name, unhx(fr["b"]), x, unhx(fr["b"]), "encode (empty cache)")
                    check_stream(i, name, unhx(r["b"]), x, unhx(fr["b"]), "encode")
            elif r != fr:
                bad("encode-depends-on-history", f"step {i}: encode({o['in']}, {name!r}) = {r} but {fr} with an empty cache")
        elif op == "edit":
            continue
        elif op == "get":
            g, fr, b = o["g"], o["fresh"], o["before"]
            if g != fr:
                bad("get-content-depends-on-history", f"step {i}: get_content = {g} but {fr} with an empty cache")
            if g["k"] == "type" and b["ce"] is not None and _is_str_codec_dec(unhx(b["ce"]).decode(), unhx(b["raw"])):
                bad("str-codec-typeerror", f"step {i}: get_content(strict={st['strict']}) with Content-Encoding {unhx(b['ce'])!r} raises TypeError")
            elif g["k"] in ("type",) or g["k"].startswith("other") or (not st["strict"] and g["k"] == "value"):
                bad("get-content-raises", f"step {i}: get_content(strict={st['strict']}) -> {g['k']}")
            if g["k"] == "bytes" and b["ce"] and b["raw"] is not None:
                name, x = unhx(b["ce"]).decode(), unhx(b["raw"])
                want = ref_decode(name, x) if name.lower() in SUPPORTED else None
                if want is not None and unhx(g["b"]) != want:
                    if name.lower() == "gzip" and _gzip_first_member_only(x, unhx(g["b"])):
                        bad("gzip-multimember-dropped", f"step {i}: content of a multi-member gzip body {b['raw']} is only the first member")
                    else:
                        bad("decode-differs-from-reference", f"step {i}: content {g['b']} of raw {b['raw']} under {name!r}, reference {want.hex()}")
                if name.lower() in SUPPORTED and not (not st["strict"] and ref_decode(name, x) is None and unhx(g["b"]) == x):
                    decoded_events.append((name.lower(), x, unhx(g["b"])))
        else:
            b, a, out, fr = o["before"], o["after"], o["out"], o["fresh"]
            ce_b = None if b["ce"] is None else unhx(b["ce"]).decode()
            ce_a = None if a["ce"] is None else unhx(a["ce"]).decode()
            if out != fr["out"]:
                bad("message-op-depends-on-history", f"step {i}: {op} -> {out} but {fr['out']} with an empty cache")
            elif dict(a, raw=None) != dict(fr["after"], raw=None) and not (a["cl"] != fr["after"]["cl"] and a["raw"] != fr["after"]["raw"]):
                bad("message-op-depends-on-history", f"step {i}: {op} leaves {a} but {fr['after']} with an empty cache")
            if out.startswith("other"):
                bad("message-op-raises-other", f"step {i}: {op} -> {out}")
            if op == "set":
                if o["v"] is None:
                    if out != "done" or a != dict(b, raw=None):
                        bad("set-none", f"step {i}: content = None -> {out}, {a}")
                    continue
                val = unhx(o["v"])
                if out == "type" and ce_b and _is_str_codec(ce_b, val):
                    bad("str-codec-typeerror", f"step {i}: content = {o['v']} with Content-Encoding {ce_b!r} raises TypeError (header not removed)")
                    continue
                if out != "done":
                    bad("set-content-raises", f"step {i}: content = {o['v']} with Content-Encoding {ce_b!r} -> {out}")
                    continue
                kept_unsupported = ce_a == ce_b and (ce_b or "identity").lower() not in SUPPORTED
                if o["readback"] != {"k": "bytes", "b": o["v"]} and not (kept_unsupported and o["readback"] == {"k": "value"}):
                    # (a Python codec the property does not list may accept the body and then fail to read it back,
                    #  e.g. idna on b""; returning DIFFERENT bytes is still a violation)
                    bad("set-get-roundtrip", f"step {i}: content = {o['v']} under {ce_b!r} reads back as {o['readback']}")
                if ce_a != ce_b:
                    if ce_a is not None or a["raw"] != o["v"] or (ce_b or "identity").lower() in SUPPORTED:
                        bad("content-encoding-header", f"step {i}: Content-Encoding {ce_b!r} became {ce_a!r}, raw {a['raw']}")
                elif ce_a is None or ce_a == "":
                    if a["raw"] != o["v"]:
                        bad("identity-raw", f"step {i}: no coding but raw {a['raw']} != content {o['v']}")
                else:
                    check_stream(i, ce_a, unhx(a["raw"]), val, unhx(fr["after"]["raw"]) if fr["after"]["raw"] is not None else None, "content assignment")
                cl_rule(i, b, a)
            elif op == "mdec":
                cb = o["content_before"]
                if not b["raw"]:
                    if out != "done" or a != b:
                        bad("decode-empty-not-noop", f"step {i}: decode() on empty/missing body -> {out}, {a}")
                    continue
                if out == "type" and ce_b and _is_str_codec_dec(ce_b, unhx(b["raw"])):
                    bad("str-codec-typeerror", f"step {i}: decode(strict={st['strict']}) with Content-Encoding {ce_b!r} raises TypeError")
                    continue
                if cb["k"] == "bytes":
                    if out != "done" or o["readback"] != cb or a["ce"] is not None or a["raw"] != cb["b"]:
                        bad("decode-changes-content", f"step {i}: decode() of content {cb} -> {out}, reads back {o['readback']}, after {a}")
                    if ce_b and ce_b.lower() in SUPPORTED:
                        decoded_events.append((ce_b.lower(), unhx(b["raw"]), unhx(cb["b"])))
                elif st["strict"]:
                    if out != "value" or a != b:
                        bad("decode-invalid-strict", f"step {i}: strict decode() of undecodable body -> {out}, {a}")
                else:
                    if out != "done" or a["ce"] is not None or a["raw"] != b["raw"]:
                        bad("decode-invalid-lenient", f"step {i}: non-strict decode() of undecodable body -> {out}, {a}")
                if out == "done":
                    cl_rule(i, b, a)
            elif op == "menc":
                name = st["name"]
                if b["raw"] is None:
                    if out != "done" or a["raw"] is not None:
                        bad("encode-missing-body", f"step {i}: encode({name!r}) with no body -> {out}")
                    continue
                rawb = unhx(b["raw"])
                if out == "type" and _is_str_codec(name, rawb):
                    bad("str-codec-typeerror", f"step {i}: encode({name!r}) raises TypeError and leaves Content-Encoding {ce_a!r}")
                    continue
                if (name or "identity").lower() in SUPPORTED:
                    if out != "done" or ce_a != name or o["readback"] != {"k": "bytes", "b": b["raw"]}:
                        bad("encode-changes-content", f"step {i}: encode({name!r}) of {b['raw']} -> {out}, coding {ce_a!r}, reads back {o['readback']}")
                    elif name:
                        check_stream(i, name, unhx(a["raw"]), rawb, unhx(fr["after"]["raw"]) if fr["after"]["raw"] is not None else None, "Message.encode")
                    elif a["raw"] != b["raw"]:
                        bad("identity-raw", f"step {i}: encode('') changed the body")
                elif out == "done":
                    if ce_a != name or o["readback"] not in ({"k": "bytes", "b": b["raw"]}, {"k": "value"}):
                        bad("encode-changes-content", f"step {i}: encode({name!r}) of {b['raw']} -> coding {ce_a!r}, reads back {o['readback']}")
                elif out == "value":
                    if ce_a is not None or a["raw"] != b["raw"]:
                        bad("encode-invalid", f"step {i}: encode({name!r}) raised but left {a}")
                else:
                    bad("encode-invalid", f"step {i}: encode({name!r}) -> {out}")
                if out in ("done", "value"):
                    cl_rule(i, b, a)
    return v


def _cache_calls(case):
    return sum(1 for s in case["steps"] if s["op"] != "edit")


def nontrivial(case, obs):
    names = [s.get("name", "") for s in case["steps"]]
    ces = [unhx(o["before"]["ce"]).decode() for o in obs["steps"] if o.get("before") and o["before"]["ce"]]
    return _cache_calls(case) >= 2 and any(n.lower() in CACHED for n in names + ces)


def classify(case, obs):
    tags = set()
    for st, o in zip(case["steps"], obs["steps"]):
        op = st["op"]
        tags.add("op:" + op)
        if op in ("dec", "enc"):
            n = st["name"].lower()
            tags.add("name:" + (n if n in SUPPORTED else "py/unknown"))
            tags.add(f"{op}:{o['r']['k'][:5]}")
            if o["hit"]:
                tags.add(op + "-cache-hit")
            if o["r"] != o["fresh"]:
                tags.add("cache-changed-result")
            if st["errors"] != "strict":
                tags.add("errors!=strict")
        elif op == "get":
            tags.add("get:" + o["g"]["k"][:5])
            if o["hit"]:
                tags.add("get-cache-hit")
        elif op != "edit":
            tags.add(f"{op}:{o['out'][:5]}")
            if o.get("hit"):
                tags.add("set-cache-hit")
            if o["after"]["raw"] != o["fresh"]["after"]["raw"]:
                tags.add("cache-changed-result")
            if o["before"]["te"]:
                tags.add("te-present")
            if o["before"]["ce"] != o["after"]["ce"] and o["after"]["ce"] is None:
                tags.add("header-removed")
    if "scenario" in case:
        tags.add("scenario:" + case["scenario"].split(":")[1])
        tags.add("scenario-coding:" + case["scenario"].split(":")[0])
    n = _cache_calls(case)
    tags.add("calls:" + ("1" if n <= 1 else "2-4" if n <= 4 else "5-10"))
    tags.add("table:" + ("0" if not obs["table"] else "1-5" if len(obs["table"]) <= 5 else "6+"))
    return sorted(tags)
