"""C23 -- mitmproxy never proxies a connection back to its own listening sockets
(mitmproxy/addons/proxyserver.py, Proxyserver.server_connect / self_connect)."""
import re

from lib.coqterm import cN, clist, copt, cstr_utf8

ID = "C23"
QUICK_N = 1000
THOROUGH_N = 5000
SHARD = 400
RULE = ("Registry histories (29 fixed + 60 random quick / 600 thorough): 2-5 updates of the mode/server options on ONE real "
        "Proxyserver with really bound sockets (10 specs on 127.0.0.1-7 port 0, three of them on ports the harness occupies so "
        "their start fails), mode lists that keep / add / remove / reorder instances; after every update the registry, the update "
        "result and server_connect probes for every really-listening instance are compared with Model/ServersUpdate.v and judged. "
        "Exhaustive table (both tiers): 16 listener configurations (incl. instances whose sockets have different ports/hosts; all interfaces v4 / dual stack, 127.0.0.1, ::1, "
        "127.0.0.53, explicit LAN address, scoped link-local, dns and reverse:https servers that listen on both "
        "transports, udp-only servers, several servers, none) x 50 destination spellings (localhost in 6 case/dot "
        "forms, near misses, 127.0.0.0/8 members and neighbours, ::1 in 3 notations, IPv4-mapped, wildcards, the listen "
        "hosts themselves, unrelated hosts) x {every listening port of the configuration, one other port} x {tcp, udp}. Random stream: random "
        "configuration from the same vocabulary with random ports; host 25% random 127.x.y.z, 15% random-case "
        "localhost with/without dot, 10% mapped loopback, 15% a listen host of the configuration, 15% literal "
        "spellings, 20% other addresses/names. Non-trivial = some listener matches port or the call was flagged; "
        "distinct by canonical JSON.")
TRUSTED = ["Coq 8.16.1 kernel (coqc), vm_compute for case evaluation",
           "harness/translators/self_connect.py (ast -> Gallina for the self_connect expression and loop skeleton; tied by correspondence)",
           "Model/SelfSpec.v: which host spellings denote the local host (the specification, hand-written)",
           "harness/props/C23.py: generator, fake asyncio servers under REAL ServerInstance.listen_addrs, Python copy of the specification used by the oracle"]
ASSUMPTIONS = ["data.server.address is set (the hook asserts it) and is (str host, int port, ...)",
               "listen addresses are numeric hosts as reported by getsockname()",
               "describes the code after fixes/C23-transport-both.diff"]
TRANSLATORS = ["self_connect"]
ALLOWED_AXIOMS = []
CASE_TYPE = "case"
COQ_PRELUDE = "From MV Require Import Model.SelfConnectBase Gen.SelfConnect.\nOpen Scope string_scope.\n"

# ------------------------------------------------------------------ vocabulary

CONFIGS = [
    [("regular@8080", [["0.0.0.0", 8080]])],
    [("regular@8080", [["::", 8080, 0, 0], ["0.0.0.0", 8080]])],
    [("regular@127.0.0.1:8080", [["127.0.0.1", 8080]])],
    [("regular@[::1]:8080", [["::1", 8080, 0, 0]])],
    [("socks5@127.0.0.53:8080", [["127.0.0.53", 8080]])],
    [("regular@192.168.1.5:8080", [["192.168.1.5", 8080]])],
    [("regular@[fe80::1%eth0]:8080", [["fe80::1%eth0", 8080, 0, 2]])],
    [("dns@8080", [["0.0.0.0", 8080], ["::", 8080, 0, 0]])],
    [("reverse:https://example.com@8080", [["127.0.0.1", 8080], ["127.0.0.1", 8080]])],
    [("reverse:udp://example.com:53@8080", [["0.0.0.0", 8080]])],
    [("wireguard@8080", [["0.0.0.0", 8080]])],
    [("regular@9090", [["0.0.0.0", 9090]]), ("socks5@127.0.0.1:8080", [["127.0.0.1", 8080]]), ("dns@5353", [["::", 5353, 0, 0]])],
    # one instance whose sockets are bound to DIFFERENT ports (listen_port=0 fallback: IPv4 / IPv6 / UDP sockets
    # get distinct ephemeral ports) and different hosts
    [("regular@0", [["0.0.0.0", 8080], ["::", 8082, 0, 0]])],
    [("dns@0", [["0.0.0.0", 8080], ["::", 8082, 0, 0], ["0.0.0.0", 8084], ["::", 8086, 0, 0]])],
    [("reverse:https://example.com@0", [["127.0.0.1", 8080], ["::1", 8082, 0, 0]]), ("socks5@0", [["192.168.1.5", 8084], ["127.0.0.53", 8086]])],
    [],
]
MODES = ["regular", "socks5", "transparent", "upstream:http://example.com:3128", "reverse:http://example.com",
         "reverse:https://example.com", "reverse:dns://example.com", "reverse:udp://example.com:53",
         "reverse:quic://example.com", "reverse:tcp://example.com:25", "dns", "wireguard"]
LISTEN_HOSTS = ["0.0.0.0", "::", "127.0.0.1", "::1", "127.0.0.53", "192.168.1.5", "10.0.0.7", "fe80::1%eth0", "2001:db8::5"]
HOSTS = ["localhost", "LOCALHOST", "Localhost", "localHost", "localhost.", "LocalHost.", "localhost..", ".localhost",
         "localhost.localdomain", "xlocalhost", "localhos", "localhost ", "localhost。", "ip6-localhost",
         "127.0.0.1", "127.0.0.2", "127.0.0.0", "127.255.255.255", "127.1.2.3", "127.0.1.1", "127.0.0.53", "127.0.0.01", "127.1",
         "126.255.255.255", "128.0.0.0", "8.8.8.8", "192.168.1.5", "10.0.0.7", "2130706433",
         "::1", "0:0:0:0:0:0:0:1", "0000:0000:0000:0000:0000:0000:0000:0001", "::0001", "::2", "[::1]",
         "::ffff:127.0.0.1", "::ffff:127.0.0.2", "::ffff:127.255.255.255", "::FFFF:127.0.0.1", "::ffff:7f00:1", "::ffff:8.8.8.8",
         "0.0.0.0", "::", "0:0:0:0:0:0:0:0", "0",
         "fe80::1%eth0", "fe80::1", "2001:db8::5", "example.com", ""]
PORTS = [8080, 8081, 53, 443, 1, 65535, 5353, 9090]

# histories of runtime mode updates on a REAL Proxyserver: pool of mode specs (index = spec number in the model).
# Every spec has its own listen host in 127.0.0.0/8 with port 0 (ephemeral); the BUSY specs point at ports the harness
# itself occupies, so their start fails with EADDRINUSE.
UPD_POOL = [("regular", "127.0.0.1", None), ("socks5", "127.0.0.2", None), ("reverse:http://example.com", "127.0.0.3", None),
            ("reverse:tcp://example.com:25", "127.0.0.4", None), ("upstream:http://example.com:3128", "127.0.0.5", None),
            ("reverse:udp://example.com:53", "127.0.0.6", None), ("dns", "127.0.0.7", None),
            ("regular", "127.0.0.1", 0), ("socks5", "127.0.0.1", 1), ("reverse:http://example.com", "127.0.0.1", 2)]
UPD_GOOD = [0, 1, 2, 3, 4, 5, 6]
UPD_BUSY = [7, 8, 9]


def _upd(steps):
    return {"k": "updates", "steps": [{"server": on, "modes": list(m)} for on, m in steps]}


def _upd_table():
    out = []
    for i, k in enumerate(UPD_GOOD):
        f = UPD_BUSY[i % 3]
        k2 = UPD_GOOD[(i + 1) % len(UPD_GOOD)]
        out.append(_upd([(True, [k]), (True, [k, f])]))                      # keep one, add one that cannot bind
        out.append(_upd([(True, [k]), (True, [f, k])]))
        out.append(_upd([(True, [k, k2]), (True, [k, f, k2]), (True, [k2])]))
        out.append(_upd([(True, [k, k2]), (True, [k2, UPD_GOOD[(i + 2) % 7], f]), (False, [k2]), (True, [k2, k])]))
    out.append(_upd([(True, [7]), (True, [7, 0]), (True, [0])]))
    return out


def _rand_upd(rng):
    steps = []
    for _ in range(rng.randint(2, 5)):
        pool = rng.sample(UPD_GOOD, rng.randint(0, 4)) + (rng.sample(UPD_BUSY, rng.randint(1, 2)) if rng.chance(0.5) else [])
        if steps and rng.chance(0.7):                        # mostly keep something from the previous mode list
            pool += [x for x in rng.sample(steps[-1][1], min(len(steps[-1][1]), rng.randint(1, 2))) if x not in pool]
        rng.shuffle(pool)
        steps.append((rng.chance(0.9), pool))
    return _upd(steps)


# ------------------------------------------------------------------ specification (Python copy of Model/SelfSpec.v)

_OCT = r"(0|[1-9][0-9]{0,2})"
_DOTTED = re.compile(rf"^{_OCT}\.{_OCT}\.{_OCT}\.{_OCT}$", re.A)
V6_LOOP = ["::1", "0:0:0:0:0:0:0:1", "0000:0000:0000:0000:0000:0000:0000:0001"]
WILD = ["0.0.0.0", "::"]
LITERALS = ["localhost", "127.0.0.1", "::1"]


def ascii_lower(s):
    return "".join(chr(ord(c) + 32) if "A" <= c <= "Z" else c for c in s)


def is_localhost_name(s):
    t = s[:-1] if s.endswith(".") else s
    return ascii_lower(t) == "localhost"


def dotted_loopback(s):
    m = _DOTTED.match(s)
    return bool(m) and all(int(g) <= 255 for g in m.groups()) and int(m.group(1)) == 127


def family(host):
    """spelling family of a local destination (None: not a local destination per the specification)"""
    if is_localhost_name(host):
        return "localhost-trailing-dot" if host.endswith(".") else "localhost-case"
    if dotted_loopback(host):
        return "loopback-v4-other"
    if host in V6_LOOP:
        return "v6-loopback-spelling"
    if host.startswith("::ffff:") and dotted_loopback(host[7:]):
        return "mapped-loopback"
    if host in WILD:
        return "wildcard-dest"
    return None


def local_listen(lh):
    return dotted_loopback(lh) or lh in ("::1", "0.0.0.0", "::")


def denoting_listeners(obs, host, port, tr):
    """[(server transport, listen host)] of the listeners the destination denotes, from the OBSERVED listen addresses"""
    out = []
    for mt, addrs in zip(obs["transports"], obs["addrs"]):
        for a in addrs:
            lh, lp = a[0], a[1]
            if port == lp and (mt == tr or mt == "both") and (host == lh or (local_listen(lh) and family(host) is not None)):
                out.append((mt, lh))
    return out


# ------------------------------------------------------------------ generator

def _case(cfg, host, port, tr):
    return {"servers": [{"mode": m, "addrs": a} for m, a in cfg], "host": host, "port": port, "tr": tr}


def _rand_host(rng, cfg):
    r = rng.random()
    if r < 0.25:
        return "127.%d.%d.%d" % (rng.below(256), rng.below(256), rng.below(256))
    if r < 0.40:
        return "".join(c.upper() if rng.chance(0.4) else c for c in "localhost") + ("." if rng.chance(0.4) else "")
    if r < 0.50:
        return "::ffff:127.%d.%d.%d" % (rng.below(256), rng.below(256), rng.below(256))
    if r < 0.65 and cfg:
        m, addrs = rng.choice(cfg)
        return rng.choice(addrs)[0]
    if r < 0.80:
        return rng.choice(LITERALS + WILD + V6_LOOP)
    return rng.choice(HOSTS)


def gen(rng, n, tier):
    out = _upd_table()
    for _ in range(60 if tier == "quick" else 600):
        out.append(_rand_upd(rng))
    for cfg in CONFIGS:
        lps = sorted({a[1] for _, addrs in cfg for a in addrs}) or [8080]      # EVERY listening port, and one other
        for host in HOSTS + [a[0] for _, addrs in cfg for a in addrs]:
            for port in lps + [lps[-1] + 1]:
                for tr in ("tcp", "udp"):
                    out.append(_case(cfg, host, port, tr))
    for _ in range(n):
        cfg = []
        for i in range(rng.weighted([(1, 0), (5, 1), (3, 2), (2, 3)])):
            p = rng.choice(PORTS)
            addrs = []
            for _ in range(rng.weighted([(4, 1), (4, 2), (2, 3), (1, 4)])):
                h = rng.choice(LISTEN_HOSTS)
                q = rng.choice(PORTS) if rng.chance(0.4) else p          # sockets of one instance may differ in port
                addrs.append([h, q, 0, rng.below(3)] if ":" in h else [h, q])
            cfg.append((f"{rng.choice(MODES)}@{10000 + 7 * len(out) % 50000 + i}", addrs))
        port = rng.choice(rng.choice(cfg)[1])[1] if cfg and rng.chance(0.8) else rng.choice(PORTS)   # any socket, not the first
        out.append(_case(cfg, _rand_host(rng, cfg), port, "tcp" if rng.chance(0.6) else "udp"))
    return out


# ------------------------------------------------------------------ implementation

_S = {}


def setup_impl():
    import logging
    from types import SimpleNamespace
    from mitmproxy import connection
    from mitmproxy.addons import proxyserver
    from mitmproxy.proxy import mode_servers, mode_specs, server_hooks
    logging.disable(logging.CRITICAL)
    _S.update(ns=SimpleNamespace, connection=connection, proxyserver=proxyserver, mode_servers=mode_servers,
              mode_specs=mode_specs, server_hooks=server_hooks)


def _run_updates(case):
    """The REAL Proxyserver/Servers/ServerInstance stack: sockets are really bound (127.0.0.0/8, ephemeral ports)."""
    import asyncio
    import socket
    from mitmproxy.test import taddons

    async def go():
        ps = _S["proxyserver"].Proxyserver()
        busy = []
        for _ in range(3):
            b = socket.socket(socket.AF_INET, socket.SOCK_STREAM)
            b.bind(("127.0.0.1", 0))
            b.listen()
            busy.append(b)
        spec_str = lambda i: f"{UPD_POOL[i][0]}@{UPD_POOL[i][1]}:{0 if UPD_POOL[i][2] is None else busy[UPD_POOL[i][2]].getsockname()[1]}"
        seen = []                                            # every instance ever registered, in creation order
        out = []
        try:
            with taddons.context(ps) as tctx:
                for st in case["steps"]:
                    names = {spec_str(i): i for i in st["modes"]}
                    tctx.configure(ps, mode=list(names), server=st["server"])
                    ok = await ps.setup_servers()
                    reg, created, failed = [], [], []
                    for mode, inst in ps.servers._instances.items():
                        if not any(inst is x for x in seen):
                            seen.append(inst)
                            created.append(inst)
                        idx = names[mode.full_spec]
                        addrs = [[a[0], a[1]] for a in inst.listen_addrs]
                        reg.append({"spec": idx, "id": [x is inst for x in seen].index(True), "running": bool(inst.is_running),
                                    "tr": mode.transport_protocol, "addrs": addrs})
                        if inst in created and not inst.is_running:
                            failed.append(idx)
                    # reality, independent of the registry: which instances are listening right now
                    listening, probes = [], []
                    for n_, inst in enumerate(seen):
                        if not inst.is_running:
                            continue
                        registered = any(inst is x for x in ps.servers._instances.values())
                        addrs = [[a[0], a[1]] for a in inst.listen_addrs]
                        accepts = None
                        if inst.mode.transport_protocol in ("tcp", "both"):
                            try:
                                r, w = await asyncio.wait_for(asyncio.open_connection(addrs[0][0], addrs[0][1]), 2)
                                w.close()
                                accepts = True
                            except Exception:
                                accepts = False
                        listening.append({"id": n_, "registered": registered, "addrs": addrs, "accepts": accepts,
                                          "tr": inst.mode.transport_protocol})
                        for lh, lp in {(a[0], a[1]) for a in addrs}:
                            for tr in (["tcp", "udp"] if inst.mode.transport_protocol == "both" else [inst.mode.transport_protocol]):
                                for host in ("localhost", "127.0.0.1", lh):
                                    probes.append([host, lp, tr])
                    probes.append(["localhost", 1, "tcp"])
                    seen_p, res = set(), []
                    for host, port, tr in probes:
                        if (host, port, tr) in seen_p:
                            continue
                        seen_p.add((host, port, tr))
                        server = _S["connection"].Server(address=(host, port), transport_protocol=tr)
                        client = _S["connection"].Client(peername=("10.9.9.9", 51000), sockname=("10.0.0.1", 8080))
                        try:
                            ps.server_connect(_S["server_hooks"].ServerConnectionHookData(server, client))
                            res.append([host, port, tr, {"error": server.error}])
                        except Exception as e:
                            res.append([host, port, tr, {"raised": type(e).__name__}])
                    out.append({"ok": bool(ok), "reg": reg, "failed": failed, "listening": listening, "probes": res,
                                "created": [{"spec": r["spec"], "tr": r["tr"], "addrs": r["addrs"]} for r in reg
                                            if any(seen[r["id"]] is c for c in created)]})
        finally:
            for inst in seen:
                if inst.is_running:
                    try:
                        await inst.stop()
                    except Exception:
                        pass
            for b in busy:
                b.close()
            await asyncio.sleep(0)
        return {"updates": out}

    return asyncio.run(go())


def run_impl(case):
    if not _S:
        setup_impl()
    if case.get("k") == "updates":
        return _run_updates(case)
    ns = _S["ns"]
    ps = _S["proxyserver"].Proxyserver()
    insts = {}
    for s in case["servers"]:
        mode = _S["mode_specs"].ProxyMode.parse(s["mode"])
        inst = _S["mode_servers"].ServerInstance.make(mode, ps)
        assert isinstance(inst, _S["mode_servers"].AsyncioServerInstance), s["mode"]
        # fake asyncio.Server objects; listen_addrs is computed by the REAL property from their sockets
        inst._servers = [ns(sockets=[ns(getsockname=(lambda a=tuple(a): a))]) for a in s["addrs"]]
        assert mode not in insts, "duplicate mode spec in a generated configuration"
        insts[mode] = inst
    ps.servers._instances = insts
    server = _S["connection"].Server(address=(case["host"], case["port"]), transport_protocol=case["tr"])
    client = _S["connection"].Client(peername=("10.9.9.9", 51000), sockname=("10.0.0.1", 8080))
    obs = {"transports": [i.mode.transport_protocol for i in ps.servers],
           "addrs": [[list(a) for a in i.listen_addrs] for i in ps.servers]}
    try:
        ps.server_connect(_S["server_hooks"].ServerConnectionHookData(server, client))
        obs["error"] = server.error
    except Exception as e:
        obs["raised"] = type(e).__name__
    return obs


def _cstr(s):
    assert all(32 <= ord(c) < 127 for c in s)
    return '"' + s.replace('"', '""') + '"'


def _csv(tr, addrs):
    la = clist((f"({cstr_utf8(a[0])}, {cN(a[1])})" for a in addrs), "(bytes * N)")
    return f"(Build_server {tr.upper()} {la})"


def _cobs(o):
    return "ObsRaised" if "raised" in o else f"(ObsError {copt(o['error'], _cstr, 'string')})"


def coq_case(case, obs):
    if case.get("k") == "updates":
        hs, im = [], []
        for st, u in zip(case["steps"], obs["updates"]):
            table = clist((f"({cN(c['spec'])}, {_csv(c['tr'], c['addrs'])})" for c in u["created"]), "(N * server)")
            hs.append(f"({'true' if st['server'] else 'false'}, {clist(map(cN, st['modes']), 'N')}, {table}, {clist(map(cN, u['failed']), 'N')})")
            reg = clist((f"({cN(r['spec'])}, {cN(r['id'])}, {'true' if r['running'] else 'false'}, {_csv(r['tr'], r['addrs'])})"
                         for r in u["reg"]), "(N * N * bool * server)")
            pr = clist((f"({cstr_utf8(h)}, {cN(p)}, {t.upper()}, {_cobs(o)})" for h, p, t, o in u["probes"]), "(bytes * N * transport * obs)")
            im.append(f"({reg}, {'true' if u['ok'] else 'false'}, {pr})")
        return f"Updates {clist(hs, '(bool * list N * list (N * server) * list N)')} {clist(im)}"
    servers = []
    for mt, addrs in zip(obs["transports"], obs["addrs"]):
        la = clist((f"({cstr_utf8(a[0])}, {cN(a[1])})" for a in addrs), "(bytes * N)")
        servers.append(f"(Build_server {mt.upper()} {la})")
    o = "ObsRaised" if "raised" in obs else f"(ObsError {copt(obs['error'], _cstr, 'string')})"
    return f"Connect {clist(servers, 'server')} {cstr_utf8(case['host'])} {cN(case['port'])} {case['tr'].upper()} {o}"


def _upd_oracle(case, obs):
    """After EVERY update: every instance that is really listening must be known to Proxyserver.servers, and a connection
    to each of its addresses (spelled localhost / 127.0.0.1 / as the listen host) must get the destination-unknown error."""
    v = []
    hist = " ; ".join(("" if st["server"] else "server=off ") + "[" + ", ".join(f"{UPD_POOL[i][0]}@{UPD_POOL[i][1]}:{'0' if UPD_POOL[i][2] is None else 'BUSY'}" for i in st["modes"]) + "]"
                      for st in case["steps"])
    for k, u in enumerate(obs["updates"]):
        for l in u["listening"]:
            if not l["registered"]:
                v.append({"key": "running-listener-not-registered",
                          "what": f"after update {k + 1} of the mode history {hist}: instance #{l['id']} still listens on {l['addrs']} "
                                  f"(accepts TCP connections: {l['accepts']}) but is not in Proxyserver.servers"})
            ports = {(a[0], a[1]) for a in l["addrs"]}
            for host, port, tr, o in u["probes"]:
                if "raised" in o:
                    v.append({"key": "raised", "what": f"server_connect raised {o['raised']} for {host!r}:{port}"})
                elif o["error"] is None and (tr == l["tr"] or l["tr"] == "both") and any(
                        port == lp and (host in LITERALS or host == lh) for lh, lp in ports):
                    v.append({"key": "running-listener-not-guarded",
                              "what": f"after update {k + 1} of the mode history {hist}: mitmproxy listens on {l['addrs']} ({l['tr']}) but a "
                                      f"connection to {host!r}:{port}/{tr} gets no destination-unknown error"})
    return v[:3]


def oracle(case, obs):
    if case.get("k") == "updates":
        return _upd_oracle(case, obs)
    if "raised" in obs:
        return [{"key": "raised", "what": f"server_connect raised {obs['raised']} for destination {case['host']!r}:{case['port']}"}]
    host, port, tr = case["host"], case["port"], case["tr"]
    err = obs["error"]
    if err is not None:
        if not err.startswith("Request destination unknown"):
            return [{"key": "wrong-error", "what": f"{host!r}:{port}: error {err!r}"}]
        return []
    den = denoting_listeners(obs, host, port, tr)
    if not den:
        return []
    mt, lh = den[0]
    where = f"destination {host!r}:{port}/{tr} while listening on {lh!r}:{port} ({mt}) is connected to (no destination-unknown error)"
    recognised = [(m, l) for m, l in den if host in LITERALS or host == l]
    if recognised:
        if all(m == "both" for m, _ in recognised):
            return [{"key": "transport-both", "what": where}]
        return [{"key": "guard-miss", "what": where}]
    return [{"key": family(host) or "explicit-address", "what": where}]


def nontrivial(case, obs):
    if case.get("k") == "updates":
        return any(u["listening"] for u in obs["updates"])
    return obs.get("error") is not None or any(a[1] == case["port"] for addrs in obs["addrs"] for a in addrs)


def classify(case, obs):
    if case.get("k") == "updates":
        tags = ["updates", f"updates-len={len(case['steps'])}"]
        prev = set()
        for st, u in zip(case["steps"], obs["updates"]):
            cur = set(st["modes"]) if st["server"] else set()
            kept, added = prev & cur, cur - prev
            if u["failed"]:
                tags.append("upd-start-failed")
                if kept:
                    tags.append("upd-kept-while-another-start-failed")
            if kept and added:
                tags.append("upd-keep+add")
            if prev - cur:
                tags.append("upd-remove")
            if not st["server"]:
                tags.append("upd-server-off")
            if any(l["tr"] != "tcp" for l in u["listening"]):
                tags.append("upd-udp-or-both-listener")
            prev = cur
        return sorted(set(tags))
    host = case["host"]
    fam = "literal" if host in LITERALS else family(host) or ("listen-host" if any(a[0] == host for ad in obs["addrs"] for a in ad) else "other")
    den = denoting_listeners(obs, host, case["port"], case["tr"]) if "raised" not in obs else []
    ports = {a[1] for ad in obs["addrs"] for a in ad}
    first = {ad[0][1] for ad in obs["addrs"] if ad}
    return [f"host:{fam}", case["tr"], f"servers={len(case['servers'])}",
            "port:first-socket" if case["port"] in first else "port:later-socket" if case["port"] in ports else "port:none",
            "raised" if "raised" in obs else "flagged" if obs["error"] else "passed",
            "denotes-listener" if den else "no-listener-denoted",
            "both-transport-server" if "both" in obs["transports"] else "single-transport-servers"]
