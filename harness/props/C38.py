"""C38 -- Flows from older mitmproxy versions load correctly (mitmproxy/io/compat.py, io/io.py, version.py).

Every case is a flow *file* read with the real FlowReader.stream while compat.migrate_flow and every converter are
wrapped (observation only): the trace of converter calls of one migrate_flow call goes to the Coq model
(Corr/C38.v), the loaded flow goes to the oracle."""
import copy
import glob
import io as _io
import os

from lib.coqterm import cbool, clist, copt

ID = "C38"
QUICK_N = 1800
THOROUGH_N = 14400
SHARD = 300
LOOP_CAP = 40  # = Corr.C38.loop_cap
REPO = os.environ.get("VERIF_REPO", "/repo")
DATA = os.path.join(REPO, "test/mitmproxy/data")
MIN_V = 7  # oldest format version for which the harness has inverse converters

RULE = ("corpus: every flow of every shipped test/mitmproxy/data/dumpfile-*.mitm (kind dump: file x index). Generated: "
        "55% synth = a real current flow (HTTP with/without response, error, websocket, TCP, UDP, DNS; randomised marks, "
        "comments, TLS versions incl. QUICv1, SNI, ALPN, addresses, via, timestamps) converted BACKWARDS by harness-side "
        "inverse converters into the state shape of a random format version 7..20, or left in the current format 21 (options: client_conn.proxy_mode "
        "over 22 mode heads x 13 listen-address forms incl. bare/bracketed IPv6 for formats >= 18, bytes hosts, sni=True, "
        "None offers, dropped transport_protocol, issue-4576 timestamps), written with tnetstring and read back; 15% the "
        "same with one field of the old state deleted/replaced (converter bodies raising); 10% the same with an extra "
        "bytes-keyed version entry (stale entry); 20% ver = version values from a dictionary (current, newer ints, "
        "unknown tuples, bool, float, None, str, bytes, nested lists, missing) under the str key, the bytes key or both, "
        "on a minimal dict or a real current state (5% of the total instead are replay = first record of a shipped "
        "format <= 8 dump with request/response is_replay markers in {absent, False, True} and response kept/removed: the "
        "loaded flow.is_replay must follow request > response > None; synth recipes also vary every field a converter reads "
        "or moves: per-message replay markers, first_line_format, server ALPN, offers/cipher lists, certificates, old-style "
        "nested via connection, absent mode/state keys, None client timestamp, non-ASCII SNI bytes; 8% are wsfile = the raw format-7 records of the shipped "
        "websocket dump in generated orders: overlapping connections A B wsB wsA, websocket before/without handshake, repeats, "
        "handshakes tagged with distinct host/port/path; every loaded flow must carry its own handshake id/host/port/path "
        "and message count, host unknown only where the reference says the handshake is missing). Non-trivial = at least one converter ran or the file was rejected; "
        "distinct by canonical JSON.")
TRUSTED = ["Coq 8.16.1 kernel (coqc), vm_compute for case evaluation and the table check chain_ok",
           "harness/translators/compat_chain.py (fail-closed ast translator: converter keys, the version literal each converter "
           "assigns and under which key, FLOW_FORMAT_VERSION, shape of migrate_flow); its output is executed against the "
           "real migrate_flow on every case",
           "harness/props/C38.py: instrumentation wrappers, mapping of Python version values to verval (to_verval), "
           "inverse converters used by the oracle, comparison glue Corr/C38.v",
           "contract body_ok/frame on converter bodies: read off the source by the translator (no version key touched "
           "outside the single assignment) and checked on every observed call (contract_ok); for convert_11_12 it rests on "
           "the invariant of the module-level handshake store (only states stored by convert_11_12 itself), not modelled"]
ASSUMPTIONS = ["converter bodies are abstract in the model: their success/failure per call is taken from the observation; "
               "that migrated states are valid current flows is checked by the oracle on the implementation only",
               "the handshake store _websocket_handshakes and the connection-id memo are process-global; every case starts "
               "from empty stores"]
TRANSLATORS = ["compat_chain"]
ALLOWED_AXIOMS = []
COQ_PRELUDE = "From Coq Require Import ZArith.\nFrom MV Require Import Model.CompatPrelude.\n"

# client_conn.proxy_mode specs (formats >= 18 and current): every mode family x listen address forms; independent list,
# all accepted by ProxyMode.parse of the unchanged tree. The spec string must survive load, re-save and reload verbatim.
PM_HEADS = ["regular", "transparent", "socks5", "reverse:https://example.com", "reverse:http://10.0.0.1:8000",
            "reverse:tcp://[::1]:53", "reverse:dns://8.8.8.8", "reverse:quic://example.com:443", "reverse:tls://example.com:853",
            "reverse:http3://example.com", "reverse:dtls://example.com:5684", "reverse:udp://127.0.0.1:53",
            "upstream:http://proxy.example:3128", "upstream:https://[2001:db8::1]:8080", "local", "local:curl",
            "local:!curl,wget", "wireguard", "wireguard:/tmp/wg.conf", "dns", "tun", "tun:utun5"]
PM_LISTENS = ["", "", "@8080", "@127.0.0.1:8080", "@0.0.0.0:53", "@::1:8080", "@[::1]:8080", "@:::8080", "@2001:db8::2:8443",
              "@[fe80::1]:3128", "@localhost:8080", "@proxy.example.com:443", "@65535", "@[::]:0"]
TYPES = ["http", "http-noresp", "http-err", "ws", "tcp", "udp", "dns"]
VER_VALUES = [21, 22, 23, 100, 2 ** 70, -1, 0, 1, 3, 4, 10, 20, True, False, None, 21.0, 22.5, "21", "", b"\x00\x0b", b"",
              [0, 10], [0, 10, 1], [0, 11], [0, 11, 3], [0, 17], [0, 18, 2], [0, 19], [1, 0, 0], [2, 0], [3, 0, 0], [3, 1], [4],
              [21], [], [0], [0.0, 11.0], [True, 0], ["0", "11"], [[0], 11], [0, [11]], [0, 11, [1]], [None, None],
              {"a": 1}, [3, 0], 19, 18, 11, 7]


# ------------------------------------------------------------------ observation helpers
def _elt(e):
    if isinstance(e, (bool, int)):
        return {"i": int(e)}
    if isinstance(e, float):
        return {"i": int(e)} if e == e and e not in (float("inf"), float("-inf")) and e == int(e) else "o"
    if isinstance(e, (list, dict, set, bytearray)):
        return "u"
    if isinstance(e, tuple):
        return "u" if any(_elt(x) == "u" for x in e) else "o"
    return "o"


def to_verval(x):
    """What migrate_flow can see of a value stored under a version key (see Model/CompatPrelude.v)."""
    if isinstance(x, (bool, int)):
        return {"i": int(x)}
    if x is None or isinstance(x, float):
        return "n"
    if isinstance(x, str):
        return {"q": ["o"] * min(len(x), 3)}
    if isinstance(x, (bytes, bytearray)):
        return {"q": [{"i": b} for b in x[:3]]}
    if isinstance(x, (list, tuple, dict)):
        return {"q": [_elt(e) for e in list(x)[:3]]}
    return "n"


def _slots(d):
    return [to_verval(d[b"version"]) if b"version" in d else None, to_verval(d["version"]) if "version" in d else None]


class _Loop(BaseException):
    pass


class Instrument:
    """Wraps compat.converters and compat.migrate_flow for observation; restores them on exit."""

    def __enter__(self):
        self.runs = []
        self.cur = None
        self.o_conv, self.o_mig = compat.converters, compat.migrate_flow
        compat._websocket_handshakes.clear()
        compat.client_connections.clear()
        compat.server_connections.clear()
        inst = self

        def wrap(key, fn):
            def w(data):
                run = inst.cur
                if len(run["calls"]) >= LOOP_CAP:
                    raise _Loop()
                ent = [list(key) if isinstance(key, tuple) else key, None]
                run["calls"].append(ent)
                try:
                    ret = fn(data)
                except BaseException as e:
                    run["script"].append("raise")
                    run["exc"] = e
                    raise
                sl = _slots(ret) if isinstance(ret, dict) else [None, None]
                run["script"].append("keep" if ret is data else sl)
                ent[1] = sl
                return ret
            return w

        def mig(flow_data):
            run = {"in": _slots(flow_data), "script": [], "calls": [], "out": None}
            inst.runs.append(run)
            inst.cur = run
            try:
                ret = inst.o_mig(flow_data)
                run["out"] = {"ok": to_verval(ret.get(b"version", ret.get("version")))}
                run["same_object"] = ret is flow_data
                return ret
            except _Loop:
                run["out"] = "loop"
                raise
            except BaseException as e:
                if e is run.get("exc"):
                    run["out"] = "body"
                    run["exc_type"] = type(e).__name__
                elif isinstance(e, ValueError):
                    run["out"] = {"reject": "please update" in str(e)}
                    run["msg_version"] = "version" in str(e)
                elif isinstance(e, TypeError):
                    run["out"] = "unhashable" if "unhashable" in str(e) else "tuple"
                else:
                    run["out"] = {"other": type(e).__name__}
                raise
            finally:
                run.pop("exc", None)

        compat.converters = {k: wrap(k, f) for k, f in self.o_conv.items()}
        compat.migrate_flow = mig
        return self

    def __exit__(self, *a):
        compat.converters, compat.migrate_flow = self.o_conv, self.o_mig
        compat._websocket_handshakes.clear()
        compat.client_connections.clear()
        compat.server_connections.clear()


def _read(data: bytes):
    """Real FlowReader over bytes -> (flows, end) with end in ok | fre | loop | other:<type>; plus message."""
    flows, end, msg = [], "ok", ""
    try:
        for f in mio.FlowReader(_io.BytesIO(data)).stream():
            flows.append(f)
    except exceptions.FlowReadException as e:
        end, msg = "fre", str(e)
    except _Loop:
        end = "loop"
    except Exception as e:
        end, msg = "other:" + type(e).__name__, str(e)[:120]
    return flows, end, msg


def _canon(state):
    return tnetstring.loads(tnetstring.dumps(state))


def _diff(a, b, path=""):
    if isinstance(a, dict) and isinstance(b, dict):
        for k in sorted(set(a) | set(b), key=repr):
            if k not in a or k not in b:
                return f"{path}/{k!r} only on one side"
            d = _diff(a[k], b[k], f"{path}/{k}")
            if d:
                return d
        return ""
    if isinstance(a, list) and isinstance(b, list) and len(a) == len(b):
        for i, (x, y) in enumerate(zip(a, b)):
            d = _diff(x, y, f"{path}[{i}]")
            if d:
                return d
        return ""
    return "" if a == b and type(a) is type(b) else f"{path}: {a!r:.60} != {b!r:.60}"


# ------------------------------------------------------------------ current flows and inverse converters
def build_current(r):
    """A real current flow state (validated by Flow.from_state) from recipe r, inside the image of the converters
    for target version r['v'] (so that forward migration must reproduce it exactly)."""
    t, v = r["t"], r["v"]
    if t == "tcp":
        f = tflow.ttcpflow()
    elif t == "udp":
        f = tflow.tudpflow()
    elif t == "dns":
        f = tflow.tdnsflow(resp=True)
    else:
        f = tflow.tflow(resp=(t in ("http", "ws")), err=(t == "http-err"), ws=(t == "ws"))
    s = f.get_state()
    cc, sc = s["client_conn"], s["server_conn"]
    ts = r.get("ts", 946681200)
    s["id"] = "flow-%d" % r.get("n", 0)
    cc["id"], sc["id"] = "cc-%d" % r.get("n", 0), "sc-%d" % r.get("n", 0)
    cc["certificate_list"], sc["certificate_list"] = [], []
    s["marked"] = r.get("marked", "")
    s["comment"] = r.get("comment", "")
    cc["tls_version"], sc["tls_version"] = r.get("tlsc"), r.get("tlss")
    cc["sni"], sc["sni"] = r.get("snic"), r.get("snis")
    cc["alpn"] = bytes.fromhex(r["alpn"]) if r.get("alpn") is not None else None
    sc["alpn"] = bytes.fromhex(r["salpn"]) if r.get("salpn") is not None else None
    cc["cipher"] = r.get("cipher")
    if r.get("offers"):
        cc["alpn_offers"], cc["cipher_list"] = [b"h2", b"http/1.1"], ["TLS_AES_128_GCM_SHA256", "TLS_CHACHA20_POLY1305_SHA256"]
        sc["alpn_offers"], sc["cipher_list"] = [b"http/1.1"], ["ECDHE-RSA-AES128-GCM-SHA256"]
    if r.get("ccert"):
        cc["certificate_list"] = [_pem()]
    if r.get("scert"):
        sc["certificate_list"] = [_pem()] * (r["scert"] if v >= 10 else 1)
    cc["tls"] = sc["tls"] = bool(r.get("tls"))
    host = r.get("host", "address")
    sc["address"] = (host, 443) if host is not None else None
    sc["peername"] = ("192.168.0.1", 443) if r.get("peer", True) else None
    cc["peername"] = (r.get("chost", "127.0.0.1"), 50000 + r.get("n", 0) % 1000)
    cc["timestamp_start"] = 0.0 if (r.get("cc_ts_none") and v < 19 and (v >= 16 or t not in ("tcp", "udp"))) else float(ts) - 5.0
    if r.get("via") and v >= 19:
        sc["via"] = ("http", ("proxy.example", 8080))
    if v >= 18 and r.get("pmode"):
        cc["proxy_mode"] = r["pmode"]
    if v < 18:
        cc["proxy_mode"] = "regular"
    if v >= 15 and t == "ws" and r.get("injected"):
        s["websocket"]["messages"] = [m[:4] + (False, True) for m in s["websocket"]["messages"]]
    if "request" in s and t != "dns":
        s["request"]["timestamp_start"] = ts
        s["request"]["timestamp_end"] = ts + 1
        s["request"]["content"] = bytes.fromhex(r.get("content", "61"))
        if s.get("response"):
            s["response"]["timestamp_start"] = ts + (1 if r.get("bug4576") else 2)
            s["response"]["timestamp_end"] = ts + (2 if r.get("bug4576") else 3)
    # image constraints of the converters that will run
    s["timestamp_created"] = (s["request"]["timestamp_start"] if ("request" in s and t != "dns") else cc["timestamp_start"]) \
        if v < 16 or not r.get("tsc") else ts + 7
    if v < 14:
        s["comment"] = ""
    if v < 13 and s["marked"] not in ("", ":default:"):
        s["marked"] = ":default:"
    if v < 10:
        cc["alpn_offers"] = [cc["alpn"]] if cc["alpn"] else []
        cc["cipher_list"] = [cc["cipher"]] if cc["cipher"] else []
        sc["cipher"], sc["cipher_list"] = None, []
        sc["alpn_offers"] = [sc["alpn"]] if sc["alpn"] else []
        cc["error"] = sc["error"] = None
        cc["sockname"] = ("", 0)
    if v >= 9 and r.get("replay"):
        s["is_replay"] = r["replay"]
    if v < 9:
        # flow-level is_replay is computed by convert_8_9 from the per-message markers chosen in down()
        rq, rs = r.get("rq_replay"), r.get("rs_replay")
        s["is_replay"] = "request" if ("request" in s and rq is True) else \
            "response" if (s.get("response") and rs is True) else None
        if "request" in s:
            s["request"]["authority"] = b""
    if v < 8:
        for m in ("request", "response"):
            if s.get(m):
                s[m]["trailers"] = None
    try:
        real = flow.Flow.from_state(copy.deepcopy(s))
    except Exception:
        # the tree under check rejects this current state: keep it as the expectation, the reader will reject the file
        # and the oracle reports the input
        return _canon(s)
    return _canon(real.get_state())


_PEM = None


def _pem():
    global _PEM
    if _PEM is None:
        from mitmproxy import certs
        _PEM = certs.Cert.from_pem(open(os.path.join(REPO, "test/mitmproxy/net/data/text_cert"), "rb").read()).get_state()
    return _PEM


def _enc(addr):
    if addr and isinstance(addr[0], str) and addr[0].isascii():
        addr[0] = addr[0].encode()


def down(s, v, r):
    """Inverse converters: current canonical state -> the state shape of format version v (MIN_V <= v <= 21)."""
    cc, sc = s["client_conn"], s["server_conn"]
    conns = (cc, sc)
    cur = s["version"]
    if cur > v and (v < 20 or r.get("nobackup")):
        s.pop("backup", None)
    while cur > v:
        if cur == 21:
            for c in conns:
                if c["tls_version"] == "QUICv1":
                    c["tls_version"] = "QUIC"
        elif cur == 20:
            if not r.get("state_absent"):
                cc["state"], sc["state"] = r.get("cstate", 0), r.get("sstate", 3)
        elif cur == 19:
            cc["address"] = cc.pop("peername")
            cc["tls_extensions"] = [[0, b"\x00"]] if r.get("tlsext") else None
            sc["ip_address"] = sc.pop("peername")
            sc["source_address"] = sc.pop("sockname")
            sc["via2"] = sc.pop("via")
            sc["via"] = None
            if cc["timestamp_start"] == 0.0 and r.get("cc_ts_none"):
                cc["timestamp_start"] = None
            for c in conns:
                c["tls_established"] = c["tls"]
                c["cipher_name"] = c.pop("cipher")
                if r.get("drop_tp") and c["transport_protocol"] == "tcp":
                    del c["transport_protocol"]
            # sni=True (use the address) existed in format versions 11..18 only
            if r.get("sni_true") and v >= 11 and sc["address"] and sc["sni"] == sc["address"][0]:
                sc["sni"] = True
            if r.get("oldvia") and v <= 18:
                # old-style upstream-proxy connection nested under via (formats <= 18): converted by 9_10/10_11 when
                # present, then dropped by 18_19
                sc["via"] = copy.deepcopy({k: x for k, x in sc.items() if k not in ("via", "via2")})
                sc["via"]["via"] = None
                sc["via"]["via2"] = None
                sc["via"]["id"] = "via-old"
            if r.get("addr_bytes"):
                for a in (cc["address"], cc.get("sockname"), sc["ip_address"], sc["source_address"], sc["address"]):
                    _enc(a)
        elif cur == 18:
            assert cc.pop("proxy_mode") == "regular"
        elif cur == 17:
            if not r.get("mode_absent"):
                s["mode"] = r.get("mode", "regular")
        elif cur == 16:
            s.pop("timestamp_created")
        elif cur == 15:
            if s.get("websocket"):
                assert all(m[-1] is False for m in s["websocket"]["messages"])
                s["websocket"]["messages"] = [m[:-1] for m in s["websocket"]["messages"]]
        elif cur == 14:
            assert s.pop("comment") == ""
            if r.get("bug4576") and s["type"] == "http" and s.get("response"):
                s["response"]["timestamp_start"] = None
                s["response"]["timestamp_end"] = None
        elif cur == 13:
            s["marked"] = {"": False, ":default:": True}[s["marked"]]
        elif cur == 12:
            assert s.get("websocket") is None
            s.pop("websocket", None)
        elif cur == 11:
            for c in conns + ((sc["via"],) if sc.get("via") else ()):
                if r.get("sni_bytes") and isinstance(c["sni"], str) and c["sni"].isascii():
                    # always_str(bytes, "ascii", "backslashreplace"): \xe9 in the str came from the byte e9
                    c["sni"] = c["sni"].encode().replace(b"\\xe9", b"\xe9")
                c["alpn_proto_negotiated"] = c.pop("alpn")
                if r.get("none_offers"):
                    c["alpn_offers"] = c["alpn_offers"] or None
                    c["cipher_list"] = c["cipher_list"] or None
        elif cur == 10:
            assert cc.pop("sockname") in (["", 0], [b"", 0])
            cl = cc.pop("certificate_list")
            cc["clientcert"] = cl[0] if cl else None
            cl = sc.pop("certificate_list")
            sc["cert"] = cl[0] if cl else None
            assert sc.pop("via2") is None and sc["cipher_name"] is None
            ov = sc.get("via")
            if ov:
                cl = ov.pop("certificate_list")
                ov["cert"] = cl[0] if cl else None
                ov.pop("via2")
            for c in conns + ((ov,) if ov else ()):
                c.pop("state", None), c.pop("alpn_offers"), c.pop("cipher_list")
                assert c.pop("error") is None
                assert c.pop("tls") == c["tls_established"]
            if r.get("sc_cipher"):
                sc["cipher_name"] = "ECDHE-RSA-AES128-GCM-SHA256"
        elif cur == 9:
            s.pop("is_replay")
            if "request" in s:
                assert s["request"].pop("authority") == b""
                s["request"]["first_line_format"] = r.get("flf", "relative")
                if r.get("rq_replay") is not None:
                    s["request"]["is_replay"] = r["rq_replay"]
            if s.get("response") and r.get("rs_replay") is not None:
                s["response"]["is_replay"] = r["rs_replay"]
        elif cur == 8:
            for m in ("request", "response"):
                if s.get(m):
                    assert s[m].pop("trailers") is None
        cur -= 1
        s["version"] = cur
    return s


def _mutate(s, m):
    d = s
    for k in m["path"][:-1]:
        d = d.get(k) if isinstance(d, dict) else None
        if d is None:
            return
    k = m["path"][-1]
    if isinstance(d, dict) and k in d:
        if m["op"] == "del":
            del d[k]
        elif m["op"] == "none":
            d[k] = None
        else:
            d[k] = 5


MUT_PATHS = [["client_conn"], ["server_conn"], ["client_conn", "tls_version"], ["server_conn", "tls_version"],
             ["client_conn", "tls_extensions"], ["client_conn", "tls_established"], ["server_conn", "sni"],
             ["client_conn", "sni"], ["marked"], ["metadata"], ["client_conn", "alpn_proto_negotiated"],
             ["server_conn", "cipher_list"], ["request"], ["request", "timestamp_start"], ["client_conn", "timestamp_start"],
             ["websocket", "messages"], ["client_conn", "tls"], ["server_conn", "via"], ["type"], ["id"], ["request", "first_line_format"],
             ["client_conn", "alpn_offers"], ["server_conn", "address"]]


# ------------------------------------------------------------------ generator
def _recipe(rng, n):
    t = rng.weighted([(30, "http"), (10, "http-noresp"), (8, "http-err"), (12, "ws"), (18, "tcp"), (8, "udp"), (14, "dns")])
    lo = {"ws": 12, "dns": 16}.get(t, MIN_V)
    v = rng.randint(lo, 21) if rng.chance(0.85) else rng.choice([lo, 10, 11, 12, 20, 21] if lo <= 10 else [lo, 20, 21])
    v = max(v, lo)
    r = {"t": t, "v": v, "n": n, "ts": rng.choice([0, 1, 946681200, 1700000000]),
         "marked": rng.choice(["", "", ":default:", ":red_circle:"]), "comment": rng.choice(["", "", "note", "é"]),
         "tlsc": rng.choice([None, "TLSv1.2", "TLSv1.3", "QUICv1"]), "tlss": rng.choice([None, "TLSv1.3", "QUICv1"]),
         "snic": rng.choice([None, "example.com", "address"]), "snis": rng.choice([None, "address", "example.org"]),
         "alpn": rng.choice([None, "6832", "687474702f312e31"]), "cipher": rng.choice([None, "TLS_AES_128_GCM_SHA256"]),
         "tls": rng.chance(0.5), "host": rng.choice(["address", "example.org", "10.0.0.1", "::1", None]),
         "peer": rng.chance(0.8), "content": rng.bytes(rng.randint(0, 6)).hex()}
    r["salpn"] = rng.choice([None, None, "6832"])
    r["rq_replay"], r["rs_replay"] = rng.choice([None, False, True, True]), rng.choice([None, False, True])
    r["replay"] = rng.choice([None, None, "request", "response"])
    r["flf"] = rng.choice(["relative", "absolute", "authority"])
    r["scert"] = rng.choice([0, 0, 1, 2])
    if rng.chance(0.15):
        r["snic"] = "\\xe9.example"
    for flag, p in (("offers", .3), ("ccert", .25), ("oldvia", .3), ("mode_absent", .3), ("state_absent", .3), ("cc_ts_none", .2),
                    ("via", .2), ("injected", .3), ("bug4576", .25), ("tsc", .5), ("nobackup", .5), ("tlsext", .3),
                    ("drop_tp", .4), ("sni_true", .4), ("addr_bytes", .4), ("sni_bytes", .4), ("none_offers", .4),
                    ("sc_cipher", .3)):
        if rng.chance(p):
            r[flag] = True
    if rng.chance(0.65):
        r["pmode"] = rng.choice(PM_HEADS) + rng.choice(PM_LISTENS)
    if rng.chance(0.3):
        r["mode"] = rng.choice(["transparent", "upstream", "socks5"])
    r["cstate"], r["sstate"] = rng.randint(0, 3), rng.randint(0, 3)
    return r


def gen(rng, n, tier):
    out = []
    if tier == "thorough":
        k = 0
        for t in TYPES:
            for v in range({"ws": 12, "dns": 16}.get(t, MIN_V), 22):
                for variant in range(3):
                    k += 1
                    r = {"t": t, "v": v, "n": k}
                    if variant >= 1:
                        r.update(addr_bytes=True, sni_true=True, none_offers=True, sni_bytes=True, drop_tp=True, bug4576=True,
                                 snis="address", snic="example.com", tlsc="QUICv1", marked=":default:")
                    if variant == 2:
                        r["stale"] = v
                    if v >= 18:
                        r["pmode"] = PM_HEADS[k % len(PM_HEADS)] + PM_LISTENS[(k // 3) % len(PM_LISTENS)]
                    out.append({"k": "synth", "r": r})
        for val in VER_VALUES:
            for keys in ("s", "b", "bs", "sb"):
                out.append({"k": "ver", "base": "min", "keys": keys, "val": _j(val), "val2": _j(21)})
    for i in range(n):
        x = rng.random()
        if x < 0.55:
            out.append({"k": "synth", "r": _recipe(rng, i)})
        elif x < 0.70:
            r = _recipe(rng, i)
            r["mut"] = {"path": rng.choice(MUT_PATHS), "op": rng.choice(["del", "del", "none", "int"])}
            out.append({"k": "synth", "r": r})
        elif x < 0.80:
            r = _recipe(rng, i)
            r["stale"] = _j(rng.choice([r["v"], r["v"], 21, 22, r["v"] + 1, [0, 11], None, [3, 0]]))
            out.append({"k": "synth", "r": r})
        elif x < 0.88:
            out.append(_wsfile(rng))
        elif x < 0.93:
            f = rng.choice(REPLAY_FILES)
            c = {"k": "replay", "file": f, "rq": rng.choice([None, False, True, True]),
                 "rs": rng.choice([None, False, True]), "noresp": rng.chance(0.35)}
            if f == "dumpfile-011.mitm":
                c["adv"] = rng.randint(11, 16)  # start from the 0.<adv> shape of the record
            out.append(c)
        else:
            out.append({"k": "ver", "base": rng.choice(["min", "min", "real"]), "keys": rng.choice(["s", "s", "b", "bs", "sb"]),
                        "val": _j(rng.choice(VER_VALUES)), "val2": _j(rng.choice(VER_VALUES))})
    return out


WS_DUMP = "dumpfile-7-websocket.mitm"
# shipped dumps of a format <= 8 (their first record is an HTTP flow with a response)
REPLAY_FILES = ["dumpfile-011.mitm", "dumpfile-018.mitm", "dumpfile-019.mitm", WS_DUMP]


def _replay_record(case):
    """First raw record of a shipped old dump with the per-message replay markers of formats <= 8 set as the case says
    (None = marker absent); -> (record, expected flow-level is_replay per the documented precedence request > response)."""
    d = tnetstring.load(open(os.path.join(DATA, case["file"]), "rb"))
    for minor in range(11, case.get("adv", 11)):
        # the 0.11 record in the shape of a later tuple-era version (input preparation only; shipped converters that the
        # shipped dump already exercises)
        d = tnetstring.loads(tnetstring.dumps(compat.converters[(0, minor)](d)))
    key = (lambda x: x.encode()) if b"request" in d else (lambda x: x)
    req, resp = d[key("request")], d.get(key("response"))
    if case.get("noresp"):
        # an unanswered/failed flow: old StateObject.get_state wrote None for unset attributes (cf. error: None in the dumps)
        d[key("response")] = resp = None
        d[key("error")] = {key("msg"): key("connection failed"), key("timestamp"): 1.0}
    for m, val in ((req, case["rq"]), (resp, case["rs"])):
        if m is not None:
            m.pop(key("is_replay"), None)
            if val is not None:
                m[key("is_replay")] = val
    want = "request" if case["rq"] is True else "response" if (resp is not None and case["rs"] is True) else None
    return d, want



def _wsfile(rng):
    """A format-7 file made of the raw records of the shipped websocket dump (0,3,5 = handshake flows, 1,2,4 =
    websocket flows of handshakes 0,0,3) in a generated order: interleaved/overlapping connections, websocket flows
    before or without their handshake, repeated records. tag: give every handshake its own host/port/path."""
    x = rng.random()
    if x < 0.35:
        order = rng.choice([[0, 3, 4, 1], [0, 3, 1, 4], [3, 0, 4, 1], [0, 3, 5, 4, 1], [3, 5, 0, 1, 4], [0, 3, 4, 1, 2]])
    elif x < 0.7:
        order = list(range(6))
        rng.shuffle(order)
        order = order[:rng.randint(2, 6)]
    else:
        order = [rng.randint(0, 5) for _ in range(rng.randint(2, 8))]
    return {"k": "wsfile", "order": order, "tag": rng.chance(0.7)}


def _ws_records(case):
    fo = open(os.path.join(DATA, WS_DUMP), "rb")
    raw = []
    try:
        while True:
            raw.append(tnetstring.load(fo))
    except ValueError:
        pass
    recs = []
    for i in case["order"]:
        d = copy.deepcopy(raw[i])
        if case.get("tag") and d["type"] == "http":
            d["request"]["host"] = b"h%d.example" % i
            d["request"]["port"] = 8000 + i
            d["request"]["path"] = b"/conn-%d" % i
        recs.append(d)
    return recs


def _ws_expected(recs):
    """Reference for convert_11_12 at file level, written from its documentation: a handshake flow is kept until the
    first websocket flow naming it arrives; that websocket flow becomes the handshake flow plus messages; a websocket
    flow without (remaining) handshake becomes a made-up flow for host unknown that keeps the websocket flow id."""
    avail, want = {}, []
    for d in recs:
        if d["type"] == "http":
            me = [d["id"], d["request"]["host"].decode(), d["request"]["port"], d["request"]["path"].decode(), None]
            if "websocket" in d["metadata"]:
                avail[d["id"]] = me
            want.append(me)
        else:
            h = avail.pop(d["metadata"]["websocket_handshake"], None)
            want.append((h[:4] if h else [d["id"], "unknown", 80, "/"]) + [len(d["messages"])])
    return want


def _j(v):
    """version value -> JSON (bytes as {'hex':..}, big ints as is)"""
    if isinstance(v, bytes):
        return {"hex": v.hex()}
    if isinstance(v, list):
        return [_j(x) for x in v]
    if isinstance(v, dict):
        return {"dict": [[_j(k), _j(x)] for k, x in v.items()]}
    return v


def _uj(v):
    if isinstance(v, dict) and "hex" in v:
        return bytes.fromhex(v["hex"])
    if isinstance(v, dict) and "dict" in v:
        return {_uj(k): _uj(x) for k, x in v["dict"]}
    if isinstance(v, list):
        return [_uj(x) for x in v]
    return v


# ------------------------------------------------------------------ implementation runner
def setup_impl():
    global compat, tnetstring, mio, flow, exceptions, tflow, version
    from mitmproxy import exceptions, flow, version  # noqa
    from mitmproxy import io as mio  # noqa
    from mitmproxy.io import compat, tnetstring  # noqa
    from mitmproxy.test import tflow  # noqa
    import mitmproxy.http, mitmproxy.tcp, mitmproxy.udp, mitmproxy.dns  # noqa


def _file_for(case):
    """-> (file bytes, index of the record under observation, expected current state or None, info)"""
    k = case["k"]
    if k == "dump":
        return open(os.path.join(DATA, case["file"]), "rb").read(), case["idx"], None, {}
    if k == "replay":
        d, want = _replay_record(case)
        return tnetstring.dumps(d), 0, None, {"replay_want": want}
    if k == "wsfile":
        recs = _ws_records(case)
        return b"".join(tnetstring.dumps(d) for d in recs), len(recs) - 1, None, {"ws_want": _ws_expected(recs)}
    if k == "synth":
        r = case["r"]
        want = build_current(r)
        old = down(copy.deepcopy(want), r["v"], r)
        exact = True
        if "mut" in r:
            _mutate(old, r["mut"])
            exact = False
        if "stale" in r:
            old[b"version"] = _uj(r["stale"])
            exact = False
        return tnetstring.dumps(old), 0, (want if exact else None), {}
    # ver
    if case["base"] == "real":
        st = _canon(tflow.tflow(resp=True).get_state())
        del st["version"]
    else:
        st = {}
    val, val2 = _uj(case["val"]), _uj(case["val2"])
    keys = case["keys"]
    if keys == "s":
        st["version"] = val
    elif keys == "b":
        st[b"version"] = val
    elif keys == "bs":
        st[b"version"] = val
        st["version"] = val2
    else:
        st["version"] = val2
        st[b"version"] = val
    eff = val
    return tnetstring.dumps(st), 0, None, {"eff": eff, "has_b": "b" in keys, "pure_current_real":
                                          case["base"] == "real" and keys == "s" and type(val) is int
                                          and val == version.FLOW_FORMAT_VERSION}


def run_impl(case):
    data, idx, want, info = _file_for(case)
    nrec = 0
    fo = _io.BytesIO(data)
    try:
        while True:
            tnetstring.load(fo)
            nrec += 1
    except ValueError:
        pass
    with Instrument() as inst:
        flows, end, msg = _read(data)
        runs = inst.runs
    obs = {"end": end, "nflows": len(flows), "nrec": nrec, "hint": "please update" in msg,
           "msg_version": "version" in msg, "mig": None}
    if len(runs) > idx:
        run = runs[idx]
        obs["mig"] = {"in": run["in"], "script": run["script"], "calls": run["calls"], "out": run["out"]}
        obs["exc_type"] = run.get("exc_type")
    if case["k"] == "ver":
        eff = info["eff"]
        obs["eff_int"] = int(eff) if isinstance(eff, (bool, int)) else None
        obs["eff_key_known"] = (eff in compat.converters if isinstance(eff, int) else
                                (_hashable2(eff) and tuple(eff)[:2] in compat.converters))
        obs["pure_current_real"] = info["pure_current_real"]
    if case["k"] == "replay":
        obs["replay_want"] = info["replay_want"]
        obs["replay_got"] = flows[0].is_replay if flows else "<not loaded>"
        obs["resp_none"] = bool(flows) and flows[0].response is None and (flows[0].error is not None) == bool(case.get("noresp"))
    if case["k"] == "wsfile":
        obs["ws_want"] = info["ws_want"]
        obs["ws_got"] = [[f.id, f.request.host, f.request.port, f.request.path,
                          len(f.websocket.messages) if f.websocket else None] if f.type == "http" else [f.id, f.type]
                         for f in flows]
    obs["stale_b"] = bool(obs["mig"]) and obs["mig"]["in"][0] is not None
    if len(flows) > idx:
        f = flows[idx]
        s1 = f.get_state()
        obs["type"] = s1.get("type")
        obs["version_ok"] = type(s1.get("version")) is int and s1["version"] == version.FLOW_FORMAT_VERSION
        c1 = _canon(s1)
        if want is not None:
            obs["diff_expected"] = _diff(want, c1)
        # save -> load fixpoint, and current states pass migration unchanged without a converter call
        saved = tnetstring.dumps(s1)
        loaded = tnetstring.loads(saved)
        before = copy.deepcopy(loaded)
        with Instrument() as inst2:
            try:
                m2 = compat.migrate_flow(loaded)
                obs["remig"] = "" if (m2 is loaded and _diff(before, m2) == "" and not inst2.runs[0]["calls"]) \
                    else "migrate_flow changed a current state or called a converter"
            except BaseException as e:
                obs["remig"] = "migrate_flow raised on a current state: " + type(e).__name__
        flows2, end2, msg2 = _read(saved)
        if end2 != "ok" or len(flows2) != 1:
            obs["fix"] = f"re-loading the saved flow: {end2} {msg2[:80]}"
        else:
            obs["fix"] = _diff(c1, _canon(flows2[0].get_state()))
    return obs


def _hashable2(x):
    try:
        hash(tuple(x)[:2])
        return True
    except TypeError:
        return False


# ------------------------------------------------------------------ Coq printer
def _cz(n):
    return f"({n})%Z"


def _celt(e):
    return f"EInt {_cz(e['i'])}" if isinstance(e, dict) else ("EOther" if e == "o" else "EUnhashable")


def _cver(v):
    if v == "n":
        return "VNotIterable"
    if "i" in v:
        return f"(VInt {_cz(v['i'])})"
    return "(VSeq " + clist((_celt(e) for e in v["q"]), "velt") + ")"


def _cslot(v):
    return copt(v, _cver, "verval")


def _ckey(k):
    if isinstance(k, list):
        return "(FTup " + clist((f"EInt {_cz(x)}" for x in k), "velt") + ")"
    return f"(FInt {_cz(k)})"


def coq_case(case, obs):
    m = obs.get("mig")
    if not m or isinstance(m["out"], dict) and "other" in m["out"]:
        return None
    script = clist(("BRaise" if e == "raise" else "BKeep" if e == "keep" else f"(BSwap {_cslot(e[0])} {_cslot(e[1])})"
                    for e in m["script"]), "bres")
    calls = clist((f"({_ckey(k)}, {copt(a, lambda sl: '(' + _cslot(sl[0]) + ', ' + _cslot(sl[1]) + ')', '(option verval * option verval)')})"
                   for k, a in m["calls"]), "(fver * option (option verval * option verval))")
    o = m["out"]
    if isinstance(o, dict) and "ok" in o:
        out = f"(OOk {_cver(o['ok'])})"
    elif isinstance(o, dict):
        out = f"(OReject {cbool(o['reject'])})"
    else:
        out = {"tuple": "OTupleTypeError", "unhashable": "OUnhashableTypeError", "body": "OBodyErr", "loop": "OLoop"}[o]
    return f"Mig {_cslot(m['in'][0])} {_cslot(m['in'][1])} {script} {calls} {out}"


# ------------------------------------------------------------------ oracle: the property on the implementation
def oracle(case, obs):
    v = []
    k = case["k"]
    tag = case.get("file") or (f"{case['r']['t']} flow as format {case['r']['v']}" if k == "synth" else f"version value {case.get('val')!r}/{case.get('keys')}")
    end = obs["end"]
    if end == "loop":
        key = "stale-bytes-version-loop" if obs["stale_b"] else "migration-loop"
        v.append({"key": key, "what": f"{tag}: migrate_flow called more than {LOOP_CAP} converters (does not terminate)"})
        return v
    if end.startswith("other:"):
        v.append({"key": "reader-other-exception", "what": f"{tag}: FlowReader.stream raised {end[6:]}"})
        return v
    loaded = obs["nflows"] > (case["idx"] if k == "dump" else len(case["order"]) - 1 if k == "wsfile" else 0)
    if k == "replay":
        tag = f"{case['file']} record 0 with request.is_replay={case['rq']} response.is_replay={case['rs']}" + \
            (" and no response" if case.get("noresp") else "")
        if case.get("noresp") and not (loaded and obs.get("resp_none")):
            v.append({"key": "old-converters-no-response", "what": f"{tag}: an old flow without response (error flow) "
                      f"in the 0.{case.get('adv', 'x')} shape does not load as a flow with response None (end={end})"})
        elif obs["replay_got"] != obs["replay_want"]:
            v.append({"key": "replay-marker-lost", "what": f"{tag}: loaded flow has is_replay={obs['replay_got']!r}, "
                                                           f"expected {obs['replay_want']!r}"})
    if k == "wsfile":
        tag = f"records {case['order']} of {WS_DUMP}" + (" (tagged)" if case.get("tag") else "")
        if end != "ok" or obs["nflows"] != obs["nrec"]:
            v.append({"key": "websocket-file-fails", "what": f"{tag}: {obs['nflows']} of {obs['nrec']} flows loaded, end={end}"})
            return v
        for j, (w, g) in enumerate(zip(obs["ws_want"], obs["ws_got"])):
            if w != g:
                key = "websocket-lost-handshake" if (len(g) > 1 and g[1] == "unknown" and w[1] != "unknown") \
                    else "websocket-wrong-handshake"
                v.append({"key": key, "what": f"{tag}: flow {j} loaded as [id, host, port, path, messages] = {g}, expected {w}"})
                break
    if k == "dump":
        if case["file"] == "dumpfile-010.mitm":
            if not (end == "fre" and obs["msg_version"] and not obs["hint"] and obs["nflows"] == 0):
                v.append({"key": "unsupported-old-not-rejected", "what": f"{tag}: format 0.10 not rejected with a version error"})
            return v
        if end != "ok" or obs["nflows"] != obs["nrec"]:
            v.append({"key": "shipped-dump-fails", "what": f"{tag}: {obs['nflows']} of {obs['nrec']} flows loaded, end={end}"})
            return v
    if k == "synth" and "mut" not in case["r"] and "stale" not in case["r"]:
        if not loaded:
            key = "tcp-udp-websocket-key" if (case["r"]["t"] in ("tcp", "udp") and case["r"]["v"] <= 11
                                              and obs.get("exc_type") is None and obs["mig"] and "ok" in (obs["mig"]["out"] or {})) \
                else "old-state-fails-to-load"
            v.append({"key": key, "what": f"{tag}: not loaded, end={end}"})
            return v
        if obs.get("diff_expected"):
            v.append({"key": "old-state-migrates-wrong", "what": f"{tag}: loaded flow differs from the original: {obs['diff_expected']}"})
    if k == "ver":
        ei = obs["eff_int"]
        cur = None if ei is None else (ei == CURRENT())
        if ei is not None and ei > CURRENT():
            if not (end == "fre" and obs["hint"] and obs["msg_version"]):
                v.append({"key": "newer-version-no-hint", "what": f"{tag}: newer version not rejected with the upgrade hint (end={end})"})
        elif not cur and not obs["eff_key_known"]:
            if end != "fre" or obs["hint"] or loaded:
                v.append({"key": "unknown-version-not-rejected", "what": f"{tag}: unknown version not rejected cleanly (end={end}, hint={obs['hint']})"})
        if obs["pure_current_real"] and not loaded:
            v.append({"key": "current-state-rejected", "what": f"{tag}: a current state did not load"})
    if loaded:
        if not obs.get("version_ok") or obs.get("type") not in ("http", "tcp", "udp", "dns"):
            v.append({"key": "loaded-flow-invalid", "what": f"{tag}: loaded flow has version/type {obs.get('type')}"})
        if obs.get("remig"):
            v.append({"key": "current-not-unchanged", "what": f"{tag}: {obs['remig']}"})
        if obs.get("fix"):
            v.append({"key": "save-load-not-fixpoint", "what": f"{tag}: {obs['fix']}"})
    return v


def CURRENT():
    return version.FLOW_FORMAT_VERSION


def nontrivial(case, obs):
    m = obs.get("mig")
    return bool(m and (m["calls"] or not (isinstance(m["out"], dict) and "ok" in m["out"])))


def classify(case, obs):
    m = obs.get("mig") or {"out": None, "calls": []}
    o = m["out"]
    tags = [case["k"], "end=" + obs["end"].split(":")[0],
            "out=" + (next(iter(o)) if isinstance(o, dict) else str(o)), "calls=%d" % min(len(m["calls"]), 15)]
    if case["k"] == "replay":
        tags += ["replay=%s" % obs.get("replay_want")]
    if case["k"] == "wsfile":
        tags += ["ws-dummy" if any(w[1] == "unknown" for w in obs.get("ws_want", [])) else "ws-all-matched",
                 "ws-n=%d" % len(case["order"])]
    if case["k"] == "synth":
        tags += ["v=%d" % case["r"]["v"], "t=" + case["r"]["t"]] + [x for x in ("mut", "stale") if x in case["r"]]
    if any(isinstance(e, list) for e in m.get("script", [])):
        tags.append("swap")
    return tags
