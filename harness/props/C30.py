"""C30 — QUIC streams are demultiplexed onto correctly paired streams
(mitmproxy/proxy/layers/quic/_raw_layers.py RawQuicLayer / QuicStreamLayer)."""
import traceback

from lib.coqterm import cbool, cbytes, clist, copt, cN, hx, unhx

ID = "C30"
QUICK_N = 2000
THOROUGH_N = 16000
SHARD = 300
RULE = ("schedules of <= 14 QUIC stream events (data with/without FIN, empty FIN, reset, stop-sending, connection close) "
        "from both sides over <= 12 small stream ids of all four classes plus ids near 2^62, ~65% sent by the initiator "
        "side / on an id that is probably registered, rest adversarial (wrong-initiator ids, events after FIN/reset, "
        "duplicates). Each new stream layer gets either the real TCPLayer(ignore=True) or a scripted child yielding a "
        "generated list of SendData/CloseConnection/CloseTcpConnection(half_close)/OpenConnection/Log commands per event "
        "(70% start with OpenConnection(server)). 12% of schedules run the untouched force_raw stack (real TCPLayer with "
        "hooks answered at once; oracle only). Plus direct cases for the translated id predicates and allocator. "
        "Non-trivial = at least two stream layers or a reset/close sweep, and at least one QUIC command emitted; "
        "distinct by canonical JSON.")
TRUSTED = ["Coq 8.16.1 kernel; vm_compute for case evaluation",
           "harness/translators/quic_ids.py (ast -> Gallina for the id arithmetic; its output is also run against the real functions)",
           "hand model of RawQuicLayer._handle_event/event_to_child/close_stream_layer (Model/QuicDemux.v), tied by correspondence",
           "stream child abstracted as a function (own state, states of its two connections, event) -> (state, commands); "
           "re-entrant calls see the new state; tied by correspondence for TCPLayer(ignore=True) and for scripted children",
           "harness child injection: _raw_layers.TCPLayer is replaced by a TCPLayer subclass during a run (anchored code unchanged)"]
ASSUMPTIONS = ["hooks / blocking commands of stream children and the Layer pause-queue machinery are not modelled (C04); "
               "the datagram layer, MessageInjected and CommandCompleted routing are not modelled",
               "stream children address only their own client/server connection (no OpenConnection to other servers)",
               "root connections: timestamp_start set, timestamp_end unset; the harness sets state=CLOSED before QuicConnectionClosed",
               "stream ids and error codes are non-negative ints"]
TRANSLATORS = ["quic_ids"]
ALLOWED_AXIOMS = []
COQ_PRELUDE = "From MV Require Import Model.QuicDemux.\n"

BIG = 2 ** 62 - 8


# ------------------------------------------------------------------ generator
def gen_cmd(rng):
    r = rng.random()
    side = "s" if rng.chance(0.55) else "c"
    if r < 0.45:
        return ["send", side, hx(b"" if rng.chance(0.1) else rng.bytes(rng.randint(1, 3)))]
    if r < 0.80:
        return ["close", side, rng.chance(0.5), rng.chance(0.5)]
    if r < 0.88:
        return ["open", "s" if rng.chance(0.85) else "c"]
    return ["pass", rng.randint(0, 9)]


def gen_kind(rng, client_initiated):
    if rng.chance(0.55):
        return ["tcp"]
    tbl = []
    for i in range(rng.randint(1, 6)):
        cmds = [gen_cmd(rng) for _ in range(rng.randint(0, 3))]
        if i == 0:
            cmds = [c for c in cmds if c[0] != "open" or rng.chance(0.15)]
            if client_initiated and rng.chance(0.8):
                cmds = [["open", "s"]] + (cmds if rng.chance(0.4) else [])
        tbl.append(cmds)
    return ["script", tbl]


def gen_demux(rng, real):
    """Schedules are drawn against a light simulation of the registration logic so that most events hit a
    registered stream or legitimately open a new one; the rest is adversarial."""
    evs, kinds = [], []
    n = rng.randint(1, 14)
    reg = {"c": [], "s": []}            # ids probably registered per side
    nxt = [0, 1, 2, 3]
    fresh = {0: 0, 1: 1, 2: 2, 3: 3}    # next unused peer-chosen id per class
    for i in range(n):
        r = rng.random()
        if r < 0.05 or (i == n - 1 and n > 3 and rng.chance(0.25)):
            evs.append(["close", "c" if rng.chance(0.5) else "s", rng.randint(0, 300)])
            continue
        q = rng.random()
        if q < 0.40 or not (reg["c"] or reg["s"]):
            cls = rng.randint(0, 3)                     # open a new stream from its initiator side
            side = "c" if cls % 2 == 0 else "s"
            if rng.chance(0.06):
                sid = BIG + cls if rng.chance(0.5) else fresh[cls] + 4 * rng.randint(1, 3)
            else:
                sid = fresh[cls]
            if sid < BIG:
                fresh[cls] = max(fresh[cls], sid + 4)
            if sid not in reg[side]:
                reg[side].append(sid)
                oth = "s" if side == "c" else "c"
                reg[oth].append(nxt[cls])
                nxt[cls] += 4
                if not real and len(kinds) < 8:
                    kinds.append(gen_kind(rng, side == "c"))
        elif q < 0.90:
            side = "c" if (rng.chance(0.5) and reg["c"]) or not reg["s"] else "s"
            sid = rng.choice(reg[side])
        else:
            side = "c" if rng.chance(0.5) else "s"      # adversarial: any small id from any side
            sid = rng.randint(0, 11)
        if r < 0.68:
            d = b"" if rng.chance(0.2) else rng.bytes(rng.randint(1, 5))
            evs.append(["data", side, sid, hx(d), rng.chance(0.3)])
        elif r < 0.99:
            evs.append(["reset", side, sid, rng.randint(0, 500)])
        else:
            evs.append(["stop", side, sid, rng.randint(0, 500)])
    if not real and rng.chance(0.3):
        kinds = kinds[:rng.randint(0, len(kinds))]
    return {"k": "demux", "mode": "real" if real else "model", "kinds": kinds, "evs": evs}


def gen(rng, n, tier):
    out = []
    for i in range(16):
        out.append({"k": "bits", "id": i})
        out.append({"k": "bits", "id": BIG - 8 + i})
    for _ in range(n):
        r = rng.random()
        if r < 0.03:
            out.append({"k": "bits", "id": rng.below(2 ** 62)})
        elif r < 0.06:
            out.append({"k": "alloc", "calls": [[rng.chance(0.5), rng.chance(0.5)] for _ in range(rng.randint(1, 12))]})
        else:
            out.append(gen_demux(rng, real=r < 0.17))
    return out


# ------------------------------------------------------------------ implementation
def setup_impl():
    global connection, commands, events, context, layer, tcp, R, QE, QC, OPTS, aq
    from mitmproxy import connection, options
    from mitmproxy.addons.proxyserver import Proxyserver
    from mitmproxy.proxy import commands, context, events, layer
    from mitmproxy.proxy.layers import tcp
    from mitmproxy.proxy.layers.quic import _raw_layers as R
    from mitmproxy.proxy.layers.quic import _events as QE
    from mitmproxy.proxy.layers.quic import _commands as QC
    import aioquic.quic.connection as aq
    OPTS = options.Options()
    Proxyserver().load(OPTS)


def _ctx():
    c = context.Context(connection.Client(peername=("client", 1234), sockname=("127.0.0.1", 8080),
                                          timestamp_start=1605699329, state=connection.ConnectionState.OPEN), OPTS)
    c.server = connection.Server(address=("example.com", 443))
    c.server.timestamp_start = 1605699330
    c.server.state = connection.ConnectionState.OPEN
    return c


ASSERTS = [("stream_is_client_initiated(event.stream_id) == from_client", "AssertInitiator"),
           ("Unexpected stream event", "UnexpectedStreamEvent"),
           ("assert stream_id is not None", "AssertStreamId"),
           ("assert not to_client", "AssertOpenClient"),
           ("assert stream_id is None", "AssertOpenTwice"),
           ("assert self._server_stream_id is None", "AssertOpenTwice"),
           ("assert conn.timestamp_start is not None", "AssertTsStart")]


def _errkind(e):
    if isinstance(e, AssertionError):
        tb = traceback.extract_tb(e.__traceback__)
        line = (tb[-1].line or "") + " " + str(e)
        if tb[-1].filename.endswith("_raw_layers.py"):
            for pat, kind in ASSERTS:
                if pat in line:
                    return kind
    return "OtherExc:" + type(e).__name__


def _bits(conn):
    S = connection.ConnectionState
    return [bool(conn.state & S.CAN_READ), bool(conn.state & S.CAN_WRITE),
            conn.timestamp_start is not None, conn.timestamp_end is not None]


def run_demux(case):
    ctx = _ctx()
    real = case["mode"] == "real"
    kinds = case["kinds"]
    counter = [0]

    class Spawn(tcp.TCPLayer):
        def __init__(self, c):
            super().__init__(c, ignore=True)
            idx = counter[0]
            counter[0] += 1
            kind = kinds[idx] if idx < len(kinds) else ["tcp"]
            if kind[0] == "script":
                self.table = [list(x) for x in kind[1]]
                self.handle_event = self._script
                self._handle_event = self._script

        def _conn(self, s):
            return self.context.client if s == "c" else self.context.server

        def _script(self, ev):
            cmds = self.table.pop(0) if self.table else []
            for c in cmds:
                if c[0] == "send":
                    yield commands.SendData(self._conn(c[1]), unhx(c[2]))
                elif c[0] == "close":
                    if c[2]:
                        yield commands.CloseTcpConnection(self._conn(c[1]), half_close=True)
                    elif c[3]:
                        yield commands.CloseTcpConnection(self._conn(c[1]), half_close=False)
                    else:
                        yield commands.CloseConnection(self._conn(c[1]))
                elif c[0] == "open":
                    yield commands.OpenConnection(self._conn(c[1]))
                else:
                    yield commands.Log(f"pass:{c[1]}")

    saved = R.TCPLayer
    if not real:
        R.TCPLayer = Spawn
    try:
        L = R.RawQuicLayer(ctx, force_raw=True)
        per_event, created, err = [], [], None

        def side_of(conn):
            return "c" if conn is ctx.client else ("s" if conn is ctx.server else "?")

        def note(cmd, acc, todo):
            if isinstance(cmd, QC.SendQuicStreamData):
                acc.append(["send", side_of(cmd.connection), cmd.stream_id, hx(cmd.data), bool(cmd.end_stream)])
            elif isinstance(cmd, QC.ResetQuicStream):
                acc.append(["reset", side_of(cmd.connection), cmd.stream_id, cmd.error_code])
            elif isinstance(cmd, QC.StopSendingQuicStream):
                acc.append(["stop", side_of(cmd.connection), cmd.stream_id, int(cmd.error_code)])
            elif isinstance(cmd, QC.CloseQuicConnection):
                acc.append(["closeconn", side_of(cmd.connection), cmd.error_code])
            elif isinstance(cmd, commands.Log) and str(cmd.message).startswith("pass:"):
                acc.append(["pass", int(str(cmd.message)[5:])])
            elif isinstance(cmd, commands.StartHook) and cmd.blocking:
                todo.append(events.HookCompleted(cmd))

        def feed(ev, acc):
            todo = [ev]
            while todo:
                e = todo.pop(0)
                for cmd in L.handle_event(e):
                    note(cmd, acc, todo)

        def stream_layers():
            seen, out = set(), []
            for v in L.connections.values():
                if isinstance(v, R.QuicStreamLayer) and id(v) not in seen:
                    seen.add(id(v))
                    out.append(v)
            return out

        feed(events.Start(), [])
        consumed = 0
        for i, e in enumerate(case["evs"]):
            conn = ctx.client if e[1] == "c" else ctx.server
            if e[0] == "data":
                ev = QE.QuicStreamDataReceived(conn, e[2], unhx(e[3]), e[4])
            elif e[0] == "reset":
                ev = QE.QuicStreamReset(conn, e[2], e[3])
            elif e[0] == "stop":
                ev = QE.QuicStreamStopSending(conn, e[2], e[3])
            else:
                conn.state = connection.ConnectionState.CLOSED
                ev = QE.QuicConnectionClosed(conn, e[2], None, "bye")
            acc = []
            per_event.append(acc)
            nl = len(stream_layers())
            try:
                feed(ev, acc)
            except Exception as ex:  # noqa
                err = _errkind(ex)
            for k in range(nl, len(stream_layers())):
                created.append([i, k, e[1]])
            consumed = i + 1
            if err:
                break
        sl = stream_layers()
        idx = {id(v): k for k, v in enumerate(sl)}
        return {"per_event": per_event, "err": err, "consumed": consumed, "created": created,
                "cids": [[k, idx.get(id(v), 999)] for k, v in L.client_stream_ids.items()],
                "sids": [[k, idx.get(id(v), 999)] for k, v in L.server_stream_ids.items()],
                "next": list(L.next_stream_id),
                "layers": [[v._client_stream_id, v._server_stream_id, _bits(v.client), _bits(v.server)] for v in sl],
                "done": L._handle_event == L.done}
    finally:
        R.TCPLayer = saved


def run_impl(case):
    if case["k"] == "bits":
        return {"ci": bool(aq.stream_is_client_initiated(case["id"])), "uni": bool(aq.stream_is_unidirectional(case["id"])),
                "same_fn": R.stream_is_client_initiated is aq.stream_is_client_initiated
                and R.stream_is_unidirectional is aq.stream_is_unidirectional}
    if case["k"] == "alloc":
        L = R.RawQuicLayer(_ctx(), force_raw=True)
        ids = [L.get_next_available_stream_id(is_client=c, is_unidirectional=u) for c, u in case["calls"]]
        return {"ids": ids, "final": list(L.next_stream_id)}
    return run_demux(case)


# ------------------------------------------------------------------ Coq terms
def c_side(s):
    return "Cl" if s == "c" else "Sv"


def c_cmd(c):
    if c[0] == "send":
        return f"(CSend {c_side(c[1])} {cbytes(unhx(c[2]))})"
    if c[0] == "close":
        return f"(CClose {c_side(c[1])} {cbool(c[2])})"
    if c[0] == "open":
        return f"(COpen {c_side(c[1])})"
    return f"(CPass {cN(c[1])})"


def c_kind(k):
    if k[0] == "tcp":
        return "(KTcp TStart)"
    return "(KScript " + clist([clist([c_cmd(c) for c in cmds], "ccmd") for cmds in k[1]], "(list ccmd)") + ")"


def c_ev(e):
    if e[0] == "data":
        return f"(SStream {c_side(e[1])} {cN(e[2])} (KData {cbytes(unhx(e[3]))} {cbool(e[4])}))"
    if e[0] == "reset":
        return f"(SStream {c_side(e[1])} {cN(e[2])} (KReset {cN(e[3])}))"
    if e[0] == "stop":
        return f"(SStream {c_side(e[1])} {cN(e[2])} (KStop {cN(e[3])}))"
    return f"(SConnClosed {c_side(e[1])} {cN(e[2])})"


def c_out(o):
    if o[0] == "send":
        return f"(OSend 0 {c_side(o[1])} {cN(o[2])} {cbytes(unhx(o[3]))} {cbool(o[4])})"
    if o[0] == "reset":
        return f"(OReset 0 {c_side(o[1])} {cN(o[2])} {cN(o[3])})"
    if o[0] == "stop":
        return f"(OStop 0 {c_side(o[1])} {cN(o[2])} {cN(o[3])})"
    if o[0] == "pass":
        return f"(OPass 0 {cN(o[1])})"
    return f"(OCloseConn {c_side(o[1])} {cN(o[2])})"


def c_conn(b):
    return "(mkConn " + " ".join(cbool(x) for x in b) + ")"


def coq_case(case, obs):
    if case["k"] == "bits":
        return f"IdBits {cN(case['id'])} {cbool(obs['ci'])} {cbool(obs['uni'])}"
    if case["k"] == "alloc":
        calls = clist([f"({cbool(c)}, {cbool(u)})" for c, u in case["calls"]], "(bool * bool)")
        return f"AllocSeq {calls} {clist([cN(i) for i in obs['ids']], 'N')} {clist([cN(i) for i in obs['final']], 'N')}"
    if case["mode"] == "real":
        return None
    err = obs["err"]
    if err is not None and err.startswith("OtherExc"):
        err = "OtherExc"
    d = lambda m: clist([f"({cN(k)}, {v}%nat)" for k, v in m], "(N * nat)")
    lay = clist([f"({cN(l[0])}, {copt(l[1], cN, 'N')}, {c_conn(l[2])}, {c_conn(l[3])})" for l in obs["layers"]], "olayer")
    outs = clist([c_out(o) for ev in obs["per_event"] for o in ev], "out")
    return (f"Demux {clist([c_kind(k) for k in case['kinds']], 'kchild')} {clist([c_ev(e) for e in case['evs']], 'sevent')} "
            f"{outs} {copt(err, str, 'errk')} {d(obs['cids'])} {d(obs['sids'])} {clist([cN(i) for i in obs['next']], 'N')} "
            f"{lay} {cbool(obs['done'])}")


# ------------------------------------------------------------------ oracle (the property on the implementation)
def _is_tcp(case, idx):
    return case["mode"] == "real" or idx >= len(case["kinds"]) or case["kinds"][idx][0] == "tcp"


def oracle(case, obs):
    v = []
    if case["k"] == "bits":
        i = case["id"]
        if obs["ci"] != (i % 2 == 0) or obs["uni"] != (i % 4 >= 2) or not obs["same_fn"]:
            v.append({"key": "id-bits", "what": f"initiator/direction predicate wrong for stream id {i}"})
        return v
    if case["k"] == "alloc":
        seen = {}
        for (c, u), i in zip(case["calls"], obs["ids"]):
            cls = 2 * int(u) + int(not c)
            if i % 4 != cls or i < 0:
                v.append({"key": "alloc-bits", "what": f"id {i} allocated for is_client={c}, unidirectional={u}"}); break
            if cls in seen and i <= seen[cls]:
                v.append({"key": "alloc-not-fresh", "what": f"id {i} allocated after {seen[cls]} in the same class"}); break
            seen[cls] = i
        return v
    lay = obs["layers"]
    side_id = lambda l, s: l[0] if s == "c" else l[1]
    # (1) pairing: one id per side per layer, ids unique per side, same class on both sides, maps agree
    for s, col, m in (("c", 0, obs["cids"]), ("s", 1, obs["sids"])):
        ids = [l[col] for l in lay if l[col] is not None]
        if len(set(ids)) != len(ids):
            v.append({"key": "pairing-id-shared", "what": f"two stream layers share the {s}-side id: {ids}"})
        want = sorted([l[col], k] for k, l in enumerate(lay) if l[col] is not None)
        if sorted(m) != want:
            v.append({"key": "pairing-maps", "what": f"{s}-side map {sorted(m)} != ids held by the layers {want}"})
    for k, l in enumerate(lay):
        if l[1] is not None and l[0] % 4 != l[1] % 4:
            v.append({"key": "pairing-class", "what": f"layer {k}: client id {l[0]} paired with server id {l[1]} of another class"})
    # (2) ids chosen by mitmproxy carry the right bits
    for ev_i, k, s in obs["created"]:
        l = lay[k]
        if (l[0] % 2 == 0) != (s == "c"):
            v.append({"key": "alloc-bits", "what": f"layer {k} opened by side {s} got client id {l[0]}"})
    # (3) every command targets a registered id of exactly one layer; (4) and only the stream the event arrived on
    cmap, smap = dict(map(tuple, obs["cids"])), dict(map(tuple, obs["sids"]))
    for i, outs in enumerate(obs["per_event"]):
        e = case["evs"][i]
        src = None
        if e[0] != "close":
            src = (cmap if e[1] == "c" else smap).get(e[2])
        for o in outs:
            if o[0] not in ("send", "reset", "stop"):
                continue
            owners = [k for k, l in enumerate(lay) if side_id(l, o[1]) == o[2]]
            if len(owners) != 1:
                v.append({"key": "unpaired-target", "what": f"event {i}: {o} targets an id held by layers {owners}"}); break
            if e[0] != "close" and owners[0] != src:
                v.append({"key": "wrong-stream", "what": f"event {i} {e} on layer {src} produced {o} for layer {owners[0]}"}); break
    # (5) nothing is sent on a stream after its FIN/reset; nothing is sent on the receive-only end of a unidirectional stream
    closed = set()
    for i, outs in enumerate(obs["per_event"]):
        for o in outs:
            if o[0] in ("send", "reset"):
                if (o[1], o[2]) in closed:
                    v.append({"key": "send-after-fin", "what": f"event {i}: {o} after FIN/reset was sent on that stream"})
                if o[2] % 4 >= 2 and (o[2] % 2 == 0) == (o[1] == "c"):
                    v.append({"key": "send-on-recv-only", "what": f"event {i}: {o} written to the initiator of a unidirectional stream"})
                if o[0] == "reset" or o[4]:
                    closed.add((o[1], o[2]))
    # (6)/(7) pass-through children: nothing forwarded after inbound FIN/reset; resets stay resets
    inbound_closed, was_reset = set(), {}
    for i, outs in enumerate(obs["per_event"]):
        e = case["evs"][i]
        if e[0] == "close":
            for ci, k, _ in obs["created"]:
                if ci < i:
                    inbound_closed.add((k, e[1]))
            continue
        src = (cmap if e[1] == "c" else smap).get(e[2])
        if src is None or not _is_tcp(case, src):
            continue
        oth = "s" if e[1] == "c" else "c"
        tgt = side_id(lay[src], oth)
        for o in outs:
            if o[0] == "send" and o[3] and (o[1], o[2]) == (oth, tgt):
                if (src, e[1]) in inbound_closed:
                    v.append({"key": "forward-after-fin", "what": f"event {i} {e}: data forwarded after this direction was closed: {o}"})
                elif e[0] != "data" or o[3] != e[3]:
                    v.append({"key": "relay-data", "what": f"event {i} {e}: forwarded bytes differ: {o}"})
        if e[0] == "reset" and (src, e[1]) not in inbound_closed:
            was_reset[(oth, tgt)] = (i, e[3])
        if e[0] == "reset" or (e[0] == "data" and e[4]):
            inbound_closed.add((src, e[1]))
    for i, outs in enumerate(obs["per_event"]):
        for o in outs:
            if o[0] not in ("send", "reset"):
                continue
            key = (o[1], o[2])
            if key in was_reset and i >= was_reset[key][0]:
                if o[0] == "send" and o[4]:
                    fam = case["mode"] == "real" and any(c[0] == was_reset[key][0] for c in obs["created"])
                    v.append({"key": "reset-becomes-fin-hook-pending" if fam else "reset-lost",
                              "what": f"reset (event {was_reset[key][0]}, code {was_reset[key][1]}) reached the paired stream as a clean FIN: {o}"})
                if o[0] == "reset" and o[3] != was_reset[key][1]:
                    v.append({"key": "reset-code", "what": f"reset code changed: {o}"})
    # (8) failures
    if obs["err"] == "UnexpectedStreamEvent" and case["evs"][obs["consumed"] - 1][0] == "stop":
        v.append({"key": "stop-sending-crash", "what": f"QuicStreamStopSending {case['evs'][obs['consumed'] - 1]} raises AssertionError(Unexpected stream event)"})
    elif obs["err"] is not None and (obs["err"].startswith("OtherExc") or obs["err"] == "UnexpectedStreamEvent"):
        v.append({"key": "unexpected-exception", "what": f"layer raised {obs['err']}"})
    seen, res = set(), []
    for x in v:
        if x["key"] not in seen:
            seen.add(x["key"])
            res.append(x)
    return res


def nontrivial(case, obs):
    if case["k"] != "demux":
        return case["k"] == "alloc" and len(case["calls"]) > 3
    n_out = sum(len(x) for x in obs["per_event"])
    sweep = any(e[0] in ("reset", "close") for e in case["evs"][:obs["consumed"]])
    return n_out > 0 and (len(obs["layers"]) >= 2 or sweep)


def classify(case, obs):
    if case["k"] != "demux":
        return [case["k"]]
    t = ["demux-" + case["mode"], "err=" + str(obs["err"]).split(":")[0], f"layers={min(len(obs['layers']), 5)}"]
    kinds = {o[0] for ev in obs["per_event"] for o in ev}
    t += sorted("out-" + k for k in kinds)
    if any(l[1] is not None and l[0] % 2 == 1 for l in obs["layers"]):
        t.append("server-initiated")
    if any(l[0] % 4 >= 2 for l in obs["layers"]):
        t.append("unidirectional")
    if any(e[0] == "close" for e in case["evs"][:obs["consumed"]]):
        t.append("conn-close")
    if obs["done"]:
        t.append("done")
    if any(k[0] == "script" for k in case["kinds"][:len(obs["layers"])]):
        t.append("scripted-child")
    return t
