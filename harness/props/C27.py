"""C27 — DNS replies correspond to client queries; TCP framing ignores segmentation
(mitmproxy/proxy/layers/dns.py DNSLayer, mitmproxy/dns.py DNSMessage.fail)."""
import struct

from lib.coqterm import cbool, cbytes, clist, cN, cnat, copt, hx, unhx

ID = "C27"
QUICK_N = 800
THOROUGH_N = 12000
SHARD = 100
COQ_PRELUDE = "From MV Require Import Model.DnsLayer.\n"
RULE = ("85%: a case is a whole connection: transport (client TCP 55% / UDP, upstream almost always the same), upstream address present "
        "88%, a scenario of 1-9 operations over 6 ids x 4 names (new query, query re-using a pending or answered id with another "
        "name, matching reply, duplicate reply, unsolicited reply, reply with another question, malformed input: zero / short length "
        "prefix, garbage, trailing bytes, truncated frame; client / upstream close), an addon script (none / set response / clear "
        "response / set error, one per hook) and connect outcomes. Over TCP every run of frames in one direction is re-segmented "
        "(one event per frame, one event for the run, or 1-4 random cuts, also inside the length prefix); the case is run again with "
        "every run merged into one event for the segmentation clause. Thorough adds every 2-way split of four base streams and every "
        "3-way split of a 2-query stream. 15%: end-to-end regular dns mode with the REAL DnsResolver addon (only the OS lookup is a fake "
        "whose pending lookups complete in a generated order with generated outcomes): 2-4 client connections (UDP or TCP, one real "
        "DNSLayer each), 2-6 A/AAAA queries with equal and different names/types/ids, 60% asking the same name+type, submitted before, "
        "between and after completions. Non-trivial = at least one hook fired; distinct by canonical JSON.")
TRUSTED = ["Coq 8.16.1 kernel (coqc); vm_compute for case evaluation",
           "harness/props/C27.py (generator, driver glue, reference de-framer/parser of the oracle), harness/lib/sansio.py",
           "DNSMessage.unpack / packed are abstract in the model: theorems quantify over every unpack function; the correspondence run "
           "uses the table of results of the real DNSMessage.unpack (its correctness is C25/C26)",
           "end-to-end cases: asyncio glue of the harness replaces ProxyConnectionHandler.server_event/hook_task; mitmproxy_rs lookups "
           "replaced by a fake resolver; the resolver step is modelled as AResolve (response built from the request of the flow), its "
           "observed rcode / answer records are inputs of the model; each connection is compared with its own model run "
           "(C27_concurrent_clients_independent)",
           "hooks and OpenConnection answered synchronously (atomic event handling while a hook is pending is the layer core, C04)",
           "hand model of DNSLayer and DNSMessage.fail, tied by exact comparison of the command trace (hooks with the flow's "
           "request/response/error, opens, sent bytes, closes, crash) and of the final live flags"]
ASSUMPTIONS = ["addons change only flow.response / flow.error while a hook is pending (not flow.request, not message fields in place)",
               "messages handed to pack_message can be packed (cases where DNSMessage.packed raises are skipped and counted)",
               "upstream data arrives only while the upstream connection is open (other events are dropped by the harness)"]

IDS = [1, 2, 3, 0x1234, 0, 0xFFFF]
NAMES = [b"a.example", b"b.example", b"example.com", b"x"]


# ---------------------------------------------------------------- wire builder (generator side)
def _qname(name):
    return b"".join(bytes([len(l)]) + l for l in name.split(b".") if l) + b"\0"


def _question(name, qtype):
    return _qname(name) + struct.pack("!HH", qtype, 1)


def mk_query(mid, name, qtype=1, rd=True, op=0, nq=1):
    return struct.pack("!HHHHHH", mid, (op << 11) | (0x100 if rd else 0), nq, 0, 0, 0) + _question(name, qtype) * nq


def mk_resp(mid, name, qtype=1, rd=True, op=0, rcode=0, nq=1, answers=1):
    flags = 0x8000 | (op << 11) | (0x100 if rd else 0) | 0x80 | rcode
    out = struct.pack("!HHHHHH", mid, flags, nq, answers, 0, 0) + _question(name, qtype) * nq
    for k in range(answers):
        out += _qname(name) + struct.pack("!HHIH", 1, 1, 60, 4) + bytes([10, 0, 0, k + 1])
    return out


def _frame(wire):
    return struct.pack("!H", len(wire)) + wire


def _scenario(rng):
    """logical items: (dir, kind, payload) with dir in c/s; kind msg (a DNS message), raw (stream bytes / datagram as is), close"""
    items, pending, answered = [], [], []
    n_ops = rng.randint(1, 9)

    def newq(mid=None, name=None):
        mid = rng.choice(IDS) if mid is None else mid
        name = rng.choice(NAMES) if name is None else name
        q = dict(id=mid, name=name, qtype=rng.choice([1, 1, 28]), rd=rng.chance(0.8), op=rng.choice([0, 0, 0, 0, 2, 5]),
                 nq=rng.choice([1, 1, 1, 1, 1, 0, 2]))
        pending.append(q)
        items.append(("c", "msg", mk_query(q["id"], q["name"], q["qtype"], q["rd"], q["op"], q["nq"])))

    newq()
    for _ in range(n_ops - 1):
        op = rng.weighted([(5, "q"), (2, "reuse"), (5, "reply"), (1, "dup"), (1, "unsol"), (1, "wrongq"), (1.2, "bad"), (0.6, "close")])
        if op == "q":
            newq()
        elif op == "reuse":
            src = (pending + answered)
            if not src:
                newq()
            else:
                o = rng.choice(src)
                other = [n for n in NAMES if n != o["name"]]
                newq(o["id"], rng.choice(other) if rng.chance(0.8) else o["name"])
        elif op == "reply" and pending:
            q = rng.choice(pending)
            if rng.chance(0.85):
                pending.remove(q)
                answered.append(q)
            items.append(("s", "msg", mk_resp(q["id"], q["name"], q["qtype"], q["rd"], q["op"], rng.choice([0, 0, 0, 3]), q["nq"],
                                              rng.choice([1, 1, 0, 2]))))
        elif op == "dup" and answered:
            q = rng.choice(answered)
            items.append(("s", "msg", mk_resp(q["id"], q["name"], q["qtype"], q["rd"], q["op"], 0, q["nq"], 1)))
        elif op == "unsol":
            used = {q["id"] for q in pending + answered}
            free = [i for i in IDS + [7, 0x4242] if i not in used]
            items.append(("s", "msg", mk_resp(rng.choice(free), rng.choice(NAMES))))
        elif op == "wrongq" and pending:
            q = rng.choice(pending)
            other = [n for n in NAMES if n != q["name"]]
            items.append(("s", "msg", mk_resp(q["id"], rng.choice(other), q["qtype"], q["rd"], q["op"])))
        elif op == "bad":
            d = "c" if rng.chance(0.6) else "s"
            kind = rng.weighted([(3, "zero"), (2, "short"), (2, "garbage"), (2, "trailing"), (2, "trunc"), (1, "one")])
            good = mk_query(rng.choice(IDS), rng.choice(NAMES)) if d == "c" else mk_resp(rng.choice(IDS), rng.choice(NAMES))
            if kind == "zero":
                items.append((d, "raw", b"\0\0" + rng.bytes(rng.randint(0, 3))))
            elif kind == "short":
                items.append((d, "msg", good[:rng.randint(1, 11)]))
            elif kind == "garbage":
                items.append((d, "msg", rng.bytes(rng.randint(12, 30))))
            elif kind == "trailing":
                items.append((d, "msg", good + rng.bytes(rng.randint(1, 3))))
            elif kind == "trunc":
                f = _frame(good)
                items.append((d, "raw", f[:rng.randint(1, len(f) - 1)]))
            else:
                items.append((d, "raw", rng.bytes(1)))
        elif op == "close":
            items.append(("c" if rng.chance(0.6) else "s", "close", b""))
        else:
            newq()
    if rng.chance(0.35):
        items.append(("c" if rng.chance(0.7) else "s", "close", b""))
        if rng.chance(0.3):
            newq()
    return items, pending + answered


def _segment(rng, items, tcp):
    """logical items -> events; TCP runs are re-segmented"""
    events = []
    if not tcp:
        for d, kind, p in items:
            events.append([d + "c"] if kind == "close" else [d, hx(p)])
        return events
    i = 0
    while i < len(items):
        d, kind, p = items[i]
        if kind == "close":
            events.append([d + "c"])
            i += 1
            continue
        chunks = []
        while i < len(items) and items[i][0] == d and items[i][1] != "close":
            chunks.append(_frame(items[i][2]) if items[i][1] == "msg" else items[i][2])
            i += 1
        mode = rng.weighted([(3, "frames"), (2, "whole"), (5, "cuts")])
        stream = b"".join(chunks)
        if mode == "frames":
            parts = chunks
        elif mode == "whole":
            parts = [stream]
        else:
            ends, acc = [], 0
            for ch in chunks:
                acc += len(ch)
                ends.append(acc)
            near = sorted({e + d for e in ends for d in (-2, -1, 1, 2) if 0 < e + d < len(stream)})
            cuts = set()
            for _ in range(rng.randint(1, 4)):
                if near and rng.chance(0.6):
                    cuts.add(rng.choice(near))        # just before / after a message end, i.e. also inside the next length label
                else:
                    cuts.add(rng.randint(1, max(1, len(stream) - 1)))
            cuts = sorted(cuts)
            parts, last = [], 0
            for c in cuts + [len(stream)]:
                if c > last:
                    parts.append(stream[last:c])
                    last = c
        for part in parts:
            events.append([d, hx(part)])
    return events


def _script(rng, qs):
    out = []
    for _ in range(rng.weighted([(4, 0), (2, 1), (2, 3), (1, 6)])):
        a = rng.weighted([(6, "none"), (1.5, "resp"), (0.7, "clear"), (1, "err")])
        if a == "resp":
            q = rng.choice(qs) if qs and rng.chance(0.8) else dict(id=rng.choice(IDS), name=rng.choice(NAMES), qtype=1, rd=True, op=0, nq=1)
            out.append(["resp", hx(mk_resp(q["id"], q["name"], q["qtype"], q["rd"], q["op"], 0, q["nq"], 1))])
        else:
            out.append([a])
    return out


def _one(rng):
    ctcp = rng.chance(0.55)
    items, qs = _scenario(rng)
    return {"ctcp": ctcp, "stcp": ctcp if rng.chance(0.93) else (not ctcp), "addr": rng.chance(0.88),
            "events": _segment(rng, items, ctcp), "script": _script(rng, qs),
            "conn": [rng.chance(0.85) for _ in range(3)]}


def _splits(stream_c, reply, ways):
    """every split of a client TCP stream into [ways] pieces, followed by one upstream reply"""
    n = len(stream_c)
    out = []
    if ways == 2:
        cutsets = [[a] for a in range(1, n)]
    else:
        cutsets = [[a, b] for a in range(1, n) for b in range(a + 1, n)]
    for cs in cutsets:
        ev, last = [], 0
        for c in cs + [n]:
            ev.append(["c", hx(stream_c[last:c])])
            last = c
        if reply:
            ev.append(["s", hx(_frame(reply))])
        out.append({"ctcp": True, "stcp": True, "addr": True, "events": ev, "script": [], "conn": [True]})
    return out


def gen(rng, n, tier):
    out = []
    if tier == "thorough":
        q1, q2, q3 = mk_query(1, b"a.example"), mk_query(2, b"x"), mk_query(1, b"b.example")
        out += _splits(_frame(q1) + _frame(q2), mk_resp(1, b"a.example"), 2)
        out += _splits(_frame(q2) + _frame(q3)[:-3], None, 2)
        out += _splits(_frame(q2) + b"\0\0" + _frame(q2), mk_resp(2, b"x"), 2)
        out += _splits(_frame(q2) + _frame(q2[:7]) + _frame(q2), None, 2)
        out += _splits(_frame(q2) + _frame(mk_query(3, b"x")), mk_resp(3, b"x"), 3)
    for _ in range(n):
        out.append(_res_case(rng) if rng.chance(0.15) else _one(rng))
    return out


def _res_case(rng):
    """regular dns mode end to end: 2-4 client connections, the REAL DnsResolver addon, a fake OS resolver whose lookups
    complete in a generated order"""
    ncl = rng.randint(2, 4)
    qs = []
    shared = (rng.randint(0, 2), rng.choice([1, 28]))
    for _ in range(rng.randint(2, 6)):
        name, qtype = shared if rng.chance(0.6) else (rng.randint(0, 2), rng.choice([1, 28]))
        qs.append(["q", rng.below(ncl), rng.choice([1, 2, 0x1234, 0xFFFF]) if rng.chance(0.7) else rng.randint(0, 65535),
                   name, qtype, rng.chance(0.8)])
    dones = [["done", rng.randint(0, 5)] for _ in range(len(qs) + 1)]
    if rng.chance(0.65):
        steps = qs + dones
    else:
        steps = rng.shuffle(qs + dones)
    outcomes = [rng.weighted([(6, ["ok", rng.randint(0, 2)]), (1, ["nx"]), (1, ["nodata"]), (1, ["fail"])]) for _ in range(4)]
    return {"k": "res", "tcp": rng.chance(0.4), "nclients": ncl, "steps": steps, "outcomes": outcomes}


# ---------------------------------------------------------------- implementation runner
def setup_impl():
    global mdns, mflow, dnslayer, domain_names, Driver, FIX
    from mitmproxy import dns as mdns, flow as mflow
    from mitmproxy.proxy.layers import dns as dnslayer
    from mitmproxy.net.dns import domain_names
    from lib.sansio import Driver
    FIX = None
    FIX = _probe()


def _probe():
    """which of the two proposed repairs the tree under test contains (both False on the unchanged tree)"""
    q1, r1, q1b = mk_query(1, b"a.example"), mk_resp(1, b"a.example"), mk_query(1, b"b.example")
    base = {"ctcp": False, "stcp": False, "addr": True, "script": [], "conn": [True]}
    t = _drive(dict(base, events=[["c", hx(q1)], ["s", hx(mk_resp(2, b"x"))]]), None)["trace"]
    drop = not any(e[0] == 1 for e in t)
    t = _drive(dict(base, events=[["c", hx(q1)], ["s", hx(r1)], ["c", hx(q1b)]]), None)["trace"]
    fresh = not any(e[0] == 2 and e[1] == "hook" and e[2] == "dns_response" for e in t)
    return [fresh, drop]


class _Unpackable(Exception):
    pass


def _rec(msg):
    try:
        qs = b"".join(domain_names.pack(q.name) + struct.pack("!HH", q.type, q.class_) for q in msg.questions)
        p = msg.packed
    except Exception:
        raise _Unpackable()
    return (msg.id, bool(msg.query), msg.op_code, bool(msg.recursion_desired), len(msg.questions), hx(qs), hx(p))


def _drive(case, events):
    """run the real layer; events None = the case's own events.  Returns pool/table/trace/effective events."""
    pool, pool_ix, table = [], {}, []
    addon_objs = set()
    keep = []           # keep addon-made objects alive so that id() stays unique

    def ix(msg):
        if msg is None:
            return None
        r = _rec(msg)
        if r not in pool_ix:
            pool_ix[r] = len(pool)
            pool.append(r)
        return pool_ix[r]

    orig = mdns.DNSMessage.unpack.__func__

    def rec_unpack(cls, buffer, timestamp=None):
        key = hx(bytes(buffer))
        try:
            m = orig(cls, buffer, timestamp)
        except struct.error:
            table.append([key, "S"])
            raise
        except Exception:
            table.append([key, "O"])
            raise
        table.append([key, ix(m)])
        return m

    script = [list(a) for a in case["script"]]
    script_ix = []
    for a in script:
        if a[0] == "resp":
            script_ix.append(["resp", ix(orig(mdns.DNSMessage, unhx(a[1]), None))])
        else:
            script_ix.append([a[0]])
    pos = [0]
    snaps = []

    def policy(hook, drv):
        f = hook.flow
        snap = {"req": ix(getattr(f, "request", None)), "resp": ix(f.response), "err": f.error is not None,
                "resp_addon": f.response is not None and id(f.response) in addon_objs}
        if pos[0] < len(script):
            a = script[pos[0]]
            pos[0] += 1
            if a[0] == "resp":
                m = orig(mdns.DNSMessage, unhx(a[1]), None)
                keep.append(m)
                addon_objs.add(id(m))
                f.response = m
            elif a[0] == "clear":
                f.response = None
            elif a[0] == "err":
                f.error = mflow.Error("set by addon")
            snap["act"] = a[0]
        else:
            snap["act"] = "none"
        snap["sent_addon"] = f.response is not None and id(f.response) in addon_objs
        snaps.append(snap)

    conn = list(case["conn"])

    def connect(c, drv):
        ok = conn.pop(0) if conn else False
        return None if ok else "connection refused"

    def factory(ctx):
        ctx.client.transport_protocol = "tcp" if case["ctcp"] else "udp"
        ctx.server.transport_protocol = "tcp" if case["stcp"] else "udp"
        if case["addr"]:
            ctx.server.address = ("8.8.8.8", 53)
        return dnslayer.DNSLayer(ctx)

    d = Driver(factory, policy=policy, connect=connect)
    eff, marks = [], []
    mdns.DNSMessage.unpack = classmethod(rec_unpack)
    try:
        d.start()
        for e in (case["events"] if events is None else events):
            if e[0] in ("s", "sc") and not (len(d.conns) > 1 and d.ctx.server.connected):
                continue
            if d.crashed is not None:
                break
            marks.append(len(d.trace))
            eff.append(e)
            if e[0] == "c":
                d.data(0, unhx(e[1]))
            elif e[0] == "s":
                d.data(1, unhx(e[1]))
            elif e[0] == "cc":
                d.close(0)
            else:
                d.close(1)
    finally:
        mdns.DNSMessage.unpack = classmethod(orig)
    trace, hk, ev = [], 0, -1
    for k, t in enumerate(d.trace):
        while ev + 1 < len(marks) and marks[ev + 1] <= k:
            ev += 1
        if t[0] == "hook":
            s = snaps[hk]
            hk += 1
            trace.append([ev, "hook", t[1], t[2], s["req"], s["resp"], s["err"], s["resp_addon"], s["sent_addon"], s["act"]])
        elif t[0] == "open":
            trace.append([ev, "open"])
        elif t[0] == "send":
            trace.append([ev, "send", t[1], t[2]])
        elif t[0] == "close":
            trace.append([ev, "close", t[1]])
        elif t[0] == "crash":
            trace.append([ev, "crash", t[1]])
        else:
            trace.append([ev, "weird", str(t)])
    lives = [[i, bool(f.live)] for i, f in enumerate(d.flows)]
    return {"pool": [list(r) for r in pool], "table": table, "script": script_ix, "events": eff, "trace": trace, "lives": lives}


def _merge(events):
    out = []
    for e in events:
        if out and e[0] in ("c", "s") and out[-1][0] == e[0]:
            out[-1] = [e[0], out[-1][1] + e[1]]
        else:
            out.append(list(e))
    return out


def _strip(trace):
    return [t[1:4] if t[1] in ("send", "close", "hook") else t[1:2] for t in trace]


def _bad_frames(case, events):
    """the messages of the two byte streams as the REFERENCE de-framer cuts them (independent of the layer's framing and of
    the segmentation) that the real DNSMessage.unpack rejects"""
    bad = []
    for d in ("c", "s"):
        chunks = [unhx(e[1]) for e in events if e[0] == d]
        frames = _ref_frames(b"".join(chunks))[0] if case["ctcp"] else chunks
        for f in frames:
            try:
                mdns.DNSMessage.unpack(f)
            except Exception:
                bad.append(hx(f))
    return sorted(set(bad))


NAMES_E2E = ["shared.example.com", "a.example", "x"]


async def _res_main(case):
    import asyncio, socket
    from mitmproxy.addons import dns_resolver
    from mitmproxy.connection import Client, ConnectionState
    from mitmproxy.proxy import commands, context, events
    from mitmproxy.proxy.mode_specs import ProxyMode
    from mitmproxy.test import taddons
    pool, pool_ix, table = [], {}, []

    def ix(msg):
        if msg is None:
            return None
        r = _rec(msg)
        if r not in pool_ix:
            pool_ix[r] = len(pool)
            pool.append(r)
        return pool_ix[r]

    orig = mdns.DNSMessage.unpack.__func__

    def rec_unpack(cls, buffer, timestamp=None):
        key = hx(bytes(buffer))
        try:
            m = orig(cls, buffer, timestamp)
        except struct.error:
            table.append([key, "S"])
            raise
        except Exception:
            table.append([key, "O"])
            raise
        table.append([key, ix(m)])
        return m

    loop = asyncio.get_running_loop()

    class Fake:
        def __init__(self):
            self.pending = []
            self.made = 0

        async def _lk(self, name):
            fut = loop.create_future()
            self.pending.append((fut, self.made))
            self.made += 1
            return await fut

        lookup_ipv4 = lookup_ipv6 = lookup_ip = _lk

    fake = Fake()
    dr = dns_resolver.DnsResolver()

    async def settle():
        for _ in range(12):
            await asyncio.sleep(0)

    class Conn:
        def __init__(self, i, opts):
            self.client = Client(peername=("127.0.0.1", 40000 + i), sockname=("127.0.0.1", 53),
                                 transport_protocol="tcp" if case["tcp"] else "udp", proxy_mode=ProxyMode.parse("dns"),
                                 state=ConnectionState.OPEN, timestamp_start=0)
            self.layer = dnslayer.DNSLayer(context.Context(self.client, opts))
            self.trace, self.events, self.timeline, self.script, self.flows = [], [], [], [], []
            self.q, self.busy, self.crashed = [], False, False
            self.feed(events.Start())

        def ford(self, f):
            for k, g in enumerate(self.flows):
                if g is f:
                    return k
            self.flows.append(f)
            return len(self.flows) - 1

        def feed(self, ev):
            self.q.append(ev)
            if self.busy or self.crashed:
                return
            self.busy = True
            try:
                while self.q and not self.crashed:
                    e = self.q.pop(0)
                    try:
                        cmds = list(self.layer.handle_event(e))
                    except Exception as exc:
                        self.crashed = True
                        self.trace.append(["crash", type(exc).__name__])
                        break
                    for c in cmds:
                        self.execute(c)
            finally:
                self.busy = False

        def execute(self, c):
            if isinstance(c, commands.SendData):
                to_client = c.connection is self.client
                self.trace.append(["send", 0 if to_client else 1, hx(bytes(c.data))])
                if to_client:
                    self.timeline.append(["r", hx(bytes(c.data))])
            elif isinstance(c, commands.StartHook):
                f = c.flow
                self.trace.append(["hook", c.name, self.ford(f), ix(getattr(f, "request", None)), ix(f.response), f.error is not None])
                asyncio.ensure_future(self.hook_task(c))
            elif isinstance(c, commands.OpenConnection):
                self.trace.append(["open"])
                self.q.append(events.OpenConnectionCompleted(c, "connection refused"))
            elif isinstance(c, commands.CloseConnection):
                self.trace.append(["close", 0 if c.connection is self.client else 1])
            elif isinstance(c, commands.Log):
                pass
            else:
                self.trace.append(["weird", type(c).__name__])

        async def hook_task(self, c):
            f = c.flow
            act = ["none"]
            if c.name == "dns_request":
                had_resp, had_err = f.response is not None, f.error is not None
                try:
                    await dr.dns_request(f)
                except Exception as exc:
                    self.crashed = True
                    self.trace.append(["crash", type(exc).__name__])
                    return
                if f.response is not None and not had_resp:
                    r = f.response
                    try:
                        qsb = b"".join(domain_names.pack(q.name) + struct.pack("!HH", q.type, q.class_) for q in r.questions)
                        an = r.packed[12 + len(qsb):]
                    except Exception:
                        raise _Unpackable()
                    act = ["resolve", r.response_code, len(r.answers), hx(an)]
                elif f.error is not None and not had_err:
                    act = ["err"]
            self.script.append(act)
            self.feed(events.HookCompleted(c))

    def complete(idx):
        fut, no = fake.pending.pop(idx % len(fake.pending))
        oc = case["outcomes"][no % len(case["outcomes"])]
        if oc[0] == "ok":
            fut.set_result(["192.0.2.%d" % (k + 1) for k in range(oc[1])])
        elif oc[0] == "nx":
            fut.set_exception(socket.gaierror(socket.EAI_NONAME, "nx"))
        elif oc[0] == "nodata":
            fut.set_exception(socket.gaierror(socket.EAI_NODATA, "nodata"))
        else:
            fut.set_exception(socket.gaierror(socket.EAI_FAIL, "fail"))

    mdns.DNSMessage.unpack = classmethod(rec_unpack)
    try:
        with taddons.context(dr) as tctx:
            tctx.options.dns_name_servers = ["192.0.2.53"]
            dr.resolver = lambda: fake
            conns = [Conn(i, tctx.options) for i in range(case["nclients"])]
            for st in case["steps"]:
                if st[0] == "q":
                    cn = conns[st[1]]
                    wire = mk_query(st[2], NAMES_E2E[st[3]].encode(), st[4], st[5])
                    if st[4] == 28:
                        pass
                    data = _frame(wire) if case["tcp"] else wire
                    cn.timeline.append(["q", hx(wire)])
                    cn.events.append(["c", hx(data)])
                    cn.feed(events.DataReceived(cn.client, data))
                elif fake.pending:
                    complete(st[1])
                await settle()
            guard = 0
            while fake.pending and guard < 50:
                complete(0)
                await settle()
                guard += 1
            await settle()
    finally:
        mdns.DNSMessage.unpack = classmethod(orig)
    return {"pool": [list(r) for r in pool], "table": table, "fix": FIX,
            "clients": [{"events": c.events, "trace": c.trace, "script": c.script, "timeline": c.timeline,
                         "lives": [[k, bool(f.live)] for k, f in enumerate(c.flows)]} for c in conns]}


def run_impl(case):
    if case.get("k") == "res":
        import asyncio
        try:
            return asyncio.run(_res_main(case))
        except _Unpackable:
            return {"skip": "unpackable"}
    try:
        obs = _drive(case, None)
        obs["fix"] = FIX
        obs["bad_frames"] = _bad_frames(case, obs["events"])
        if case["ctcp"]:
            merged = _merge(obs["events"])
            if merged != obs["events"]:
                m = _drive(case, merged)
                obs["merged_trace"] = _strip(m["trace"])
                obs["merged_hooks"] = [[m["pool"][t[4]] if t[4] is not None else None,
                                        m["pool"][t[5]] if t[5] is not None else None] for t in m["trace"] if t[1] == "hook"]
        return obs
    except _Unpackable:
        return {"skip": "unpackable"}


# ---------------------------------------------------------------- Coq printer
def _cmsg(r):
    return f"(mkMsg {cN(r[0])} {cbool(r[1])} {cN(r[2])} {cbool(r[3])} {cN(r[4])} {cbytes(unhx(r[5]))} {cbytes(unhx(r[6]))})"


_HK = {"dns_request": "HReq", "dns_response": "HResp", "dns_error": "HErr"}


def _ctable(obs):
    tb = []
    for k, r in obs["table"]:
        tr = "TStruct" if r == "S" else "TOther" if r == "O" else f"(TOk {cnat(r)})"
        tb.append(f"({cbytes(unhx(k))}, {tr})")
    return clist(tb, "(bytes * tres)")


def _cact(a):
    if a[0] == "resolve":
        return f"(IResolve {cN(a[1])} {cN(a[2])} {cbytes(unhx(a[3]))})"
    return {"none": "INone", "clear": "IClearResp", "err": "ISetErr"}.get(a[0]) or f"(ISetResp {cnat(a[1])})"


def _coq_res(case, obs):
    fix = obs["fix"]
    cfg = f"(mkCfg {cbool(case['tcp'])} {cbool(case['tcp'])} false {cbool(fix[0])} {cbool(fix[1])})"
    pool = clist((_cmsg(r) for r in obs["pool"]), "message")
    table = _ctable(obs)
    on = lambda v: copt(v, cnat, "nat")
    ls = []
    for c in obs["clients"]:
        sc = clist((_cact(a) for a in c["script"]), "iact")
        events = clist((f"(EData true {cbytes(unhx(e[1]))})" for e in c["events"]), "event")
        tr = []
        for t in c["trace"]:
            if t[0] == "hook":
                tr.append(f"(IHook {_HK[t[1]]} {cnat(t[2])} {on(t[3])} {on(t[4])} {cbool(t[5])})")
            elif t[0] == "open":
                tr.append("IOpen")
            elif t[0] == "send":
                tr.append(f"(ISend {cbool(t[1] == 0)} {cbytes(unhx(t[2]))})")
            elif t[0] == "close":
                tr.append(f"(IClose {cbool(t[1] == 0)})")
            else:
                tr.append("ICrash")
        lives = clist((f"({cnat(i)}, {cbool(b)})" for i, b in c["lives"]), "(nat * bool)")
        ls.append(f"(mkCase {cfg} {pool} {table} {sc} (@nil bool) {events} {clist(tr, 'iout')} {lives})")
    return f"Many {clist(ls, 'lcase')}"


def coq_case(case, obs):
    if obs.get("skip"):
        return None
    if case.get("k") == "res":
        return _coq_res(case, obs)
    fix = obs["fix"]
    cfg = f"(mkCfg {cbool(case['ctcp'])} {cbool(case['stcp'])} {cbool(case['addr'])} {cbool(fix[0])} {cbool(fix[1])})"
    pool = clist((_cmsg(r) for r in obs["pool"]), "message")
    tb = []
    for k, r in obs["table"]:
        tr = "TStruct" if r == "S" else "TOther" if r == "O" else f"(TOk {cnat(r)})"
        tb.append(f"({cbytes(unhx(k))}, {tr})")
    table = clist(tb, "(bytes * tres)")
    sc = clist((_cact(a) for a in obs["script"]), "iact")
    conn = clist((cbool(b) for b in case["conn"]), "bool")
    evs = []
    for e in obs["events"]:
        if e[0] in ("c", "s"):
            evs.append(f"(EData {cbool(e[0] == 'c')} {cbytes(unhx(e[1]))})")
        else:
            evs.append(f"(EClose {cbool(e[0] == 'cc')})")
    events = clist(evs, "event")
    tr = []
    on = lambda v: copt(v, cnat, "nat")
    for t in obs["trace"]:
        if t[1] == "hook":
            tr.append(f"(IHook {_HK[t[2]]} {cnat(t[3])} {on(t[4])} {on(t[5])} {cbool(t[6])})")
        elif t[1] == "open":
            tr.append("IOpen")
        elif t[1] == "send":
            tr.append(f"(ISend {cbool(t[2] == 0)} {cbytes(unhx(t[3]))})")
        elif t[1] == "close":
            tr.append(f"(IClose {cbool(t[2] == 0)})")
        else:
            tr.append("ICrash")
    trace = clist(tr, "iout")
    lives = clist((f"({cnat(i)}, {cbool(b)})" for i, b in obs["lives"]), "(nat * bool)")
    return f"One (mkCase {cfg} {pool} {table} {sc} {conn} {events} {trace} {lives})"


# ---------------------------------------------------------------- oracle (no model, no mitmproxy parser)
def ref_parse(wire):
    """independent minimal RFC 1035 reader: (id, flags, qd, an, ns, ar, question section bytes, rest) or None"""
    if len(wire) < 12:
        return None
    mid, flags, qd, an, ns, ar = struct.unpack("!HHHHHH", wire[:12])
    off = 12
    for _ in range(qd):
        while True:
            if off >= len(wire):
                return None
            l = wire[off]
            if l == 0:
                off += 1
                break
            if l >= 64:
                return None       # compression pointers are not produced by the generator nor by DNSMessage.packed
            off += 1 + l
        off += 4
        if off > len(wire):
            return None
    return {"id": mid, "flags": flags, "qd": qd, "an": an, "ns": ns, "ar": ar, "qs": wire[12:off], "rest": wire[off:]}


def _ref_frames(buf):
    """reference de-framer: (complete frames before the first zero length, remaining bytes, zero-length seen)"""
    frames = []
    while len(buf) >= 2:
        n = (buf[0] << 8) | buf[1]
        if n == 0:
            return frames, buf, True
        if len(buf) - 2 < n:
            break
        frames.append(buf[2:2 + n])
        buf = buf[2 + n:]
    return frames, buf, False


def _oracle_res(case, obs):
    """every reply a client connection receives carries the id and the question section of a query THAT connection sent and
    that is not answered yet; every query is answered once all lookups have completed"""
    v, seen = [], set()

    def add(key, what):
        if key not in seen:
            seen.add(key)
            v.append({"key": key, "what": what})

    for i, c in enumerate(obs["clients"]):
        outstanding = []
        for t in c["timeline"]:
            w = unhx(t[1])
            if t[0] == "q":
                p = ref_parse(w)
                outstanding.append((p["id"], p["qs"]))
                continue
            if case["tcp"]:
                if len(w) < 2 or ((w[0] << 8) | w[1]) != len(w) - 2:
                    add("reply-misframed", f"connection {i}: bytes sent to the TCP client are not one length-prefixed message")
                    continue
                w = w[2:]
            p = ref_parse(w)
            if p is None or not (p["flags"] & 0x8000):
                add("reply-unparseable", f"connection {i}: what was sent to the client is not a DNS response")
                continue
            if (p["id"], p["qs"]) in outstanding:
                outstanding.remove((p["id"], p["qs"]))
            else:
                add("reply-for-other-query",
                    f"connection {i} received a reply with id {p['id']} question {hx(p['qs'])}; its unanswered queries are "
                    f"{[(a, hx(b)) for a, b in outstanding]}")
        crashed = any(t[0] == "crash" for t in c["trace"])
        if crashed:
            add("layer-crash", f"connection {i}: an exception escaped the layer or the resolver addon")
        elif outstanding:
            add("query-unanswered", f"connection {i}: queries {[(a, hx(b)) for a, b in outstanding]} got no reply although every "
                                    f"lookup has completed")
        if any(t[0] == "weird" for t in c["trace"]):
            add("unexpected-command", f"connection {i}")
    return v


def oracle(case, obs):
    if obs.get("skip"):
        return []
    if case.get("k") == "res":
        return _oracle_res(case, obs)
    v, seen = [], set()

    def add(key, what):
        if key not in seen:
            seen.add(key)
            v.append({"key": key, "what": what})

    tcp = case["ctcp"]
    pool = obs["pool"]
    trace = obs["trace"]
    by_ev = {}
    for t in trace:
        by_ev.setdefault(t[0], []).append(t)
    cq = []                       # (id, question bytes) of every client message received so far
    bufs = {"c": b"", "s": b""}
    alive = True
    bad = set(obs.get("bad_frames", []))
    had_error = False             # the reference de-framer met a zero length or a message the DNS codec rejects
    for n, e in enumerate(obs["events"]):
        here = by_ev.get(n, [])
        if e[0] in ("c", "s"):
            data = unhx(e[1])
            if tcp:
                frames, rest, zero = _ref_frames(bufs[e[0]] + data)
                bufs[e[0]] = rest
            else:
                frames, zero = [data], False
            if e[0] == "c":
                for f in frames:
                    p = ref_parse(f)
                    if p:
                        cq.append((p["id"], p["qs"]))
                    elif len(f) >= 2:
                        cq.append(((f[0] << 8) | f[1], None))
            closed_here = any(t[1] == "close" and t[2] == (0 if e[0] == "c" else 1) for t in here)
            if alive and zero:
                had_error = True
                if not closed_here and not any(t[1] == "crash" for t in here):
                    add("zero-length-not-closed", f"event {n}: a zero length prefix from {e[0]} did not close that connection")
            if alive and any(ref_parse(f) is None or hx(f) in bad for f in frames):
                had_error = True
            if alive and not had_error and (closed_here or any(t[1] == "crash" for t in here)):
                add("closed-well-formed-stream", f"event {n}: the layer closed connection {e[0]} (or crashed) although every complete "
                                                 f"message received so far is well-formed and no length prefix is zero")
            # every complete frame (datagram) of a well-formed client stream is extracted when it arrives
            if alive and not had_error and e[0] == "c" and not any(t[1] == "crash" for t in here):
                got = sum(1 for t in here if t[1] == "hook" and t[2] == "dns_request")
                if got != len(frames):
                    add("frames-not-extracted", f"event {n}: the client data completes {len(frames)} message(s) but {got} dns_request "
                                                f"hook(s) fired")
        # walk the commands of this event
        for k, t in enumerate(here):
            if t[1] == "hook":
                req = pool[t[4]] if t[4] is not None else None
                resp = pool[t[5]] if t[5] is not None else None
                if req is None:
                    add("unsolicited-reply", f"event {n}: {t[2]} hook for a flow without request (upstream message id "
                                             f"{resp[0] if resp else '?'} matches no query); it is then sent to the client")
                elif t[2] == "dns_response" and resp is not None and not t[7]:
                    if resp[0] != req[0]:
                        add("flow-id-mismatch", f"event {n}: dns_response flow has request id {req[0]} and response id {resp[0]}")
                    elif resp[5] != req[5]:
                        if e[0] != "s":
                            add("stale-response-replayed",
                                f"event {n}: client query id {req[0]} question {req[5]} is answered from the flow's earlier "
                                f"response (question {resp[5]}) without asking upstream")
                        elif (resp[0], unhx(resp[5])) in cq:
                            add("dup-id-request-overwritten",
                                f"event {n}: reply id {resp[0]} question {resp[5]} is reported on a flow whose request was "
                                f"overwritten by a later query with the same id (question {req[5]})")
                        else:
                            add("upstream-question-mismatch",
                                f"event {n}: upstream reply id {resp[0]} carries question {resp[5]}, no client query with that id "
                                f"asked it; forwarded to the client")
                if t[2] == "dns_error":
                    nxt = here[k + 1] if k + 1 < len(here) else None
                    ok = False
                    if nxt and nxt[1] == "send" and nxt[2] == 0 and req is not None:
                        w = unhx(nxt[3])
                        if tcp:
                            w = w[2:] if len(w) >= 2 and ((w[0] << 8) | w[1]) == len(w) - 2 else b""
                        p = ref_parse(w)
                        ok = bool(p) and p["id"] == req[0] and p["flags"] == (0x8000 | (req[2] << 11) | (0x100 if req[3] else 0) | 2) \
                            and p["qd"] == req[4] and hx(p["qs"]) == req[5] and (p["an"], p["ns"], p["ar"]) == (0, 0, 0) and p["rest"] == b""
                    if req is not None and not ok:
                        add("servfail-fields", f"event {n}: dns_error for request id {req[0]} not followed by a SERVFAIL keeping "
                                               f"id/opcode/RD/questions")
            elif t[1] == "send" and t[2] == 0:
                w = unhx(t[3])
                if tcp:
                    if len(w) < 2 or ((w[0] << 8) | w[1]) != len(w) - 2:
                        add("reply-misframed", f"event {n}: bytes sent to the TCP client are not one length-prefixed message")
                        continue
                    w = w[2:]
                prev = here[k - 1] if k > 0 else None
                if not prev or prev[1] != "hook" or prev[2] == "dns_request":
                    add("reply-without-hook", f"event {n}: bytes sent to the client without a response/error hook")
                    continue
                if prev[8]:
                    continue                      # message made by the addon: outside the statement
                p = ref_parse(w)
                if p is None:
                    add("reply-unparseable", f"event {n}: reply sent to the client is not a DNS message")
                    continue
                ids = {i for i, _ in cq}
                if p["id"] not in ids:
                    if prev[4] is None:
                        add("unsolicited-reply", f"event {n}: reply id {p['id']} sent to the client, which never sent that id")
                    else:
                        add("reply-id-unknown", f"event {n}: reply id {p['id']} sent to the client, which never sent that id")
                elif (p["id"], p["qs"]) not in cq and prev[2] == "dns_response":
                    if e[0] == "s":
                        add("upstream-question-mismatch",
                            f"event {n}: upstream reply id {p['id']} carries question {hx(p['qs'])}, no client query with that id "
                            f"asked it; forwarded to the client")
                    elif e[0] == "c" and not prev[7]:
                        add("stale-response-replayed",
                            f"event {n}: client query id {p['id']} is answered from the flow's earlier response (question "
                            f"{hx(p['qs'])}, never asked with that id) without asking upstream")
                    else:
                        add("reply-question-unknown", f"event {n}: reply id {p['id']} question {hx(p['qs'])} was never asked")
            elif t[1] == "crash":
                add("layer-crash", f"event {n}: {t[2]} escaped the layer")
            elif t[1] == "weird":
                add("unexpected-command", f"event {n}: {t[2]}")
        if any(t[1] in ("close", "crash") for t in here) or e[0] in ("cc", "sc"):
            alive = False
    # segmentation clause: merged runs must give the same commands and the same flows
    if "merged_trace" in obs:
        a = _strip(trace)
        hooks = [[pool[t[4]] if t[4] is not None else None, pool[t[5]] if t[5] is not None else None] for t in trace if t[1] == "hook"]
        if a != obs["merged_trace"] or hooks != obs["merged_hooks"]:
            if had_error or bad:
                add("tcp-error-discards-earlier-frames",
                    "a malformed frame arriving in the same segment as earlier complete frames discards those frames; delivered in "
                    "separate segments they are handled before the connection is closed")
            else:
                add("segmentation-dependent", "the same TCP byte streams, segmented differently, produce different commands")
    return v


def nontrivial(case, obs):
    if obs.get("skip"):
        return False
    if case.get("k") == "res":
        return any(t[0] == "hook" for c in obs["clients"] for t in c["trace"])
    return any(t[1] == "hook" for t in obs["trace"])


def classify(case, obs):
    if obs.get("skip"):
        return ["skip:" + obs["skip"]]
    if case.get("k") == "res":
        tags = ["e2e-resolver", "e2e-tcp" if case["tcp"] else "e2e-udp", f"e2e-clients:{case['nclients']}"]
        qs = [s for s in case["steps"] if s[0] == "q"]
        if len({(s[1], s[3], s[4]) for s in qs}) > len({(s[3], s[4]) for s in qs}):
            tags.append("e2e-same-name-type-from-two-clients")
        if len({s[2] for s in qs}) < len(qs):
            tags.append("e2e-equal-ids")
        acts = [a[0] for c in obs["clients"] for a in c["script"]]
        if "resolve" in acts:
            tags.append("e2e-resolved")
        if any(a[0] == "resolve" and a[1] != 0 for c in obs["clients"] for a in c["script"]):
            tags.append("e2e-error-rcode")
        return tags
    tags = ["tcp" if case["ctcp"] else "udp", f"fix={int(obs['fix'][0])}{int(obs['fix'][1])}"]
    if case["ctcp"] != case["stcp"]:
        tags.append("mixed-transport")
    if not case["addr"]:
        tags.append("no-upstream")
    tr = obs["trace"]
    kinds = {t[1] for t in tr}
    for h in ("dns_request", "dns_response", "dns_error"):
        if any(t[1] == "hook" and t[2] == h for t in tr):
            tags.append(h)
    if any(t[1] == "hook" and t[4] is None for t in tr):
        tags.append("unsolicited")
    if any(t[1] == "hook" and t[9] != "none" for t in tr):
        tags.append("addon-acts")
    if "open" in kinds:
        tags.append("open")
    if "close" in kinds:
        tags.append("layer-closes")
    if "crash" in kinds:
        tags.append("crash")
    if any(r == "S" for _, r in obs["table"]):
        tags.append("unpack-error")
    if "merged_trace" in obs:
        tags.append("resegmented")
    if len(obs["events"]) < len(case["events"]):
        tags.append("events-dropped")
    n = sum(1 for t in tr if t[1] == "hook")
    tags.append("hooks:" + ("0" if n == 0 else "1-3" if n <= 3 else "4+"))
    return tags
