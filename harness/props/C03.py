"""C03 -- Every HTTP flow has an ordered hook lifecycle and exactly one outcome
(mitmproxy/proxy/layers/http/__init__.py HttpStream + HttpLayer routing, _http1.py Http1Server/Http1Client)."""
import json
import re

from lib.coqterm import cbool, cbytes, clist, cN

ID = "C03"
QUICK_N = 1500
THOROUGH_N = 12000
SHARD = 150
RULE = ("A case is a schedule of operations on one client connection of a real HttpLayer(regular mode) driven by "
        "harness/lib/sansio.py: client/server data segments made of HTTP/1 tokens (heads, body pieces, chunk ends, malformed "
        "heads / chunk headers, partial heads), peer closes, and completions of deferred hooks / connection attempts; plus an "
        "addon policy per (flow, hook) in {pass, kill, set response, stream, stream+set response} x {complete now, defer}, a "
        "connect outcome per server connection {ok, fail, defer} and options (body_size_limit, stream_large_bodies, "
        "validate_inbound_headers, store_streamed_bodies). 70%: a base exchange sequence (1-3 requests, all framings, WebSocket/other upgrade attempts answered by 101 or refused with and without Upgrade headers) cut by "
        "a fault at a generated position; 30%: random token soup. Thorough additionally enumerates every fault position x "
        "fault kind x single-hook policy for a fixed list of base exchanges. Non-trivial = a fault, a deferred completion or a "
        "non-pass action is present and at least one hook fired; distinct by canonical JSON.")
TRUSTED = ["Coq 8.16.1 kernel; vm_compute for case evaluation",
           "hand model of HttpStream/HttpLayer/Http1Server/Http1Client control flow (coq/Model/HttpStream.v), tied by exact comparison "
           "of the command trace (hooks with flow ordinals, opens, closes, sent bytes), flow.live/response/error and connection states",
           "HTTP/1 byte parsing/assembly is abstracted to tokens: the harness renders tokens to bytes and states what the proxy forwards "
           "for a head; the real parser runs on the bytes, so a wrong rendering shows as a disagreement (parsing itself is C01)",
           "harness/lib/sansio.py plays proxy/server.py (commands executed in order, completions FIFO)"]
ASSUMPTIONS = ["regular proxy mode, HTTP/1 on both sides, plain http upstream, no upstream proxy, connection_strategy=lazy",
               "events are delivered only on connections that can still be read (server.py cancels the reader after closing)",
               "a failed connection attempt sets connection.error like server.py does",
               "CONNECT tunnels and 101 upgrades end the modelled run (child layers are other properties)",
               "HTTP trailers, HTTP/2, HTTP/3 connection layers are not part of this model"]

HOSTS = [b"a.test", b"b.test"]
HTTP_HOOKS = ("requestheaders", "request", "responseheaders", "response", "error", "http_connect", "http_connect_error")
SETRESP_HEAD = b"HTTP/1.1 200 OK\r\ncontent-length: 2\r\n\r\n"
SETRESP_BODY = b"hi"
ROUNDS = 3


# ---------------------------------------------------------------- rendering tokens to bytes
def _fr_headers(f):
    if f[0] == "cl":
        return b"Content-Length: %d\r\n" % f[1]
    if f[0] == "ch":
        return b"Transfer-Encoding: chunked\r\n"
    return b""


def req_head(t):
    """-> (bytes received from the client, bytes the proxy forwards upstream)"""
    host = HOSTS[t.get("host", 0)]
    m = t["m"].encode()
    ver = b"HTTP/1.0" if t.get("v10") else b"HTTP/1.1"
    if t["t"] == "HR":
        fr = b"Content-Length: abc\r\n"
    else:
        fr = _fr_headers(t["f"])
    extra = b""
    if t.get("inv"):
        extra += b"X@y: 1\r\n"
    if t.get("close"):
        extra += b"Connection: close\r\n"
    if t.get("ws"):
        extra += b"Upgrade: websocket\r\nSec-WebSocket-Version: 13\r\n"
    exp = b"Expect: 100-continue\r\n" if t.get("exp") else b""
    if m == b"CONNECT":
        target = host + b":443"
        line_in = line_out = m + b" " + target + b" " + ver + b"\r\n"
        hosth = b"Host: " + target + b"\r\n"
    else:
        form = t.get("form", "abs")
        line_out = m + b" /p " + ver + b"\r\n"
        line_in = (m + b" http://" + host + b"/p " + ver + b"\r\n") if form == "abs" else line_out
        hosth = b"" if form == "nohost" else b"Host: " + host + b"\r\n"
    raw = line_in + hosth + fr + extra + exp + b"\r\n"
    fwd = line_out + hosth + fr + extra + b"\r\n"
    return raw, fwd


def resp_head(t):
    st = t["st"]
    reason = {200: b"OK", 204: b"No Content", 304: b"Not Modified", 101: b"Switching Protocols", 500: b"Internal Server Error",
              426: b"Upgrade Required", 400: b"Bad Request"}[st]
    extra = b""
    if t.get("up"):
        extra += b"Upgrade: " + t["up"].encode() + b"\r\n"
    if t.get("inv"):
        extra += b"X@y: 1\r\n"
    if t.get("close"):
        extra += b"Connection: close\r\n"
    return b"HTTP/1.1 %d %s\r\n" % (st, reason) + _fr_headers(t["f"]) + extra + b"\r\n"


def render(tokens, st):
    """st: dict with key 'ch' (currently inside a chunked body) for this direction; returns bytes"""
    out = b""
    for t in tokens:
        k = t["t"]
        if k in ("H", "HR"):
            if "st" in t:
                out += resp_head(t)
            else:
                out += req_head(t)[0]
            st["ch"] = (k == "H" and t["f"][0] == "ch")
        elif k == "HB":
            out += b"GARBAGE\r\n\r\n"
            st["ch"] = False
        elif k == "P":
            out += b"GET /x HT" if not st.get("ch") else b"5"
        elif k == "D":
            d = bytes.fromhex(t["d"])
            out += (b"%x\r\n%s\r\n" % (len(d), d)) if st.get("ch") else d
        elif k == "E":
            out += b"0\r\n\r\n"
            st["ch"] = False
        elif k == "X":
            out += b"zz\r\n"
        else:
            raise ValueError(k)
    return out


# ---------------------------------------------------------------- implementation runner
def setup_impl():
    global Driver, DEFER, http_layer, HTTPMode, mhttp, CS
    from lib.sansio import Driver, DEFER
    from mitmproxy.proxy.layers import http as http_layer
    from mitmproxy.proxy.layers.http import HTTPMode
    from mitmproxy import http as mhttp
    from mitmproxy.connection import ConnectionState as CS


_DRV = []


def _driver_cls():
    """Driver that also remembers where an escaping exception was raised (function name), for finding families"""
    if _DRV:
        return _DRV[0]
    import traceback

    class Drv(Driver):
        site = None

        def event(self, ev):
            self._q.append(ev)
            if self._busy:
                return
            self._busy = True
            try:
                while self._q and self.crashed is None:
                    e = self._q.popleft()
                    try:
                        # like server.py's server_event: every command is executed as soon as it is yielded, so
                        # connection-state changes are visible to the code after the yield and commands that
                        # precede an escaping exception have been executed
                        for c in self.layer.handle_event(e):
                            self._execute(c)
                    except Exception as exc:
                        tb = traceback.extract_tb(exc.__traceback__)
                        names = [f.name for f in tb if "layers/http" in f.filename]
                        self.site = names[-1] if names else tb[-1].name
                        self.crashed = (type(exc).__name__, str(exc)[:200])
                        self.trace.append(("crash", type(exc).__name__))
                        break
            finally:
                self._busy = False
    _DRV.append(Drv)
    return Drv


_ERRPAGE = re.compile(rb"^HTTP/1\.1 (\d+) [^\r]*\r\nServer: mitmproxy [^\r]*\r\nConnection: close\r\nContent-Type: text/html\r\n")


def run_impl(case):
    o = case.get("opts", {})
    overrides = {"connection_strategy": "lazy", "validate_inbound_headers": bool(o.get("val", True)),
                 "store_streamed_bodies": bool(o.get("ssb", False))}
    if o.get("bsl") is not None:
        overrides["body_size_limit"] = str(o["bsl"])
    if o.get("slb") is not None:
        overrides["stream_large_bodies"] = str(o["slb"])
    pol = case.get("pol", {})
    defer = set(case.get("defer", []))
    conn = case.get("conn", {})
    cut = {"at": None}

    def policy(hook, drv):
        if hook.name not in HTTP_HOOKS:
            if cut["at"] is None:
                cut["at"] = len(drv.trace) - 1
            return DEFER
        f = hook.args()[0]
        key = "%d:%s" % (drv.flow_ord(f), hook.name)
        a = pol.get(key, "pass")
        if a in ("kill",):
            if f.killable:
                f.kill()
        if a in ("resp", "sresp"):
            f.response = mhttp.Response.make(200, SETRESP_BODY)
        if a in ("stream", "sresp"):
            if hook.name == "requestheaders":
                f.request.stream = True
            elif hook.name == "responseheaders" and f.response:
                f.response.stream = True
        return DEFER if key in defer else None

    def connect(c, drv):
        k = str(drv.conn_ord(c))
        r = conn.get(k, "ok")
        if r == "defer":
            return DEFER
        if r == "fail":
            c.error = "connect failed"
            return "connect failed"
        return None

    d = _driver_cls()(lambda ctx: http_layer.HttpLayer(ctx, HTTPMode.regular), options_overrides=overrides, policy=policy, connect=connect)
    rst = {}

    def readable(k):
        return k < len(d.conns) and bool(d.conns[k].state & CS.CAN_READ)

    def resume():
        if not d.deferred:
            return False
        cmd = d.deferred[0]
        if isinstance(cmd, d.commands.OpenConnection):
            d.complete(cmd, None)
        else:
            d.complete(cmd)
        return True

    def stop():
        return d.crashed is not None or cut["at"] is not None

    d.start()
    for op in case["sched"]:
        if stop():
            break
        if op[0] == "c":
            bs = render(op[1], rst.setdefault(0, {}))
            if readable(0):
                d.data(0, bs)
        elif op[0] == "s":
            bs = render(op[2], rst.setdefault(op[1], {}))
            if readable(op[1]):
                d.data(op[1], bs)
        elif op[0] == "cc":
            if readable(0):
                d.close(0)
        elif op[0] == "sc":
            if readable(op[1]):
                d.close(op[1])
        elif op[0] == "r":
            resume()
    for _ in range(ROUNDS):
        n = 0
        while not stop() and n < 40 and resume():
            n += 1
        for k in range(len(d.conns)):
            if not stop() and readable(k):
                d.close(k)
    trace = d.trace if cut["at"] is None else d.trace[:cut["at"]]
    if d.crashed and not any(t[0] == "crash" for t in trace):
        d.crashed = None  # raised inside a child layer after the tunnel started: outside this model
    out = []
    for t in trace:
        if t[0] == "send":
            m = _ERRPAGE.match(bytes.fromhex(t[2]))
            if m:
                out.append(["errpage", t[1], int(m.group(1))])
                continue
        if t[0] == "open":
            out.append(["open", t[1]])
        else:
            out.append(list(t))
    flows = []
    for f in d.flows:
        if isinstance(f, mhttp.HTTPFlow):
            flows.append({"live": bool(f.live), "resp": f.response is not None, "err": f.error is not None,
                          "connect": f.request.method.upper() == "CONNECT",
                          "up101": bool(f.response is not None and f.response.status_code == 101)})
    conns = [[bool(c.state & CS.CAN_READ), bool(c.state & CS.CAN_WRITE)] for c in d.conns]
    settled = (not d.deferred) and not any(c[0] for c in conns)
    return {"trace": out, "flows": flows, "conns": conns, "crash": ("%s@%s" % (d.crashed[0], d.site)) if d.crashed else None,
            "tunnel": cut["at"] is not None, "settled": settled}


# ---------------------------------------------------------------- oracle: the property on the implementation's trace
def oracle(case, obs):
    out = []
    per = {}
    for t in obs["trace"]:
        if t[0] == "hook" and t[1] in HTTP_HOOKS:
            per.setdefault(t[2], []).append(t[1])
    if obs["crash"]:
        out.append({"key": "crash-" + crash_family(case, obs), "what": "layer raised %s" % obs["crash"]})
    for fo, hs in sorted(per.items()):
        fl = obs["flows"][fo] if fo < len(obs["flows"]) else None
        connect = bool(fl and fl["connect"])
        # a CONNECT flow starts with http_connect, or with requestheaders when it is rejected by check_invalid
        if hs[0] != "requestheaders" and not (connect and hs[0] == "http_connect"):
            out.append({"key": "first-hook", "what": "flow %d starts with %s" % (fo, hs[0])})
        for name in ("requestheaders", "request", "responseheaders", "response", "error"):
            if hs.count(name) > 1:
                out.append({"key": "hook-twice", "what": "flow %d fires %s %d times" % (fo, name, hs.count(name))})
        if "response" in hs and "error" in hs:
            out.append({"key": "both-outcomes", "what": "flow %d fires response and error" % fo})
        if "response" in hs and "responseheaders" in hs and hs.index("responseheaders") > hs.index("response"):
            out.append({"key": "order", "what": "flow %d: response before responseheaders" % fo})
        if "response" in hs and "responseheaders" not in hs:
            out.append({"key": "order", "what": "flow %d: response without responseheaders" % fo})
        streamed = case.get("pol", {}).get("%d:requestheaders" % fo) in ("stream", "sresp") or case.get("opts", {}).get("slb") is not None
        if not streamed and "responseheaders" in hs and ("request" not in hs or hs.index("request") > hs.index("responseheaders")):
            out.append({"key": "order", "what": "flow %d: responseheaders before request although not streamed" % fo})
        if obs["settled"] and not obs["tunnel"] and not obs["crash"] and fl and not connect and not fl["up101"] and "requestheaders" in hs:
            n = hs.count("response") + hs.count("error")
            if n == 0:
                out.append({"key": "no-outcome-" + outcome_family(hs), "what": "flow %d ends with hooks %s" % (fo, hs)})
            if fl["live"]:
                out.append({"key": "still-live" + live_family(case), "what": "flow %d is live after all connections closed (hooks %s)" % (fo, hs)})
    return out


def _replaced_101(case):
    saw101 = any(t.get("st") == 101 for op in case["sched"] if op[0] == "s" for t in op[2])
    replaced = any(a in ("resp", "sresp") and k.split(":")[1] in ("responseheaders", "response")
                   for k, a in case.get("pol", {}).items())
    return saw101 and replaced


def live_family(case):
    # an addon replacing the 101 response of a WebSocket handshake in the response hook: flow.websocket stays set
    return "-replaced-101" if _replaced_101(case) else ""


def crash_family(case, obs):
    # an addon that replaces a 101 response leaves the piped Http1Client behind: its own family
    saw101 = any(t.get("st") == 101 for op in case["sched"] if op[0] == "s" for t in op[2])
    replaced = any(a in ("resp", "sresp") and k.split(":")[1] in ("responseheaders", "response")
                   for k, a in case.get("pol", {}).items())
    if saw101 and replaced and obs["crash"] == "AssertionError@_handle_event":
        return obs["crash"] + "-replaced-101"
    return obs["crash"]


def outcome_family(hs):
    return "after-" + hs[-1]


def nontrivial(case, obs):
    faulty = bool(case.get("pol") or case.get("defer") or case.get("conn")) or any(
        op[0] in ("cc", "sc") or any(t["t"] in ("HB", "HR", "X", "P") for t in (op[1] if op[0] == "c" else op[2] if op[0] == "s" else []))
        for op in case["sched"])
    return faulty and any(t[0] == "hook" for t in obs["trace"])


def classify(case, obs):
    tags = []
    hs = [t[1] for t in obs["trace"] if t[0] == "hook"]
    tags.append("flows=%d" % min(len(obs["flows"]), 3))
    for h in ("request", "response", "error", "http_connect"):
        if h in hs:
            tags.append("hook:" + h)
    if obs["tunnel"]:
        tags.append("tunnel")
    if obs["crash"]:
        tags.append("crash")
    if not obs["settled"]:
        tags.append("unsettled")
    for a in set(case.get("pol", {}).values()):
        tags.append("act:" + a)
    toks = [t for op in case["sched"] if op[0] in ("c", "s") for t in op[-1]]
    if any(t.get("ws") for t in toks):
        tags.append("ws-request")
    for t in toks:
        if t.get("up"):
            tags.append("upgrade:%s:%s" % (t["up"], "101" if t.get("st") == 101 else "non101"))
            break
    if case.get("defer"):
        tags.append("deferred")
    if case.get("conn"):
        tags.append("conn:" + "+".join(sorted(set(case["conn"].values()))))
    if any(t[0] == "errpage" for t in obs["trace"]):
        tags.append("errpage")
    o = case.get("opts", {})
    for k in ("bsl", "slb"):
        if o.get(k) is not None:
            tags.append("opt:" + k)
    return tags


# ---------------------------------------------------------------- generator
def _rq(m="GET", f=("n",), **kw):
    d = {"t": "H", "m": m, "f": list(f)}
    d.update(kw)
    return d


def _rs(st=200, f=("cl", 2), **kw):
    d = {"t": "H", "st": st, "f": list(f)}
    d.update(kw)
    return d


def _d(s):
    return {"t": "D", "d": s.encode().hex()}


E = {"t": "E"}
# base exchanges: (request head, request body tokens, response head, response body tokens)
BASES = [
    [(_rq(), [], _rs(), [_d("ok")])],
    [(_rq("POST", ("cl", 4)), [_d("ab"), _d("cd")], _rs(), [_d("ok")])],
    [(_rq("POST", ("ch",)), [_d("abc"), _d("de"), E], _rs(f=("ch",)), [_d("xy"), _d("z"), E])],
    [(_rq(), [], _rs(f=("eof",)), [_d("abc"), _d("d")])],
    [(_rq("HEAD"), [], _rs(f=("cl", 5)), [])],
    [(_rq(), [], _rs(204, ("n",)), [])],
    [(_rq(), [], _rs(), [_d("ok")]), (_rq("POST", ("cl", 2)), [_d("hi")], _rs(f=("cl", 3)), [_d("abc")])],
    [(_rq(), [], _rs(close=True), [_d("ok")]), (_rq(), [], _rs(), [_d("ok")])],
    [(_rq(host=0), [], _rs(), [_d("ok")]), (_rq(host=1), [], _rs(), [_d("ok")]), (_rq(host=0), [], _rs(f=("cl", 0)), [])],
    [(_rq("POST", ("cl", 3), exp=True), [_d("abc")], _rs(), [_d("ok")])],
    [(_rq(form="org"), [], _rs(), [_d("ok")])],
    [(_rq(close=True), [], _rs(), [_d("ok")])],
    [(_rq(v10=True), [], _rs(f=("eof",)), [_d("abc")])],
    [(_rq("POST", ("cl", 6)), [_d("abc"), _d("def")], _rs(f=("cl", 6)), [_d("uvw"), _d("xyz")])],
    [(_rq(inv=True), [], _rs(), [_d("ok")])],
    [(_rq(), [], _rs(inv=True), [_d("ok")])],
    [(_rq(form="nohost"), [], _rs(), [_d("ok")])],
    [(_rq("CONNECT"), [], _rs(), [])],
    [(_rq(), [], _rs(101, ("n",)), [])],
    [(_rq(), [], _rs(), [_d("ok")]), (_rq("CONNECT"), [], _rs(), [])],
    # upgrade attempts: accepted, refused with and without Upgrade headers, other protocol; followed by more traffic
    [(_rq(ws=True), [], _rs(101, ("n",), up="websocket"), [])],
    [(_rq(ws=True), [], _rs(426, ("cl", 2), up="websocket"), [_d("no")]), (_rq(), [], _rs(), [_d("ok")])],
    [(_rq(ws=True), [], _rs(200, ("cl", 2), up="websocket"), [_d("ok")]), (_rq(), [], _rs(), [_d("ok")])],
    [(_rq(ws=True), [], _rs(400, ("cl", 3)), [_d("bad")]), (_rq(), [], _rs(), [_d("ok")])],
    [(_rq(ws=True), [], _rs(101, ("n",), up="h2c"), [])],
    [(_rq(), [], _rs(426, ("cl", 0), up="websocket"), []), (_rq(ws=True), [], _rs(426, ("cl", 0), up="websocket"), [])],
    [(_rq(ws=True), [], _rs(101, ("n",)), [])],
    # response arrives before the request body is complete (meaningful when the request is streamed)
    [(_rq("POST", ("cl", 4)), [_d("ab"), _d("cd")], _rs(), [_d("ok"), _d("zz")], 1)],
    [(_rq("POST", ("ch",)), [_d("ab"), _d("cd"), E], _rs(f=("eof",)), [_d("ok")], 1)],
    [(_rq("POST", ("cl", 4)), [_d("ab"), _d("cd")], _rs(), [_d("ok")], 1), (_rq(), [], _rs(), [_d("ok")])],
]
HOOKS5 = ["requestheaders", "request", "responseheaders", "response", "error"]
ACTIONS = ["kill", "resp", "stream", "sresp"]


def ideal(base, split):
    """token-level schedule [(conn, token)] for a base; conn 0 = client, k = k-th server connection"""
    steps = []
    alive = {}
    nxt = 1
    for item in base:
        (rq, rb, rs, sb) = item[:4]
        early = item[4] if len(item) > 4 else None
        steps.append((0, rq))
        late = []
        for i, t in enumerate(rb):
            (steps if early is None or i < early else late).append((0, t))
        if rq["m"] == "CONNECT" or rq.get("form") == "nohost" or rq.get("inv"):
            continue
        h = rq.get("host", 0)
        if h in alive:
            k = alive[h]
        else:
            k = nxt
            nxt += 1
            alive[h] = k
        steps.append((k, rs))
        for t in sb:
            steps.append((k, t))
        steps.extend(late)
        if rs.get("close") or rs["f"][0] == "eof" or rq.get("close") or rq.get("v10"):
            if rs["f"][0] == "eof" and rq["m"] != "HEAD":
                steps.append((k, "close"))
            alive.pop(h, None)
    return steps


def to_sched(steps, merge):
    """merge consecutive tokens of one connection into one segment when merge(i) says so"""
    sched = []
    for i, (k, t) in enumerate(steps):
        if t == "close":
            sched.append(["cc"] if k == 0 else ["sc", k])
        elif t == "resume":
            sched.append(["r"])
        else:
            last = sched[-1] if sched else None
            if last and merge(i) and ((k == 0 and last[0] == "c") or (k > 0 and last[0] == "s" and last[1] == k)):
                last[-1].append(t)
            elif k == 0:
                sched.append(["c", [t]])
            else:
                sched.append(["s", k, [t]])
    return sched


def apply_fault(steps, pos, kind):
    """fault at token position pos (0..len): returns new steps"""
    steps = list(steps)
    if kind == "none":
        return steps
    if kind in ("cc", "sc"):
        ks = sorted({k for k, _ in steps if k > 0}) or [1]
        k = 0 if kind == "cc" else ks[pos % len(ks)]
        steps.insert(pos, (k, "close"))
        return steps
    if pos >= len(steps):
        return steps
    k, t = steps[pos]
    if t in ("close", "resume"):
        return steps
    if kind == "bad":
        if t["t"] == "H":
            bad = {"t": "HB"}
        elif t["t"] in ("D", "E"):
            bad = {"t": "X"} if _in_chunked(steps, pos) else dict(t)
        else:
            bad = dict(t)
    elif kind == "badcl":
        bad = dict(t, t="HR") if t["t"] == "H" and "st" not in t and t["m"] != "CONNECT" else ({"t": "HB"} if t["t"] == "H" else dict(t))
    else:  # partial
        if t["t"] == "H" or _in_chunked(steps, pos):
            bad = {"t": "P"}
        else:
            bad = None
    head = steps[:pos] + ([(k, bad)] if bad else [])
    # nothing more can be sent meaningfully on that connection after the malformed / partial token
    tail = [(kk, tt) for (kk, tt) in steps[pos + 1:] if kk != k or tt in ("close", "resume")]
    return head + tail


def _in_chunked(steps, pos):
    k = steps[pos][0]
    for j in range(pos - 1, -1, -1):
        kk, tt = steps[j]
        if kk == k and isinstance(tt, dict) and tt["t"] in ("H",):
            return tt["f"][0] == "ch"
        if kk == k and isinstance(tt, dict) and tt["t"] == "E":
            return False
    return False


FAULTS = ["none", "cc", "sc", "bad", "badcl", "partial"]


def _opts(rng):
    o = {}
    if rng.chance(0.25):
        o["bsl"] = rng.choice([1, 2, 3, 5])
    if rng.chance(0.3):
        o["slb"] = rng.choice([1, 2, 3, 5])
    if rng.chance(0.2):
        o["val"] = False
    if rng.chance(0.3):
        o["ssb"] = True
    return o


def gen_structured(rng):
    base = rng.choice(BASES)
    if rng.chance(0.3):
        base = base + rng.choice(BASES)
    steps = ideal(base, None)
    nf = rng.weighted([(2, 0), (6, 1), (2, 2)])
    for _ in range(nf):
        steps = apply_fault(steps, rng.randint(0, len(steps)), rng.choice(FAULTS[1:]))
    case = {"opts": _opts(rng)}
    pol, defer = {}, []
    for _ in range(rng.weighted([(3, 0), (5, 1), (2, 2)])):
        key = "%d:%s" % (rng.randint(0, max(0, len(base) - 1)), rng.choice(HOOKS5 + ["http_connect"]))
        pol[key] = rng.choice(ACTIONS)
    for _ in range(rng.weighted([(5, 0), (4, 1), (2, 2)])):
        key = "%d:%s" % (rng.randint(0, max(0, len(base) - 1)), rng.choice(HOOKS5))
        defer.append(key)
        steps.insert(rng.randint(0, len(steps)), (0, "resume"))
    conn = {}
    if rng.chance(0.25):
        conn[str(rng.randint(1, 2))] = rng.choice(["fail", "defer", "fail"])
        if conn and "defer" in conn.values():
            steps.insert(rng.randint(0, len(steps)), (0, "resume"))
    p = rng.choice([0.0, 0.5, 1.0])
    case["sched"] = to_sched(steps, lambda i: rng.chance(p))
    if pol:
        case["pol"] = pol
    if defer:
        case["defer"] = sorted(set(defer))
    if conn:
        case["conn"] = conn
    return case


class _Side:
    """framing-aware token source for one direction (keeps the rendered byte stream meaningful)"""

    def __init__(self, rng, server):
        self.rng, self.server, self.mode, self.left, self.dead = rng, server, "head", 0, False

    def next(self):
        rng = self.rng
        if self.dead:
            return None
        if self.mode == "head":
            r = rng.weighted([(12, "H"), (1, "HB"), (1, "HR"), (1, "P")])
            if r == "H":
                if self.server:
                    f = rng.choice([["cl", 0], ["cl", 2], ["cl", 3], ["ch"], ["eof"]])
                    t = _rs(rng.choice([200, 200, 200, 500, 426, 400]), f, **({"close": True} if rng.chance(0.15) else {}))
                    if rng.chance(0.2):
                        t["up"] = rng.choice(["websocket", "websocket", "h2c"])
                    if rng.chance(0.05):
                        t["inv"] = True
                else:
                    m = rng.weighted([(5, "GET"), (5, "POST"), (1, "CONNECT")])
                    f = ["n"] if m != "POST" else rng.choice([["cl", 2], ["cl", 4], ["ch"], ["cl", 0]])
                    t = _rq(m, f, host=rng.weighted([(4, 0), (1, 1)]))
                    if rng.chance(0.08):
                        t["close"] = True
                    if rng.chance(0.05):
                        t["inv"] = True
                    if rng.chance(0.05) and m == "POST":
                        t["exp"] = True
                    if rng.chance(0.05):
                        t["form"] = rng.choice(["org", "nohost"])
                    if rng.chance(0.2) and m == "GET":
                        t["ws"] = True
                f = t["f"]
                if f[0] == "cl" and f[1] > 0:
                    self.mode, self.left = "cl", f[1]
                elif f[0] == "ch":
                    self.mode = "ch"
                elif f[0] == "eof":
                    self.mode = "eof"
                return t
            if r == "HR" and not self.server:
                self.dead = True
                return dict(_rq("POST", ["n"]), t="HR")
            self.dead = True
            return {"t": "P"} if r == "P" else {"t": "HB"}
        if self.mode == "cl":
            n = rng.randint(1, self.left)
            self.left -= n
            if self.left == 0:
                self.mode = "head"
            return _d("abcdefgh"[:n])
        if self.mode == "ch":
            r = rng.weighted([(5, "D"), (4, "E"), (1, "X"), (1, "P")])
            if r == "D":
                return _d("uvwxyz"[:rng.randint(1, 4)])
            if r == "E":
                self.mode = "head"
                return dict(E)
            self.dead = True
            return {"t": r}
        return _d("mnopq"[:rng.randint(1, 4)])  # eof


def gen_soup(rng):
    sides = {0: _Side(rng, False)}
    sched = []
    nconn = rng.randint(1, 3)
    for k in range(1, nconn + 1):
        sides[k] = _Side(rng, True)
    for _ in range(rng.randint(2, 14)):
        r = rng.weighted([(6, "c"), (6, "s"), (1, "cc"), (2, "sc"), (2, "r")])
        if r in ("c", "s"):
            k = 0 if r == "c" else rng.randint(1, nconn)
            toks = []
            for _ in range(rng.weighted([(5, 1), (3, 2), (1, 3)])):
                t = sides[k].next()
                if t is None:
                    break
                toks.append(t)
            if toks:
                sched.append(["c", toks] if k == 0 else ["s", k, toks])
        elif r == "cc":
            sched.append(["cc"])
        elif r == "sc":
            sched.append(["sc", rng.randint(1, nconn)])
        else:
            sched.append(["r"])
    case = {"opts": _opts(rng), "sched": sched}
    pol, defer, conn = {}, [], {}
    for _ in range(rng.randint(0, 3)):
        pol["%d:%s" % (rng.randint(0, 2), rng.choice(HOOKS5 + ["http_connect"]))] = rng.choice(ACTIONS)
    for _ in range(rng.randint(0, 2)):
        defer.append("%d:%s" % (rng.randint(0, 2), rng.choice(HOOKS5)))
    if rng.chance(0.3):
        conn[str(rng.randint(1, nconn))] = rng.choice(["fail", "defer"])
    if pol:
        case["pol"] = pol
    if defer:
        case["defer"] = sorted(set(defer))
    if conn:
        case["conn"] = conn
    return case


def gen_exhaustive(limit):
    """every fault position x fault kind x single-hook policy (x deferred or not) for the base exchanges"""
    out = []
    for bi, base in enumerate(BASES):
        steps0 = ideal(base, None)
        pols = [None] + [(h, a) for h in HOOKS5 for a in ("kill", "resp", "stream")]
        for pos in range(len(steps0) + 1):
            for kind in FAULTS:
                if kind == "none" and pos > 0:
                    continue
                steps = apply_fault(steps0, pos, kind)
                for pa in pols:
                    for dfr in ((False, True) if pa else (False,)):
                        case = {"opts": {}}
                        st = list(steps)
                        if pa:
                            case["pol"] = {"0:" + pa[0]: pa[1]}
                            if dfr:
                                case["defer"] = ["0:" + pa[0]]
                                st.insert(min(len(st), pos + 2), (0, "resume"))
                        case["sched"] = to_sched(st, lambda i: False)
                        out.append(case)
    # deterministic thinning to the limit, keeping a spread over bases
    if len(out) > limit:
        stride = len(out) / float(limit)
        out = [out[int(i * stride)] for i in range(limit)]
    return out


def gen(rng, n, tier):
    out = []
    seen = set()

    def add(c):
        key = json.dumps(c, sort_keys=True)
        if key not in seen:
            seen.add(key)
            out.append(c)
    if tier == "thorough":
        for c in gen_exhaustive(n // 2):
            add(c)
    else:
        for c in gen_exhaustive(n // 4):
            add(c)
    tries = 0
    while len(out) < n and tries < 20 * n:
        tries += 1
        add(gen_structured(rng) if rng.chance(0.7) else gen_soup(rng))
    return out


# ---------------------------------------------------------------- Coq terms
COQ_PRELUDE = "From MV Require Import Model.HttpStream Model.HttpSys.\n"
_HOOK = {"requestheaders": "HkReqHeaders", "request": "HkRequest", "responseheaders": "HkRespHeaders",
         "response": "HkResponse", "error": "HkError", "http_connect": "HkConnect"}
_ACT = {"pass": "APass", "kill": "AKill", "resp": "AResp", "stream": "AStream", "sresp": "ASResp"}


def _copt(v):
    return "None" if v is None else "(Some %s)" % cN(v)


def _fr(f):
    if f[0] == "cl":
        return "(HLen %s)" % cN(f[1])
    if f[0] == "ch":
        return "HChunked"
    return "HNone"


def _head(t):
    if "st" in t:
        return "(mkHead %s MGet %s 0%%N true %s false %s %s %s)" % (
            cbytes(resp_head(t)), _fr(t["f"]), cbool(not t.get("inv")), cbool(bool(t.get("close"))), cN(t["st"]),
            cbool(t.get("up") == "websocket"))
    m = {"GET": "MGet", "POST": "MGet", "HEAD": "MHead", "CONNECT": "MConnect"}[t["m"]]
    bad = t["t"] == "HR"
    return "(mkHead %s %s %s %s %s %s %s %s 0%%N %s)" % (
        cbytes(req_head(t)[1]), m, "HChunked" if bad else _fr(t["f"]), cN(t.get("host", 0)),
        cbool(t.get("form") != "nohost"), cbool(not (t.get("inv") or bad)), cbool(bool(t.get("exp"))),
        cbool(bool(t.get("close") or t.get("v10"))), cbool(bool(t.get("ws"))))


def _tok(t):
    k = t["t"]
    if k == "H":
        return "(TH %s)" % _head(t)
    if k == "HR":
        return "(THR %s)" % _head(t)
    if k == "D":
        return "(TD %s)" % cbytes(bytes.fromhex(t["d"]))
    return {"HB": "THB", "P": "TP", "E": "TE", "X": "TX"}[k]


def _op(op):
    if op[0] == "c":
        return "(ODataC %s)" % clist([_tok(t) for t in op[1]], "tok")
    if op[0] == "s":
        return "(ODataS %s %s)" % (cN(op[1]), clist([_tok(t) for t in op[2]], "tok"))
    if op[0] == "cc":
        return "OCloseC"
    if op[0] == "sc":
        return "(OCloseS %s)" % cN(op[1])
    return "OResume"


def _ocmd(t):
    if t[0] == "hook":
        return "(OHook %s %s)" % (_HOOK[t[1]], cN(t[2]))
    if t[0] == "open":
        return "(OOpen %s)" % cN(t[1])
    if t[0] == "send":
        return "(OSend %s %s)" % (cN(t[1]), cbytes(bytes.fromhex(t[2])))
    if t[0] == "errpage":
        return "(OErrPage %s %s)" % (cN(t[1]), cN(t[2]))
    if t[0] == "close":
        return "(OClose %s %s)" % (cN(t[1]), cbool(t[2]))
    if t[0] == "crash":
        return "OCrash"
    raise ValueError(t)


def coq_case(case, obs):
    o = case.get("opts", {})
    opts = "(mkOpts %s %s %s %s)" % (_copt(o.get("bsl")), _copt(o.get("slb")), cbool(bool(o.get("val", True))), cbool(bool(o.get("ssb", False))))
    pol = []
    for key, a in sorted(case.get("pol", {}).items()):
        fo, h = key.split(":")
        pol.append("(%s, %s, %s)" % (cN(int(fo)), _HOOK[h], _ACT[a]))
    dfr = []
    for key in case.get("defer", []):
        fo, h = key.split(":")
        dfr.append("(%s, %s)" % (cN(int(fo)), _HOOK[h]))
    conn = ["(%s, %s)" % (cN(int(k)), {"fail": "CFail", "defer": "CDefer", "ok": "COk"}[v]) for k, v in sorted(case.get("conn", {}).items())]
    flows = ["(mkFlowObs %s %s %s %s %s)" % tuple(cbool(f[k]) for k in ("live", "resp", "err", "connect", "up101")) for f in obs["flows"]]
    conns = ["(%s, %s)" % (cbool(r), cbool(w)) for r, w in obs["conns"]]
    return "(Run %s %s %s %s %s %s %s %s %s %s %s)" % (
        opts, clist(pol, "(N * hook * act)%type"), clist(dfr, "(N * hook)%type"), clist(conn, "(N * connres)%type"),
        clist([_op(x) for x in case["sched"]], "op"), clist([_ocmd(t) for t in obs["trace"]], "ocmd"),
        clist(flows, "flowobs"), clist(conns, "(bool * bool)%type"),
        cbool(bool(obs["crash"])), cbool(obs["tunnel"]), cbool(obs["settled"]))
