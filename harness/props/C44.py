"""C44 — Option updates are transactional, typed and survive a config round-trip
(mitmproxy/optmanager.py, mitmproxy/utils/typecheck.py)."""
import gc
import os
import weakref

from lib.coqterm import cbool, cN, cZ, cbytes, clist, copt, cpair

ID = "C44"
QUICK_N = 800
THOROUGH_N = 6400
SHARD = 70
COQ_PRELUDE = "From MV Require Import Model.OptManager.\n"
RULE = ("80% histories of 4-14 calls on one real OptManager over a universe of 6 option names and 7 typespecs "
        "(bool, int, str, Optional[str], Optional[int], Optional[bool], Sequence[str]): add_option (also re-adding with "
        "another type, ill-typed defaults), update / update_known / update_defer / setattr with 1-4 kwargs (70% well "
        "typed, 30% ill-typed or unknown names, bool-for-int, tuples), set(*specs, defer) with int/bool/toggle/multi-value "
        "spec strings, process_deferred, reset, subscribe / changed.connect of up to 4 listeners whose behaviour is a "
        "rule list (reject a value, reject an updated name, reject the k-th call — the last makes listeners reject the "
        "re-notification of a rollback — and, in 40% of the histories, a re-entrant scenario: a listener that answers x == v with a nested update of another option, optionally chained, plus a rejecting listener ordered after or before it and a subscriber that only hears the nested change) and, in 40%, a lifetime scenario: 2-5 validators/observers connected to .changed (some subscribed), random subsets dropped and garbage collected (del + gc.collect()) in every position relative to the survivors between updates, some re-registered); 20% YAML cases: non-default values of every type built from a dictionary of "
        "YAML-special words, quotes, newlines, control and unicode characters, saved with optmanager.save and loaded "
        "into fresh options (direct, deferred + process_deferred, and save-over-existing-file). Non-trivial = a history "
        "with at least one delivered notification, or a YAML case with at least one non-default value.")
TRUSTED = ["Coq 8.16.1 kernel (coqc), vm_compute for case evaluation",
           "harness/props/C44.py generator, listener closures and comparison glue (Corr/C44.v interp of listener rules)",
           "hand model of OptManager/_Option/check_option_type/_parse_setval incl. Python ==, int(str) for ASCII, dict order; tied by correspondence",
           "ruamel.yaml (save/serialize/parse) is not modelled: the config round-trip clause is checked by the oracle on the real code only"]
ASSUMPTIONS = ["a dropped listener is garbage collected before the next call (gc.collect()); when the code prunes dead weak references from its lists is not observed (the model keeps them as dead entries); errored receivers do not raise; a re-entrant listener only calls update() and lets its exception propagate (no subscribe/add_option from inside a listener); nesting depth <= 20",
               "listeners raise only OptionsError (another exception class is not rolled back by design of rollback())",
               "kwargs names are distinct (a Python dict); int-typed spec strings are ASCII (unicode digits/spaces of int() are not modelled)",
               "option values are treated as immutable (deepcopy aliasing is not modelled)",
               "variant flags vt/vu (validate-before-assign) are read from the live code by a two-call probe and carried in every case; theorems quantify over them"]
ALLOWED_AXIOMS = []

NAMES = ["o0", "o1", "o2", "o3", "o4", "o5"]
TYPES = ["bool", "int", "str", "optstr", "optint", "optbool", "seq"]
_st = {}


# ---------------------------------------------------------------- value encoding (JSON <-> Python <-> Coq)
class _Obj:
    pass


_OTHERS = [lambda: 1.5, lambda: b"x", lambda: {}, lambda: _Obj()]
_NONSTR = [lambda: None, lambda: 7, lambda: True, lambda: [], lambda: b"x", lambda: 2.5]


def dec(v):
    if v is None or isinstance(v, bool):
        return v
    if "i" in v:
        return v["i"]
    if "s" in v:
        return v["s"]
    if "l" in v or "t" in v:
        items = [x if isinstance(x, str) else _NONSTR[x["n"]]() for x in v.get("l", v.get("t"))]
        return items if "l" in v else tuple(items)
    return _OTHERS[v["o"]]()


def _enc_item(x):
    if isinstance(x, str):
        return x
    for tag, t in ((0, type(None)), (2, bool), (1, int), (3, list), (4, bytes), (5, float)):
        if isinstance(x, t):
            return {"n": tag}
    raise ValueError(f"unencodable item {x!r}")


def enc(x):
    if x is None or isinstance(x, bool):
        return x
    if isinstance(x, int):
        return {"i": x}
    if isinstance(x, str):
        return {"s": x}
    if isinstance(x, list):
        return {"l": [_enc_item(i) for i in x]}
    if isinstance(x, tuple):
        return {"t": [_enc_item(i) for i in x]}
    for tag, t in ((0, float), (1, bytes), (2, dict), (3, _Obj)):
        if isinstance(x, t):
            return {"o": tag}
    raise ValueError(f"unencodable value {x!r}")


def cstr(s):
    return cbytes(s.encode("utf-8"))


def cval(v):
    if v is None:
        return "VNone"
    if isinstance(v, bool):
        return f"(VBool {cbool(v)})"
    if "i" in v:
        return f"(VInt {cZ(v['i'])})"
    if "s" in v:
        return f"(VStr {cstr(v['s'])})"
    if "l" in v or "t" in v:
        items = [f"IStr {cstr(x)}" if isinstance(x, str) else f"INonStr {cN(x['n'])}" for x in v.get("l", v.get("t"))]
        return f"(VSeq {cbool('t' in v)} {clist(items, 'item')})"
    return f"(VOther {cN(v['o'])})"


CTY = {"bool": "(TBase BBool)", "int": "(TBase BInt)", "str": "(TBase BStr)", "optstr": "(TOptional BStr)",
       "optint": "(TOptional BInt)", "optbool": "(TOptional BBool)", "seq": "TSeqStr"}


def ckw(kw):
    return clist((cpair(cN(n), cval(v)) for n, v in kw), "(name * val)")


def cnames(l):
    return clist((cN(n) for n in l), "N")


def cop(op):
    k = op["op"]
    if k == "add":
        return f"AddOption {cN(op['n'])} {CTY[op['ty']]} {cval(op['d'])}"
    if k == "update_known":
        return f"UpdateKnown {ckw(op['kw'])}"
    if k == "update":
        return f"Update {ckw(op['kw'])}"
    if k == "update_defer":
        return f"UpdateDefer {ckw(op['kw'])}"
    if k == "setattr":
        return f"Setattr {cN(op['n'])} {cval(op['v'])}"
    if k == "reset":
        return "Reset"
    if k == "subscribe":
        return f"Subscribe {cN(op['l'])} {cnames(op['opts'])}"
    if k == "connect":
        return f"Connect {cN(op['l'])}"
    if k == "set":
        specs = clist((cpair(cN(n), copt(v, cstr, "bytes")) for n, v in op["specs"]), "(name * option bytes)")
        return f"SetSpecs {specs} {cbool(op['defer'])}"
    if k == "process_deferred":
        return "ProcessDeferred"
    if k == "drop":
        return f"Drop {cN(op['l'])}"
    raise ValueError(k)


CERR = {"type": "ETypeError", "options": "EOptionsError", "key": "EKeyError", "notimpl": "ENotImplemented"}
# any other exception class is printed as EOther, which the model never produces -> reported as a disagreement


def cresult(r):
    if r == "ok":
        return "ROk"
    if isinstance(r, dict) and "unknown" in r:
        return f"(RUnknown {ckw(r['unknown'])})"
    return f"(RErr {CERR.get(r['err'], 'EOther')})"


def cevent(e):
    if e[0] == "E":
        return "Errored"
    _, l, snap, upd, kind, _depth = e
    return f"Notified {cN(l)} {ckw(snap)} {cnames(upd)} {CKIND[kind]}"


def cdval(d):
    if "u" in d:
        return f"DStrings {clist((cstr(x) for x in d['u']), 'bytes')}"
    return f"DVal {cval(d['v'])}"


CKIND = {"A": "KAccept", "R": "KReject", "K": "KNested"}


def crule(r):
    if r[0] == "nest":
        return f"NestIf {cN(r[1])} {cval(r[2])} {ckw(r[3])}"
    if r[0] == "val":
        return f"RejValue {cN(r[1])} {cval(r[2])}"
    if r[0] == "upd":
        return f"RejUpdated {cN(r[1])}"
    return f"RejCall {cN(r[1])}"


# ---------------------------------------------------------------- generator
STRS = ["", "a", "true", "false", "toggle", "x y", "é", "no", "0", "-1", "a=b", "\n", "'q'", "日本"]
INTSTRS = ["0", "5", "-3", "+7", " 12 ", "1_000", "1__0", "_1", "1_", "", " ", "x", "0x10", "\t8\n", "\x0b4\x0c", "5\x1f",
           "\x1c5", "- 5", "+-5", "007", "1.0", "true", "99999999999999999999", "-", "+", "1 2"]
BOOLSTRS = ["true", "false", "toggle", "", "yes", "True", "1", "toggle "]


def good_value(rng, ty):
    if ty == "bool":
        return rng.chance(0.5)
    if ty == "int":
        if rng.chance(0.15):
            return rng.chance(0.5)           # bool is an int
        return {"i": rng.choice([0, 1, 2, 5, -1, 10, 8080, 2 ** 70])}
    if ty == "str":
        return {"s": rng.choice(STRS)}
    if ty == "optstr":
        return None if rng.chance(0.3) else {"s": rng.choice(STRS)}
    if ty == "optint":
        if rng.chance(0.3):
            return None
        return rng.chance(0.5) if rng.chance(0.2) else {"i": rng.choice([0, 1, 5, -1, 443])}
    if ty == "optbool":
        return None if rng.chance(0.3) else rng.chance(0.5)
    items = [rng.choice(STRS) for _ in range(rng.randint(0, 3))]
    return {"t": items} if rng.chance(0.2) else {"l": items}


def any_value(rng):
    r = rng.random()
    if r < 0.75:
        return good_value(rng, rng.choice(TYPES))
    if r < 0.85:
        return {"o": rng.below(4)}
    items = [rng.choice(STRS) if rng.chance(0.6) else {"n": rng.below(6)} for _ in range(rng.randint(1, 3))]
    return {"l": items} if rng.chance(0.7) else {"t": items}


def gen_history(rng):
    types = {}                      # generator's view of the declared types (only to aim values)
    nlisten = rng.randint(0, 4)
    listeners = {}
    for l in range(nlisten):
        rules = []
        for _ in range(rng.weighted([(3, 0), (5, 1), (2, 2)])):
            r = rng.random()
            if r < 0.5:
                rules.append(["val", rng.below(6), good_value(rng, rng.choice(TYPES))])
            elif r < 0.7:
                rules.append(["upd", rng.below(6)])
            else:
                rules.append(["call", rng.below(6)])
        listeners[str(l)] = rules
    ops = []

    def add():
        n = rng.below(6) if rng.chance(0.8) else rng.below(3)
        ty = rng.choice(TYPES) if rng.chance(0.2) else rng.choice(TYPES[:5] + TYPES[6:])
        d = good_value(rng, ty) if rng.chance(0.92) else any_value(rng)
        types[n] = ty
        ops.append({"op": "add", "n": n, "ty": ty, "d": d})

    def kwargs(maxn=4):
        k = min(maxn, rng.weighted([(5, 1), (4, 2), (2, 3), (1, 4)]))
        have = sorted(types)
        if rng.chance(0.8) and have:             # mostly existing options; sometimes any name of the universe
            names = rng.sample(have, min(k, len(have)))
        else:
            names = rng.sample(range(6), k)
        kw = []
        for n in names:
            if n in types and rng.chance(0.8):
                v = good_value(rng, types[n])
            else:
                v = any_value(rng)
            kw.append([n, v])
        return kw

    for _ in range(rng.randint(1, 4)):
        add()
    for _ in range(rng.randint(3, 10)):
        r = rng.random()
        if r < 0.08:
            add()
        elif r < 0.38:
            ops.append({"op": "update", "kw": kwargs()})
        elif r < 0.46:
            ops.append({"op": "update_known", "kw": kwargs()})
        elif r < 0.54:
            ops.append({"op": "update_defer", "kw": kwargs()})
        elif r < 0.60:
            kw = kwargs(1)[0]
            ops.append({"op": "setattr", "n": kw[0], "v": kw[1]})
        elif r < 0.63:
            ops.append({"op": "reset"})
        elif r < 0.73 and nlisten:
            ops.append({"op": "subscribe", "l": rng.below(nlisten), "opts": rng.sample(range(6), rng.randint(0, 3))})
        elif r < 0.81 and nlisten:
            ops.append({"op": "connect", "l": rng.below(nlisten)})
        elif r < 0.84 and nlisten:
            ops.append({"op": "drop", "l": rng.below(nlisten)})
        elif r < 0.93:
            specs = []
            for _ in range(rng.randint(1, 3)):
                n = rng.choice(sorted(types)) if rng.chance(0.85) else rng.below(6)
                ty = types.get(n, "str")
                if rng.chance(0.12):
                    v = None
                elif ty in ("int", "optint"):
                    v = rng.choice(INTSTRS[:8] if rng.chance(0.5) else INTSTRS)
                elif ty in ("bool", "optbool"):
                    v = "toggle" if rng.chance(0.3) else rng.choice(BOOLSTRS[:4] if rng.chance(0.6) else BOOLSTRS)
                else:
                    v = rng.choice(STRS + INTSTRS[:4])
                specs.append([n, v])
            ops.append({"op": "set", "specs": specs, "defer": rng.chance(0.5)})
        else:
            ops.append({"op": "process_deferred"})
    # deferred scenario: values given for a name before it exists, the option added later, then process_deferred
    if rng.chance(0.35):
        free = [n for n in range(6) if n not in types]
        if free:
            n = rng.choice(free)
            ty = rng.choice(TYPES[:5] + TYPES[6:])
            if rng.chance(0.5):
                v = good_value(rng, ty) if rng.chance(0.8) else any_value(rng)
                first = {"op": "update_defer", "kw": [[n, v]] + (kwargs(2) if rng.chance(0.4) else [])}
            else:
                src = INTSTRS[:8] if ty in ("int", "optint") else BOOLSTRS[:4] if ty == "bool" else STRS
                first = {"op": "set", "specs": [[n, rng.choice(src)] for _ in range(rng.weighted([(6, 1), (2, 2)]))], "defer": True}
            seq = [first, {"op": "add", "n": n, "ty": ty, "d": good_value(rng, ty)}, {"op": "process_deferred"}]
            if rng.chance(0.3):
                seq.append({"op": "process_deferred"})
            pos = sorted(rng.randint(1, len(ops)) for _ in seq)
            for off, (at, o) in enumerate(zip(pos, seq)):
                ops.insert(at + off, o)
    # lifetime scenario: several validators / observers on .changed (and a few subscribers); some of them are
    # dropped and garbage collected, in every position relative to the survivors, between updates
    if rng.chance(0.4) and types:
        have = sorted(types)
        x = rng.choice(have)
        bad = good_value(rng, types[x])
        ids = []
        tail = []
        for _ in range(rng.randint(2, 5)):
            l = len(listeners)
            r = rng.random()
            listeners[str(l)] = [["val", x, bad]] if r < 0.35 else [["upd", rng.choice(have)]] if r < 0.45 else []
            ids.append(l)
            if rng.chance(0.8):
                tail.append({"op": "connect", "l": l})
            else:
                tail.append({"op": "subscribe", "l": l, "opts": rng.sample(have, rng.randint(1, min(2, len(have))))})
        for rnd in range(rng.randint(1, 3)):
            for l in rng.sample(ids, rng.randint(1, max(1, len(ids) - 1))):
                tail.append({"op": "drop", "l": l})
            for _ in range(rng.randint(1, 3)):
                rr = rng.random()
                if rr < 0.45:
                    tail.append({"op": "update", "kw": [[x, bad]]})
                elif rr < 0.8:
                    tail.append({"op": "update", "kw": kwargs(2)})
                else:
                    tail.append({"op": "setattr", "n": x, "v": good_value(rng, types[x])})
            if rng.chance(0.5):
                l = rng.choice(ids)
                tail.append({"op": "connect", "l": l})              # a dropped (or live) listener registers again
        ops.extend(tail)
    # re-entrant scenario: listener A answers x == vx with a nested update of a LATER option y (as addons do from
    # configure; later-only keeps the nesting acyclic), optionally chained through C (y -> z), and a listener B
    # ordered after (sometimes before) them rejects x, y or a particular call
    if rng.chance(0.4) and len(types) >= 2:
        have = sorted(types)
        x = rng.choice(have[:-1])
        y = rng.choice([n for n in have if n > x])
        vx, wy = good_value(rng, types[x]), good_value(rng, types[y])
        nkw = [[y, wy]]
        if rng.chance(0.15) and [n for n in range(x + 1, 6) if n != y]:
            nkw.append([rng.choice([n for n in range(x + 1, 6) if n != y]), any_value(rng)])  # sometimes ill-typed / unknown inside the nested call
            # (every name a nested update touches is > x, so nesting is acyclic and at most 6 deep)
        ids = []

        def new_listener(rules):
            l = len(listeners)
            listeners[str(l)] = rules
            ids.append(l)
            return l
        a = new_listener([["nest", x, vx, nkw]] + ([["call", rng.below(5)]] if rng.chance(0.1) else []))
        zs = [n for n in have if n > y]
        if zs and rng.chance(0.4):
            z = rng.choice(zs)
            new_listener([["nest", y, wy, [[z, good_value(rng, types[z])]]]])
        r = rng.random()
        if r < 0.3:
            brule = [["val", x, vx]]
        elif r < 0.5:
            brule = [["upd", x]]
        elif r < 0.65:
            brule = [["val", y, wy]]
        elif r < 0.85:
            brule = [["call", rng.below(6)]]
        else:
            brule = []
        b = new_listener(brule)
        if rng.chance(0.2):
            ids.reverse()
        tail = []
        for l in ids:
            if rng.chance(0.75):
                tail.append({"op": "connect", "l": l})
            else:
                tail.append({"op": "subscribe", "l": l, "opts": rng.sample([x, y], rng.randint(1, 2))})
        if rng.chance(0.3):
            tail.append({"op": "subscribe", "l": new_listener([]), "opts": [y]})   # only told by the nested send
        trigger = {"op": "update", "kw": [[x, vx]] + (kwargs(1) if rng.chance(0.2) else [])}
        if rng.chance(0.2):
            trigger = {"op": "set", "specs": [[x, vx["s"]]], "defer": False} if isinstance(vx, dict) and "s" in vx else trigger
        tail.append(trigger)
        for _ in range(rng.randint(0, 2)):
            rr = rng.random()
            if rr < 0.4:
                tail.append({"op": "update", "kw": [[x, vx]]})
            elif rr < 0.7:
                tail.append({"op": "update", "kw": [[y, good_value(rng, types[y])]]})
            else:
                tail.append({"op": "update", "kw": [[x, good_value(rng, types[x])]]})
        ops.extend(tail)
    # listeners are mostly attached early so that they take part
    if nlisten and rng.chance(0.8):
        pre = []
        for l in range(nlisten):
            if rng.chance(0.5):
                pre.append({"op": "connect", "l": l})
            else:
                known = [o["n"] for o in ops if o["op"] == "add"][:2]
                pre.append({"op": "subscribe", "l": l, "opts": rng.sample(known + [rng.below(6)], rng.randint(1, 2))})
        k = min(len(ops), rng.randint(1, 3))
        ops[k:k] = pre
    return {"k": "hist", "listeners": listeners, "ops": ops}


YSTR = ["true", "True", "yes", "no", "on", "off", "null", "~", "", " ", "1", "1_000", "0o7", "0x1f", "1:30", "1e3", ".inf", ".nan",
        "a\nb", "a\r\nb", "\n", "\r", " a ", "a: b", "a #b", "#x", "'", '"', "\\", "\\n", "\x00", "\x07", "\x1b", "\x7f", "\x85",
        "\xa0", "\u2028", "\u2029", "\ufeff", "\ufffe", "é", "日本語", "\U0001F600", "- a", "[a]", "{a: 1}", "!!str x", "&a", "*a", "|",
        ">", "%", "@", "`", "a\tb", "\t", "2001-01-01", "=", "<<", "?", ":", "-", "---", "...", "a\x0bb", "\x0c", "0.5", "+1",
        "\n\n a", "a  \n", "plain", "two words", "trailing ", " leading", "a" * 100, "x\x85y", "x\u2028y", "\x1c", "\x1f", "\x80", "\x9f"]


def ystring(rng):
    r = rng.random()
    if r < 0.55:
        return rng.choice(YSTR)
    if r < 0.85:
        return "".join(rng.choice(YSTR) for _ in range(rng.randint(2, 3)))
    return "".join(chr(rng.choice([rng.below(0x20), rng.randint(0x20, 0x7e), rng.randint(0x7f, 0xa0), rng.randint(0xa1, 0x2fff),
                                   rng.randint(0xe000, 0xffff), rng.randint(0x10000, 0x10ffff)])) for _ in range(rng.randint(1, 6)))


def gen_yaml(rng):
    opts, vals = [], []
    for n in rng.sample(range(6), rng.randint(1, 5)):
        ty = rng.choice([t for t in TYPES if t != "optbool"])
        d = good_value(rng, ty)
        opts.append([n, ty, d])
        if rng.chance(0.85):
            if ty in ("str", "optstr"):
                v = {"s": ystring(rng)}
            elif ty == "seq":
                v = {"l": [ystring(rng) for _ in range(rng.randint(0, 3))]}
            else:
                v = good_value(rng, ty)
            vals.append([n, v])
    return {"k": "yaml", "opts": opts, "vals": vals, "mode": rng.choice(["direct", "direct", "deferred", "resave"])}


def gen(rng, n, tier):
    out = []
    for _ in range(n):
        out.append(gen_history(rng) if rng.chance(0.8) else gen_yaml(rng))
    return out


# ---------------------------------------------------------------- implementation runner
def setup_impl():
    from collections.abc import Sequence
    from typing import Optional
    from mitmproxy import exceptions, optmanager
    _st["om"], _st["exc"] = optmanager, exceptions
    _st["ty"] = {"bool": bool, "int": int, "str": str, "optstr": Optional[str], "optint": Optional[int],
                 "optbool": Optional[bool], "seq": Sequence[str]}
    # which variant of update/update_known is live (see fixes/C44-validate-before-assign.diff)
    o = optmanager.OptManager()
    o.add_option("a", int, 0, "")
    o.add_option("b", str, "", "")
    try:
        o.update(a=5, b=7)
    except TypeError:
        pass
    _st["vt"] = o.a == 0
    o.update(a=0)
    try:
        o.update(a=5, zz=1)
    except KeyError:
        pass
    _st["vu"] = o.a == 0


def _tyname(ts):
    for k, v in _st["ty"].items():
        if v == ts:
            return k
    return "?"


def _errname(e):
    exc = _st["exc"]
    if isinstance(e, exc.OptionsError):
        return "options"
    for k, t in (("type", TypeError), ("key", KeyError), ("notimpl", NotImplementedError)):
        if type(e) is t:
            return k
    return "other:" + type(e).__name__


def run_hist(case):
    om, exc = _st["om"], _st["exc"]
    o = om.OptManager()
    idx = {n: i for i, n in enumerate(NAMES)}
    events = []
    calls = {}
    depth = [0]
    nested_fail = []

    def snapshot():
        return [[idx[k], enc(p.current())] for k, p in o._options.items()]

    def make(l, rules):
        def body(updated):
            fired = False
            nest = None
            for r in rules:
                if r[0] == "val":
                    nm = NAMES[r[1]]
                    if nm in o._options and o._options[nm].current() == dec(r[2]):
                        fired = True
                elif r[0] == "upd":
                    if NAMES[r[1]] in updated:
                        fired = True
                elif r[0] == "nest":
                    nm = NAMES[r[1]]
                    if nest is None and nm in updated and nm in o._options and o._options[nm].current() == dec(r[2]):
                        nest = r[3]
                elif calls.get(l, 0) == r[1]:
                    fired = True
            calls[l] = calls.get(l, 0) + 1
            kind = "R" if fired else "K" if nest is not None else "A"
            events.append(["N", l, snapshot(), sorted(idx[u] for u in updated), kind, depth[0]])
            if fired:
                raise exc.OptionsError(f"listener {l} rejects")
            if nest is not None:
                # what addons do from configure: a nested update of other options; exceptions propagate
                depth[0] += 1
                try:
                    o.update(**{NAMES[n]: dec(v) for n, v in nest})
                except Exception as e:
                    nested_fail.append(_errname(e))
                    raise
                finally:
                    depth[0] -= 1

        return body

    bodies = {int(l): make(int(l), rules) for l, rules in case["listeners"].items()}
    # OptManager holds only weak references: every subscribe / connect gets its own callable, kept alive here
    # until the listener is dropped (del + gc.collect())
    alive = {}

    def new_subscriber(l):
        body = bodies[l]

        def as_subscriber(opts, updated):
            body(updated)
        alive.setdefault(l, []).append(as_subscriber)
        return as_subscriber

    def new_receiver(l):
        body = bodies[l]

        def as_receiver(updated):
            body(updated)
        alive.setdefault(l, []).append(as_receiver)
        return as_receiver

    def on_error(exc):
        events.append(["E", depth[0]])
    o.errored.connect(on_error)
    steps = []
    for op in case["ops"]:
        del events[:]
        del nested_fail[:]
        k = op["op"]
        res = "ok"
        try:
            if k == "add":
                o.add_option(NAMES[op["n"]], _st["ty"][op["ty"]], dec(op["d"]), "help")
            elif k == "update_known":
                u = o.update_known(**{NAMES[n]: dec(v) for n, v in op["kw"]})
                res = {"unknown": [[idx[a], enc(b)] for a, b in u.items()]}
            elif k == "update":
                o.update(**{NAMES[n]: dec(v) for n, v in op["kw"]})
            elif k == "update_defer":
                o.update_defer(**{NAMES[n]: dec(v) for n, v in op["kw"]})
            elif k == "setattr":
                setattr(o, NAMES[op["n"]], dec(op["v"]))
                if not o._options:
                    o.__dict__.pop(NAMES[op["n"]], None)      # a plain attribute was set; keep the object clean
            elif k == "reset":
                o.reset()
            elif k == "subscribe":
                names = [NAMES[n] for n in op["opts"]]
                if all(n in o._options for n in names):       # (a refused subscribe must not leave a callable behind)
                    o.subscribe(new_subscriber(op["l"]), names)
                else:
                    o.subscribe(bodies[op["l"]], names)
            elif k == "connect":
                o.changed.connect(new_receiver(op["l"]))
            elif k == "set":
                o.set(*[NAMES[n] if v is None else f"{NAMES[n]}={v}" for n, v in op["specs"]], defer=op["defer"])
            elif k == "process_deferred":
                o.process_deferred()
            elif k == "drop":
                probes = [weakref.ref(f) for f in alive.pop(op["l"], [])]
                if any(r() is not None for r in probes):     # normally freed by refcount at once; else collect cycles
                    gc.collect()
                assert all(r() is None for r in probes), "dropped listener is still referenced"
        except Exception as e:
            res = {"err": _errname(e)}
        steps.append({
            "res": res,
            "opts": [[idx[n], _tyname(p.typespec), p.value is om.unset, enc(p.current()), enc(p.default)]
                     for n, p in o._options.items()],
            "defd": [[idx[n], ({"u": list(v.val)} if isinstance(v, om._UnconvertedStrings) else {"v": enc(v)})]
                     for n, v in o.deferred.items()],
            "evs": [list(e) for e in events],
            "nested_fail": list(nested_fail),
        })
    return {"vt": _st["vt"], "vu": _st["vu"], "steps": steps}


def _seq_norm(v):
    return list(v) if isinstance(v, (list, tuple)) else v


def run_yaml(case):
    om = _st["om"]
    d = os.path.join(os.path.dirname(os.path.abspath(__file__)), "..", "..", ".work", "C44", "yaml")
    os.makedirs(d, exist_ok=True)
    path = os.path.join(d, f"cfg-{os.getpid()}.yaml")
    if os.path.exists(path):
        os.remove(path)

    def fresh(add=True):
        o = om.OptManager()
        if add:
            for n, ty, dflt in case["opts"]:
                o.add_option(NAMES[n], _st["ty"][ty], dec(dflt), "help")
        return o
    src = fresh()
    src.update(**{NAMES[n]: dec(v) for n, v in case["vals"]})
    out = {"changed": sorted(k for k in src.keys() if src.has_changed(k)), "exc": None, "diff": []}
    try:
        if case["mode"] == "resave":
            other = fresh()                       # an older file with other values exists at the destination
            for n, ty, dflt in case["opts"]:
                if ty == "str":
                    other.update(**{NAMES[n]: "older"})
            om.save(other, path)
        om.save(src, path)
        with open(path, encoding="utf8") as f:
            text = f.read()
        if case["mode"] == "deferred":
            dst = fresh(add=False)
            om.load(dst, text)
            for n, ty, dflt in case["opts"]:
                dst.add_option(NAMES[n], _st["ty"][ty], dec(dflt), "help")
            dst.process_deferred()
        else:
            dst = fresh()
            om.load(dst, text)
        for k in out["changed"]:                 # the claim is about non-default values only
            a, b = getattr(src, k), getattr(dst, k)
            if _seq_norm(a) != _seq_norm(b) or type(_seq_norm(a)) is not type(_seq_norm(b)):
                out["diff"].append([k, enc(_seq_norm(a)), enc(_seq_norm(b))])
    except Exception as e:
        out["exc"] = f"{type(e).__name__}: {str(e)[:120]}"
    finally:
        if os.path.exists(path):
            os.remove(path)
    return out


def run_impl(case):
    return run_hist(case) if case["k"] == "hist" else run_yaml(case)


def coq_case(case, obs):
    if case["k"] != "hist":
        return None                                # YAML clause: oracle on the implementation only
    steps = []
    for op, st in zip(case["ops"], obs["steps"]):
        opts = clist((cpair(cN(n), cpair(cbool(unset), cval(cur))) for n, _ty, unset, cur, _d in st["opts"]),
                     "(name * (bool * val))")
        defd = clist((cpair(cN(n), cdval(v)) for n, v in st["defd"]), "(name * dval)")
        evs = clist((cevent(e) for e in st["evs"]), "event")
        steps.append(cpair(cop(op), f"Obs {cresult(st['res'])} {opts} {defd} {evs}"))
    specs = clist((cpair(cN(int(l)), clist((crule(r) for r in rules), "rule")) for l, rules in sorted(case["listeners"].items())),
                  "(N * list rule)")
    return f"Hist {cbool(obs['vt'])} {cbool(obs['vu'])} {specs} {clist(steps, '(op * obs)')}"


# ---------------------------------------------------------------- oracle: the property on the implementation
def _veq(a, b):
    """Python == on encoded values (True == 1, list != tuple)."""
    def num(x):
        if isinstance(x, bool):
            return int(x)
        if isinstance(x, dict) and "i" in x:
            return x["i"]
        return None
    if num(a) is not None and num(b) is not None:
        return num(a) == num(b)
    return a == b


def _typed(v, ty):
    isb = isinstance(v, bool)
    isi = isb or (isinstance(v, dict) and "i" in v)
    iss = isinstance(v, dict) and "s" in v
    if ty == "bool":
        return isb
    if ty == "int":
        return isi
    if ty == "str":
        return iss
    if ty == "optstr":
        return iss or v is None
    if ty == "optint":
        return isi or v is None
    if ty == "optbool":
        return isb or v is None
    if ty == "seq":
        return isinstance(v, dict) and ("l" in v or "t" in v) and all(isinstance(x, str) for x in v.get("l", v.get("t")))
    return False


def _snap_eq(a, b):
    return len(a) == len(b) and all(x[0] == y[0] and _veq(x[1], y[1]) for x, y in zip(a, b))


UPDATEISH = ("update", "update_known", "update_defer", "setattr", "set", "process_deferred")


def oracle_hist(case, obs):
    v = []
    subs, recs = [], []
    prev = []
    prev_defd = []
    for i, (op, st) in enumerate(zip(case["ops"], obs["steps"])):
        k, res, now = op["op"], st["res"], st["opts"]
        cur = [[n, c] for n, _t, _u, c, _d in now]
        before = [[n, c] for n, _t, _u, c, _d in prev]
        failed = isinstance(res, dict) and "err" in res
        has_nested = any(e[0] == "N" and e[4] == "K" for e in st["evs"])
        # a nested update that raised something else than OptionsError makes the listener raise it too, which is
        # outside the property (rollback() is specified for OptionsError only)
        foreign = any(x != "options" for x in st.get("nested_fail", []))
        # the re-notification of the outermost rollback: depth-0 events after the depth-0 .errored marker
        outer_e = next((j for j, e in enumerate(st["evs"]) if e[0] == "E" and e[1] == 0), None)
        renotify = [e for e in st["evs"][outer_e + 1:] if e[0] == "N" and e[5] == 0] if outer_e is not None else []
        renotify_nested = any(e[4] == "K" for e in renotify)
        renotify_rejected = any(e[4] == "R" for e in renotify)
        # (1) typed, after every call of any kind
        for n, ty, _u, c, d in now:
            if not _typed(c, ty) or not _typed(d, ty):
                v.append({"key": "ill-typed-value", "what": f"step {i} ({k}): option {NAMES[n]} of type {ty} holds {c}"})
        # listener lifetimes: nobody who is not a live listener is ever called, and in an outermost send the live
        # listeners are called in order without gaps (a rejecting validator cannot be bypassed)
        if k in ("update", "update_known", "update_defer", "setattr") and prev:
            kw0 = op["kw"] if "kw" in op else [[op["n"], op["v"]]]
            have0 = {n for n, _ in before}
            names0 = sorted({n for n, _ in kw0 if n in have0})
            want0 = ([l for l, o in subs if set(o) & set(names0)] + recs) if names0 else []
            first = []
            for e in st["evs"]:
                if e[0] == "E" and e[1] == 0:
                    break
                if e[0] == "N" and e[5] == 0:
                    first.append(e)
            if first and res != {"err": "type"} and res != {"err": "key"}:
                called = [e[1] for e in first]
                complete = not failed and first[-1][4] != "R"
                if called != want0[:len(called)] or (complete and len(called) != len(want0)):
                    v.append({"key": "live-listener-skipped", "what": f"step {i}: {k} of {names0}: live listeners in order are {want0} but the send called {called}"})
            elif not first and want0 and not failed:
                v.append({"key": "live-listener-skipped", "what": f"step {i}: {k} of {names0}: live listeners {want0} were not called"})
        if k in UPDATEISH and failed and not foreign:
            # (2) a rejected update leaves EVERY option at its previous value (also those changed by nested updates)
            if not _snap_eq(before, cur):
                key = {"type": "typeerror-partial-assign", "key": "unknown-option-partial-assign"}.get(res["err"], "rollback-incomplete")
                if key == "rollback-incomplete" and renotify_nested:
                    key = "renotify-nested-update"
                v.append({"key": key, "what": f"step {i}: {k} raised {res['err']} but options went {before} -> {cur}"})
            # (3) every listener that was notified ends up having seen the restored state
            last = {}
            for e in st["evs"]:
                if e[0] == "N":
                    last[e[1]] = e[2]
            stale = [l for l, s in last.items() if not _snap_eq(s, cur)]
            if stale:
                outer_listeners = {e[1] for e in st["evs"] if e[0] == "N" and e[5] == 0}
                if renotify_rejected:
                    key = "renotify-aborted"
                elif renotify_nested:
                    key = "renotify-nested-update"
                elif all(l not in outer_listeners for l in stale):
                    key = "nested-change-rolled-back-silently"   # only told by a nested send, never re-notified
                else:
                    key = "listener-stale"
                v.append({"key": key, "what": f"step {i}: {k} was rejected, options are {cur}, but listener(s) {stale} last saw {last[stale[0]]}"})
        if k in ("update", "update_known", "update_defer", "setattr") and not failed and prev and has_nested:
            # with nested updates in between only the outermost notifications are predictable here
            kw = op["kw"] if "kw" in op else [[op["n"], op["v"]]]
            have = {n for n, _ in before}
            names = sorted({n for n, _ in kw if n in have})
            want = [l for l, o in subs if set(o) & set(names)] + recs if names else []
            got = [e for e in st["evs"] if e[0] == "N" and e[5] == 0]
            if sorted(e[1] for e in got) != sorted(want) or any(e[3] != names or e[4] == "R" for e in got):
                v.append({"key": "accepted-notify-wrong", "what": f"step {i}: {k} assigned {names}; expected outer listeners {want} with that set, got {got}"})
        if k in ("update", "update_known", "update_defer", "setattr") and not failed and prev and not has_nested:
            kw = op["kw"] if "kw" in op else [[op["n"], op["v"]]]
            have = {n for n, _ in before}
            assigned = [(n, val) for n, val in kw if n in have]
            names = sorted({n for n, _ in assigned})
            want = [l for l, o in subs if set(o) & set(names)] + recs if names else []
            got = [e for e in st["evs"] if e[0] == "N"]
            if (sorted(e[1] for e in got) != sorted(want) or len(got) != len(st["evs"])
                    or any(e[3] != names or e[4] != "A" or not _snap_eq(e[2], cur) for e in got)):
                v.append({"key": "accepted-notify-wrong", "what": f"step {i}: {k} assigned {names}; expected listeners {want} once each with that set and the new values, got {st['evs']}"})
            final = dict((n, val) for n, val in assigned)
            for (n, c), (_n, b) in zip(cur, before):
                if (n in final and c != final[n]) or (n not in final and not _veq(c, b)):
                    v.append({"key": "accepted-values-wrong", "what": f"step {i}: {k}({kw}) accepted but option {NAMES[n]} is {c}"})
                    break
        if k in ("set", "process_deferred") and not failed and not has_nested:
            got = [e for e in st["evs"] if e[0] == "N"]
            ups = {tuple(e[3]) for e in got}
            changed = {n for (n, c), (_n, b) in zip(cur, before) if not _veq(c, b)}
            if len(ups) > 1 or len(got) != len(st["evs"]) or any(e[4] != "A" or not _snap_eq(e[2], cur) for e in got) \
                    or (changed and got and not changed <= set(got[0][3])):
                v.append({"key": "accepted-notify-wrong", "what": f"step {i}: {k} accepted, changed {sorted(changed)}, notifications {st['evs']}"})
        # deferred options: applied and forgotten on success, kept on failure
        if k == "process_deferred":
            have_now = {n for n, _ in cur}
            if not failed and any(n in have_now for n, _ in st["defd"]):
                v.append({"key": "deferred-not-consumed", "what": f"step {i}: process_deferred succeeded but {st['defd']} still holds an existing option"})
            if failed and st["defd"] != prev_defd:
                v.append({"key": "deferred-lost", "what": f"step {i}: process_deferred raised {res['err']} and deferred went {prev_defd} -> {st['defd']}"})
            if not failed and not has_nested:
                for n, dv in prev_defd:
                    if n in have_now and "v" in dv and not _veq(dict(cur)[n], dv["v"]):
                        v.append({"key": "deferred-not-applied", "what": f"step {i}: deferred {NAMES[n]}={dv['v']} but the option is {dict(cur)[n]}"})
        prev_defd = st["defd"]
        if k == "drop":                     # the listener was garbage collected: it must never be called again,
            subs = [(l, o) for l, o in subs if l != op["l"]]    # and every other live listener still must be
            recs = [l for l in recs if l != op["l"]]
        if k == "subscribe" and not failed:
            subs.append((op["l"], op["opts"]))
        if k == "connect" and not failed:
            recs.append(op["l"])
        prev = now
    return v[:3]


def _nel_fold(s):
    """what the YAML loader's line folding does to a run of the break characters NEL / LS / PS that the emitter
    wrote raw: a leading NEL is a plain line break (folded to a space when alone, dropped when more breaks follow),
    every further NEL becomes a newline; LS and PS are kept"""
    import re

    def fold(m):
        run = m.group()
        rest = "".join("\n" if c == "\x85" else c for c in run[1:])
        if run[0] != "\x85":
            return run[0] + rest
        return rest or " "
    return re.sub("[\x85\u2028\u2029]+", fold, s)


def _spaces_inserted(a, b):
    """b is a with one or more single spaces inserted, and a is long enough to be wrapped by the emitter"""
    if len(a) < 60 or len(b) <= len(a):
        return False
    i = 0
    for ch in b:
        if i < len(a) and a[i] == ch:
            i += 1
        elif ch != " ":
            return False
    return i == len(a)


def _yaml_keys(a, b):
    """family of one differing (saved, loaded) pair; anything unexplained gets its own key"""
    if isinstance(a, dict) and isinstance(b, dict) and "s" in a and "s" in b:
        x, y = a["s"], b["s"]
        if "\x85" in x and _nel_fold(x) == y:
            return {"yaml-nel-folded"}
        if _spaces_inserted(x, y):
            return {"yaml-long-scalar-space-inserted"}
        if "\x85" in x and _spaces_inserted(_nel_fold(x), y):
            return {"yaml-nel-folded", "yaml-long-scalar-space-inserted"}
        return {"yaml-roundtrip-other"}
    if isinstance(a, dict) and isinstance(b, dict) and "l" in a and "l" in b and len(a["l"]) == len(b["l"]):
        ks = set()
        for x, y in zip(a["l"], b["l"]):
            if x != y:
                ks |= _yaml_keys({"s": x}, {"s": y}) if isinstance(x, str) and isinstance(y, str) else {"yaml-roundtrip-other"}
        return ks
    return {"yaml-roundtrip-other"}


def oracle_yaml(case, obs):
    if obs["exc"]:
        return [{"key": "yaml-exception", "what": f"save/load of {case['vals']} raised {obs['exc']}"}]
    out = {}
    for k, a, b in obs["diff"]:
        for key in _yaml_keys(a, b):
            out.setdefault(key, {"key": key, "what": f"option {k} saved as {a} was loaded as {b} (mode {case['mode']})"})
    return [out[k] for k in sorted(out)]


def oracle(case, obs):
    return oracle_hist(case, obs) if case["k"] == "hist" else oracle_yaml(case, obs)


def nontrivial(case, obs):
    if case["k"] == "hist":
        return any(st["evs"] for st in obs["steps"])
    return bool(obs["changed"])


def classify(case, obs):
    if case["k"] == "yaml":
        return ["yaml", "yaml-" + case["mode"], "yaml-ok" if not obs["exc"] and not obs["diff"] else "yaml-differs"]
    tags = {"hist"}
    for op, st in zip(case["ops"], obs["steps"]):
        res = st["res"]
        failed = isinstance(res, dict) and "err" in res
        tags.add(f"{op['op']}:{res['err'] if failed else 'ok'}")
        if any(e[0] == "E" for e in st["evs"]):
            tags.add("rollback")
            es = st["evs"]
            after = es[[e[0] for e in es].index("E") + 1:]
            if any(e[0] == "N" and e[4] == "R" for e in after):
                tags.add("renotify-rejected")
        if any(e[0] == "N" and e[4] == "K" for e in st["evs"]):
            tags.add("nested")
            if any(e[0] == "N" and e[5] >= 2 for e in st["evs"]):
                tags.add("nested-depth>=2")
            if any(e[0] == "E" and e[1] == 0 for e in st["evs"]):
                tags.add("nested+outer-rollback")
            if any(e[0] == "E" and e[1] > 0 for e in st["evs"]):
                tags.add("nested-rollback")
            if st.get("nested_fail") and any(x != "options" for x in st["nested_fail"]):
                tags.add("nested-foreign-exception")
        if st["defd"]:
            tags.add("deferred-nonempty")
    return sorted(tags)
