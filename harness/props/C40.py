"""C40 -- Backup, revert and copy behave exactly (mitmproxy/flow.py Flow.backup / revert / modified / copy /
get_state / set_state / from_state, coretypes/serializable.py Serializable.copy, and the get_state/set_state
overrides of HTTPFlow, TCPFlow, UDPFlow, DNSFlow).

A case is a flow type and a history of operations over a small store of flows (the first one built by the
mitmproxy.test.tflow helpers, the others made by copy()).  After every operation the real get_state(), _backup,
live and modified() of EVERY flow in the store are recorded; state dicts are abstracted to
(id token, content token, nested backup) where tokens are interned with Python == (the comparison the code
itself uses), content = the dict without its id and backup entries."""
import copy as _copy

from lib.coqterm import cbool, cN, clist, cnat, copt

ID = "C40"
QUICK_N = 2000
THOROUGH_N = 16000
SHARD = 300
RULE = ("flow type uniform over 11 kinds (http with/without response, with error, with websocket, with EMPTY-but-present "
        "trailers and header-less response, with non-empty trailers, tcp, udp, dns with/without response, http built by "
        "from_state); history of 1..16 operations over a store of <= 4 flows: 45% structured (edit* backup edit* [backup] "
        "edit* revert, copies interleaved, edits from small value pools that contain the original values so that "
        "edit-back-to-equal happens), 30% alias probes (shape the nested mutables: trailers None/empty/non-empty, headers "
        "emptied, metadata lists/dicts, error; then backup and/or copy; then IN-PLACE mutations of nested mutables on the "
        "original and on the copies: Headers objects of request/response headers and trailers set/add/del/clear, nested "
        "metadata lists and dicts, error.msg, connection lists, websocket/tcp/udp message objects and lists, dns "
        "questions/answers lists and records; then reverts), 25% adversarial (uniform operations: revert without backup, "
        "double backup/revert, copy of a flow with a pending backup and revert of such a copy, mutation of the dict "
        "returned by get_state, set_state(get_state()), live toggles). Other edits: content, path, method, host, status, "
        "reason, response removed/replaced, marked, comment, intercept/resume, is_replay, client sni/alpn, websocket "
        "close code. Non-trivial = at least one backup or copy took effect; distinct by canonical JSON.")
TRUSTED = ["Coq 8.16.1 kernel (coqc), vm_compute for case evaluation",
           "harness/props/C40.py: generator, token interning of state dicts with Python ==, comparison glue Corr/C40.v",
           "Section contract of Model/FlowBackup.v: the content lens satisfies get_c (set_c c o) = c (the state written by "
           "set_state/from_state is the state read back by get_state, for every flow type) and C_eqb decides equality of "
           "content states (Python dict ==); edits are arbitrary functions on the live content that do not touch _backup "
           "or id. Tied to the code only by correspondence and by the oracle on real flows of every type.",
           "uuid.uuid4() returns an id not in use (fresh id is an input of the model's copy)"]
ASSUMPTIONS = ["edits are those listed in RULE: attributes and nested objects of the flow other than id, _backup and the "
               "connection state machine fields (server_conn.address/state edits can make set_state raise midway)",
               "the assert on version/type in Flow.set_state is not modelled (both are class constants)"]
COQ_PRELUDE = "From MV Require Import Model.FlowBackup.\n"

FTYPES = ["http", "httpresp", "httperr", "ws", "tcp", "udp", "dns", "dnsresp", "loaded", "httpte", "httptn"]
MAXFLOWS = 4

# ---------------------------------------------------------------- edits
STRS = ["", "x", ":grapes:", "Zwölf"]
BYTS = ["", "636f6e74656e74", "6d657373616765", "00ff", "68656c6c6f"]   # '', content, message, 00ff, hello
METAV = [1, "v", [1, 2], {"a": [1]}, None]
HN = ["header", "header-response", "x-a", "content-length", "set-cookie"]
HV = ["qvalue", "svalue", "7", "a=b", ""]

COMMON = ["marked", "comment", "meta_set", "meta_del", "meta_inplace", "error", "error_inplace", "intercept",
          "resume", "is_replay", "sni", "alpn", "got_state_mutate", "noop", "conn_list_inplace"]
HTTP_E = ["req_header", "req_header_del", "req_content", "req_path", "req_method", "req_host", "req_trailers",
          "resp_status", "resp_header", "resp_content", "resp_reason", "resp_none", "resp_new", "req_headers_inplace",
          "resp_trailers", "trailers_inplace", "trailers_inplace", "headers_inplace", "headers_empty"]
WS_E = ["ws_append", "ws_edit", "ws_pop", "ws_drop", "ws_close", "ws_none"]
MSG_E = ["msg_append", "msg_edit", "msg_pop", "msg_flip", "msg_clear"]
DNS_E = ["dns_id", "dns_q", "dns_resp_none", "dns_resp_new", "dns_ans_append", "dns_ans_pop", "dns_flag", "dns_ans_edit",
         "dns_q_append"]
# edits that mutate a nested mutable object IN PLACE (no attribute of the flow is rebound), per family
INPLACE_COMMON = ["meta_inplace", "error_inplace", "conn_list_inplace"]
INPLACE_HTTP = ["trailers_inplace", "trailers_inplace", "headers_inplace", "req_headers_inplace"]
INPLACE_WS = ["ws_edit", "ws_append", "ws_drop", "ws_pop"]
INPLACE_MSG = ["msg_edit", "msg_append", "msg_flip", "msg_pop"]
INPLACE_DNS = ["dns_ans_edit", "dns_ans_append", "dns_q", "dns_q_append", "dns_ans_pop"]
# edits that give the nested mutables a shape first (None / empty / non-empty)
SHAPE_COMMON = ["meta_set", "meta_set", "error"]
SHAPE_HTTP = ["req_trailers", "resp_trailers", "headers_empty", "resp_new"]
SHAPE_DNS = ["dns_resp_new"]
_ALL_INPLACE = set(INPLACE_COMMON + INPLACE_HTTP + INPLACE_WS + INPLACE_MSG + INPLACE_DNS)


def _edit_kinds(ft):
    if ft in ("http", "httpresp", "httperr", "loaded", "httpte", "httptn"):
        return COMMON + HTTP_E * 2
    if ft == "ws":
        return COMMON + HTTP_E + WS_E * 3
    if ft in ("tcp", "udp"):
        return COMMON + MSG_E * 4
    return COMMON + DNS_E * 3


def _family(ft):
    if ft in ("tcp", "udp"):
        return "msg"
    if ft in ("dns", "dnsresp"):
        return "dns"
    return "ws" if ft == "ws" else "http"


def _inplace_kinds(ft):
    fam = _family(ft)
    if fam == "msg":
        return INPLACE_COMMON + INPLACE_MSG * 3
    if fam == "dns":
        return INPLACE_COMMON + INPLACE_DNS * 3
    return INPLACE_COMMON + INPLACE_HTTP * 3 + (INPLACE_WS * 2 if fam == "ws" else [])


def _shape_kinds(ft):
    fam = _family(ft)
    if fam == "msg":
        return SHAPE_COMMON + ["msg_append", "msg_clear"]
    if fam == "dns":
        return SHAPE_COMMON + SHAPE_DNS
    return SHAPE_COMMON + SHAPE_HTTP * 3


def _gen_edit(rng, ft, kinds=None):
    k = rng.choice(kinds or _edit_kinds(ft))
    if k in ("marked", "comment", "error_inplace", "req_host", "dns_q"):
        return [k, rng.choice(STRS)]
    if k == "meta_set":
        return [k, rng.choice(["k", "list", "d"]), rng.choice(METAV)]
    if k == "meta_del":
        return [k, rng.choice(["k", "list", "d"])]
    if k == "error":
        return [k, rng.choice([None, "error", "Connection killed.", "e2"])]
    if k == "is_replay":
        return [k, rng.choice([None, "request", "response"])]
    if k == "sni":
        return [k, rng.choice([None, "address", "example.com"])]
    if k == "alpn":
        return [k, rng.choice([None, "6832", "687474702f312e31"])]
    if k in ("req_header", "resp_header"):
        return [k, rng.choice(HN), rng.choice(HV)]
    if k == "req_header_del":
        return [k, rng.choice(HN)]
    if k in ("req_content", "resp_content", "ws_append", "msg_append"):
        return [k, rng.choice(BYTS + [None] if k.endswith("content") else BYTS)]
    if k == "req_path":
        return [k, rng.choice(["2f70617468", "2f", "2f613f623d63"])]
    if k == "req_method":
        return [k, rng.choice(["474554", "504f5354"])]
    if k in ("req_trailers", "resp_trailers"):
        return [k, rng.choice([None, "empty", "empty", "t"])]
    if k in ("trailers_inplace", "headers_inplace"):
        return [k, rng.choice(["req", "resp"]), rng.choice(["set", "add", "del", "clear", "set", "add"]),
                rng.choice(["t", "x-checksum", "header"]), rng.choice(HV)]
    if k == "headers_empty":
        return [k, rng.choice(["req", "resp"])]
    if k == "conn_list_inplace":
        return [k, rng.choice(["alpn_offers", "cipher_list"])]
    if k == "dns_ans_edit":
        return [k, rng.choice([32, 5, 0])]
    if k == "resp_status":
        return [k, rng.choice([200, 404, 503])]
    if k == "resp_reason":
        return [k, rng.choice(["4f4b", "", "4e6f7065"])]
    if k == "resp_new":
        return [k, rng.choice([200, 418]), rng.choice(BYTS)]
    if k in ("ws_edit", "msg_edit"):
        return [k, rng.randint(0, 3), rng.choice(BYTS)]
    if k in ("ws_drop", "msg_flip"):
        return [k, rng.randint(0, 3)]
    if k == "ws_close":
        return [k, rng.choice([1000, 1001, None])]
    if k == "dns_id":
        return [k, rng.choice([42, 7, 65535])]
    if k == "dns_flag":
        return [k, rng.chance(0.5)]
    return [k]


def _gen_ops(rng, ft):
    ops, nflows = [], 1
    pend = [False]

    def edit(i):
        ops.append(["edit", i, _gen_edit(rng, ft)])

    def copyop(i):
        nonlocal nflows
        if nflows < MAXFLOWS:
            ops.append(["copy", i]); nflows += 1; pend.append(pend[i])

    def iedit(i):
        ops.append(["edit", i, _gen_edit(rng, ft, _inplace_kinds(ft))])

    r0 = rng.random()
    if r0 < 0.3:
        # alias probe: shape the nested mutables, backup and/or copy, then mutate them IN PLACE on the
        # original and on the copy, then revert both
        for _ in range(rng.randint(0, 2)):
            ops.append(["edit", 0, _gen_edit(rng, ft, _shape_kinds(ft))])
        bk, before = rng.chance(0.85), rng.chance(0.5)
        if bk and before:
            ops.append(["backup", 0])
        if rng.chance(0.8) or not bk:
            copyop(0)
        if bk and not before:
            ops.append(["backup", rng.below(nflows)])
        for _ in range(rng.randint(1, 5)):
            iedit(rng.below(nflows))
        if rng.chance(0.3):
            copyop(rng.below(nflows))
            iedit(rng.below(nflows))
        order = list(range(nflows))
        rng.shuffle(order)
        for j in order[:rng.randint(1, nflows)]:
            ops.append(["revert", j])
        if rng.chance(0.4):
            iedit(rng.below(nflows))
    elif r0 < 0.75:
        rounds = rng.randint(1, 2)
        for _ in range(rounds):
            i = rng.below(nflows)
            for _ in range(rng.randint(0, 2)):
                edit(i)
            if rng.chance(0.2):
                copyop(i)
            ops.append(["backup", i]); pend[i] = True
            for _ in range(rng.randint(0, 3)):
                r = rng.random()
                if r < 0.65:
                    edit(i)
                elif r < 0.75:
                    ops.append(["backup", i])
                elif r < 0.88:
                    copyop(i)
                elif r < 0.94:
                    ops.append(["live", i, rng.chance(0.5)])
                else:
                    j = rng.below(nflows)
                    edit(j)
            if rng.chance(0.85):
                j = i if rng.chance(0.8) else rng.below(nflows)
                ops.append(["revert", j]); pend[j] = False
            if rng.chance(0.3):
                edit(rng.below(nflows))
    else:
        for _ in range(rng.randint(1, 12)):
            i = rng.below(nflows)
            r = rng.random()
            if r < 0.35:
                edit(i)
            elif r < 0.55:
                ops.append(["backup", i])
            elif r < 0.75:
                ops.append(["revert", i])
            elif r < 0.88:
                copyop(i)
            elif r < 0.94:
                ops.append(["reload", i])
            else:
                ops.append(["live", i, rng.chance(0.5)])
    return ops[:16]


def gen(rng, n, tier):
    return [(lambda ft: {"ft": ft, "ops": _gen_ops(rng, ft)})(rng.choice(FTYPES)) for _ in range(n)]


# ---------------------------------------------------------------- implementation runner
def setup_impl():
    global tflow, tutils, http, tcp, udp, dns, websocket, flow, Opcode
    from mitmproxy import dns, flow, http, tcp, udp, websocket  # noqa
    from mitmproxy.test import tflow, tutils  # noqa
    from wsproto.frame_protocol import Opcode  # noqa


def _make(ft):
    if ft == "http":
        return tflow.tflow()
    if ft == "httpresp":
        return tflow.tflow(resp=True)
    if ft == "httperr":
        return tflow.tflow(resp=True, err=True)
    if ft == "ws":
        return tflow.tflow(resp=True, ws=True)
    if ft == "tcp":
        return tflow.ttcpflow()
    if ft == "udp":
        return tflow.tudpflow(err=True)
    if ft == "dns":
        return tflow.tdnsflow()
    if ft == "dnsresp":
        return tflow.tdnsflow(resp=True)
    if ft in ("httpte", "httptn"):
        f = tflow.tflow(resp=True)
        if ft == "httpte":      # trailers present but empty, response without any header
            f.request.trailers = http.Headers()
            f.response.trailers = http.Headers()
            f.response.headers = http.Headers()
        else:
            f.request.trailers = http.Headers([(b"t", b"1")])
            f.response.trailers = http.Headers([(b"x-checksum", b"a"), (b"t", b"2")])
        return f
    if ft == "loaded":
        f = flow.Flow.from_state(tflow.tflow(resp=True).get_state())
        f.live = True
        return f
    raise ValueError(ft)


def _b(h):
    return None if h is None else bytes.fromhex(h)


def _apply_edit(f, e):
    k = e[0]
    if k == "noop":
        return
    if k == "marked":
        f.marked = e[1]
    elif k == "comment":
        f.comment = e[1]
    elif k == "meta_set":
        f.metadata[e[1]] = _copy.deepcopy(e[2])
    elif k == "meta_del":
        f.metadata.pop(e[1], None)
    elif k == "meta_inplace":
        if isinstance(f.metadata.get("list"), list):
            f.metadata["list"].append(7)
        if isinstance(f.metadata.get("d"), dict):
            f.metadata["d"].setdefault("a", []).append(9)
            f.metadata["d"].setdefault("b", {"c": []})["c"].append(len(f.metadata["d"]["a"]))
    elif k == "error":
        f.error = None if e[1] is None else flow.Error(e[1], 946681207.0)
    elif k == "error_inplace":
        if f.error:
            f.error.msg = e[1]
    elif k == "intercept":
        f.intercept()
    elif k == "resume":
        f.resume()
    elif k == "is_replay":
        f.is_replay = e[1]
    elif k == "sni":
        f.client_conn.sni = e[1]
    elif k == "alpn":
        f.client_conn.alpn = _b(e[1])
    elif k == "conn_list_inplace":
        getattr(f.client_conn, e[1]).append(b"zz" if e[1] == "alpn_offers" else "ZZ")
    elif k == "got_state_mutate":
        # mutating what get_state() returned must not reach the flow or its backup
        s = f.get_state()
        s["metadata"]["poison"] = 1
        for v in s["metadata"].values():
            if isinstance(v, list):
                v.append("poison")
        if s["backup"]:
            s["backup"]["metadata"]["poison"] = 2
            s["backup"]["marked"] = "poison"
            if isinstance(s["backup"].get("messages"), list):
                s["backup"]["messages"].append("poison")
        if isinstance(s.get("messages"), list):
            s["messages"].append("poison")
        s["marked"] = "poison"
    elif isinstance(f, http.HTTPFlow):
        _apply_http(f, e)
    elif isinstance(f, (tcp.TCPFlow, udp.UDPFlow)):
        _apply_msg(f, e)
    elif isinstance(f, dns.DNSFlow):
        _apply_dns(f, e)


def _apply_http(f, e):
    k = e[0]
    rq, rs, ws = f.request, f.response, f.websocket
    if k == "req_header":
        rq.headers[e[1]] = e[2]
    elif k == "req_header_del":
        rq.headers.pop(e[1], None)
    elif k == "req_headers_inplace":
        rq.headers.add("x-dup", "1")
    elif k == "req_content":
        rq.content = _b(e[1])
    elif k == "req_path":
        rq.path = _b(e[1]).decode()
    elif k == "req_method":
        rq.method = _b(e[1]).decode()
    elif k == "req_host":
        if e[1]:
            rq.host = e[1]
    elif k in ("req_trailers", "resp_trailers"):
        m = rq if k == "req_trailers" else rs
        if m is not None:
            m.trailers = None if e[1] is None else http.Headers() if e[1] == "empty" else http.Headers([(b"t", b"1")])
    elif k in ("trailers_inplace", "headers_inplace"):
        m = rq if e[1] == "req" else rs
        h = None if m is None else (m.trailers if k == "trailers_inplace" else m.headers)
        if h is not None:       # the Headers object itself is mutated, the attribute is not rebound
            if e[2] == "set":
                h[e[3]] = e[4]
            elif e[2] == "add":
                h.add(e[3], e[4])
            elif e[2] == "del":
                h.pop(e[3], None)
            else:
                h.clear()
    elif k == "headers_empty":
        m = rq if e[1] == "req" else rs
        if m is not None:
            m.headers = http.Headers()
    elif k == "resp_none":
        f.response = None
    elif k == "resp_new":
        f.response = tutils.tresp(status_code=e[1], content=_b(e[2]))
    elif rs is not None and k == "resp_status":
        rs.status_code = e[1]
    elif rs is not None and k == "resp_header":
        rs.headers[e[1]] = e[2]
    elif rs is not None and k == "resp_content":
        rs.content = _b(e[1])
    elif rs is not None and k == "resp_reason":
        rs.reason = _b(e[1]).decode()
    elif ws is not None:
        n = len(ws.messages)
        if k == "ws_append":
            ws.messages.append(websocket.WebSocketMessage(Opcode.TEXT, n % 2 == 0, _b(e[1]), 946681206.0))
        elif k == "ws_edit" and n:
            ws.messages[e[1] % n].content = _b(e[2])
        elif k == "ws_pop" and n:
            ws.messages.pop()
        elif k == "ws_drop" and n:
            ws.messages[e[1] % n].drop()
        elif k == "ws_close":
            ws.close_code = e[1]
        elif k == "ws_none":
            f.websocket = None


def _apply_msg(f, e):
    k = e[0]
    cls = tcp.TCPMessage if isinstance(f, tcp.TCPFlow) else udp.UDPMessage
    n = len(f.messages)
    if k == "msg_append":
        f.messages.append(cls(n % 2 == 0, _b(e[1]), 946681206.0))
    elif k == "msg_edit" and n:
        f.messages[e[1] % n].content = _b(e[2])
    elif k == "msg_pop" and n:
        f.messages.pop()
    elif k == "msg_flip" and n:
        m = f.messages[e[1] % n]
        m.from_client = not m.from_client
    elif k == "msg_clear":
        f.messages = []


def _apply_dns(f, e):
    k = e[0]
    if k == "dns_id":
        f.request.id = e[1]
    elif k == "dns_q":
        if f.request.questions and e[1].isascii():
            f.request.questions[0].name = e[1]
    elif k == "dns_resp_none":
        f.response = None
    elif k == "dns_resp_new":
        f.response = tutils.tdnsresp()
    elif k == "dns_flag":
        f.request.recursion_desired = e[1]
    elif k == "dns_q_append":
        f.request.questions.append(dns.Question("example.org", dns.types.AAAA, dns.classes.IN))
    elif f.response is not None and k == "dns_ans_edit":
        if f.response.answers:
            f.response.answers[0].ttl = e[1]
    elif f.response is not None and k == "dns_ans_append":
        f.response.answers.append(dns.ResourceRecord("dns.google", dns.types.A, dns.classes.IN, 32, b"\x01\x02\x03\x04"))
    elif f.response is not None and k == "dns_ans_pop":
        if f.response.answers:
            f.response.answers.pop()


def _canon(v):
    """canonical text of a state value (types visible), to notice == between values of different shape"""
    if isinstance(v, dict):
        return "{" + ",".join(f"{k!r}:{_canon(v[k])}" for k in sorted(v, key=repr)) + "}"
    if isinstance(v, (list, tuple)):
        return type(v).__name__[0] + "(" + ",".join(_canon(x) for x in v) + ")"
    return f"{type(v).__name__}:{v!r}"


class _Intern:
    def __init__(self):
        self.vals, self.loose = [], False

    def tok(self, v):
        for i, w in enumerate(self.vals):
            if w == v:
                if _canon(w) != _canon(v):
                    self.loose = True
                return i
        self.vals.append(_copy.deepcopy(v))
        return len(self.vals) - 1


def _abs(d, ids, cs):
    if d is None:
        return None
    if not isinstance(d, dict) or "backup" not in d or "id" not in d:
        raise TypeError("state is not a dict with id and backup entries")
    content = {k: v for k, v in d.items() if k not in ("id", "backup")}
    return [ids.tok(d["id"]), cs.tok(content), _abs(d["backup"], ids, cs)]


def _observe(store, ids, cs):
    out = []
    for f in store:
        st = f.get_state()
        tr = ""
        for m in (getattr(f, "request", None), getattr(f, "response", None)):
            t = getattr(m, "trailers", "-") if m is not None else "-"
            tr += "-" if isinstance(t, str) else "N" if t is None else "F" if len(t) else "E"
        out.append({"live": bool(f.live), "mod": bool(f.modified()), "bk": _abs(f._backup, ids, cs), "tr": tr,
                    "st": _abs(st, ids, cs), "truthy": bool(f._backup), "modt": type(f.modified()).__name__})
    return out


def run_impl(case):
    ids, cs = _Intern(), _Intern()
    store = [_make(case["ft"])]
    obs = {"init": None, "steps": [], "exc": None}
    try:
        obs["init"] = _observe(store, ids, cs)
        for n, op in enumerate(case["ops"]):
            k, i = op[0], op[1]
            f = store[i]
            if k == "edit":
                _apply_edit(f, op[2])
            elif k == "live":
                f.live = op[2]
            elif k == "backup":
                f.backup()
            elif k == "revert":
                f.revert()
            elif k == "copy":
                store.append(f.copy())
            elif k == "reload":
                f.set_state(f.get_state())
            else:
                raise ValueError(k)
            obs["steps"].append(_observe(store, ids, cs))
    except Exception as e:  # any exception is its own observable: the model has no error path
        obs["exc"] = f"step {len(obs['steps'])}: {type(e).__name__}: {e}"[:200]
    obs["loose"] = ids.loose or cs.loose
    return obs


# ---------------------------------------------------------------- Coq printer
def _cst(a):
    inner = "(@None (state N))" if a[2] is None else f"(Some {_cst(a[2])})"
    return f"(St {cN(a[0])} {cN(a[1])} {inner})"


def _cob(o):
    bk = "(@None (state N))" if o["bk"] is None else f"(Some {_cst(o['bk'])})"
    return f"(Ob {cbool(o['live'])} {cbool(o['mod'])} {bk} {_cst(o['st'])})"


def coq_case(case, obs):
    if obs["exc"] is not None or obs["init"] is None:
        return "Raised"
    o0 = obs["init"][0]
    steps = []
    for op, so in zip(case["ops"], obs["steps"]):
        k, i = op[0], op[1]
        if k == "edit":
            c = f"Edit {cnat(i)} (fun _ => {cN(so[i]['st'][1])})"
        elif k == "live":
            c = f"SetLive {cnat(i)} {cbool(op[2])}"
        elif k == "backup":
            c = f"Backup {cnat(i)}"
        elif k == "revert":
            c = f"Revert {cnat(i)}"
        elif k == "reload":
            c = f"Reload {cnat(i)}"
        else:
            c = f"Copy {cnat(i)} {cN(so[-1]['st'][0])}"
        steps.append(f"({c}, {clist((_cob(o) for o in so), 'obs')})")
    return f"Case {cN(o0['st'][0])} {cN(o0['st'][1])} {cbool(o0['live'])} {_cob(o0)} {clist(steps, '(op N * list obs)')}"


# ---------------------------------------------------------------- oracle: the property on the implementation
def oracle(case, obs):
    v = []
    if obs["exc"] is not None:
        return [{"key": "exception", "what": f"{case['ft']} {obs['exc']}"}]
    if obs.get("loose"):
        v.append({"key": "loose-equality", "what": "two states compare == but differ in shape/type"})

    def add(key, what):
        if not any(x["key"] == key for x in v):
            v.append({"key": key, "what": f"{case['ft']}: {what}"})

    prev = obs["init"]
    # snapshot[i] = (id, content) at the effective backup of flow i, None when no backup is pending
    snap = [None]
    for o in prev:
        if o["bk"] is not None or o["mod"] or o["st"][2] is not None:
            add("initial-backup", "a new flow has a backup or reports modified")
    for n, (op, cur) in enumerate(zip(case["ops"], obs["steps"])):
        k, i = op[0], op[1]
        where = f"after op {n} {op}"
        if k == "copy":
            if len(cur) != len(prev) + 1:
                add("copy-count", where); break
            src, new = prev[i], cur[-1]
            if new["st"][0] in [o["st"][0] for o in prev]:
                add("copy-id-not-fresh", f"{where}: copy has an id already in use")
            if new["st"][1] != src["st"][1]:
                add("copy-content-differs", f"{where}: content of the copy differs from the original")
            if new["live"]:
                add("copy-live", f"{where}: copy is live")
            # the pending backup travels with the copy, with equal content
            if (new["bk"] is None) != (src["bk"] is None) or (new["bk"] and new["bk"][1] != src["bk"][1]):
                add("copy-backup-differs", f"{where}: pending backup of the copy differs from the original one")
            # ... and describes the copy: reverting the copy must keep the copy's fresh id
            if new["bk"] is not None and new["bk"][0] != new["st"][0]:
                add("copy-revert-restores-original-id",
                    f"{where}: the saved state of the copy carries the id of the original; reverting the copy gives it that id")
            snap.append(None if new["bk"] is None else (new["bk"][0], new["bk"][1]))
        elif len(cur) != len(prev):
            add("store-size", where); break
        # independence: an operation on flow i changes no other flow
        for j, (a, b) in enumerate(zip(prev, cur)):
            if j != i and a != b:
                add("not-independent", f"{where}: flow {j} changed")
        me, before = cur[i], prev[i]
        if k == "copy" and me != before:
            add("copy-changes-original", where)
        if k == "backup":
            if snap[i] is None:
                snap[i] = (before["st"][0], before["st"][1])
            if me["st"][:2] != before["st"][:2] or me["live"] != before["live"]:
                add("backup-changes-state", where)
        if k == "edit" and me["live"] != before["live"]:
            add("edit-changes-live", where)
        if k == "revert":
            if snap[i] is not None:
                if (me["st"][0], me["st"][1]) != snap[i]:
                    add("revert-not-exact", f"{where}: state after revert differs from the backed-up state")
            elif me != before:
                add("revert-without-backup-changes", where)
            if me["st"][2] is not None or me["bk"] is not None:
                add("revert-keeps-backup", f"{where}: backup still present after revert")
            if me["live"] != before["live"]:
                add("revert-changes-live", where)
            snap[i] = None
        if k == "reload" and me != before:
            add("reload-changes-state", f"{where}: set_state(get_state()) is not the identity on the state")
        # per-flow invariants after every operation
        for j, o in enumerate(cur):
            s = snap[j]
            if (o["bk"] is None) != (s is None) or (s is not None and (o["bk"][0], o["bk"][1]) != s):
                add("backup-not-snapshot", f"{where}: _backup of flow {j} is not the state saved by backup()")
            if o["bk"] is not None and o["bk"][2] is not None:
                add("nested-backup", f"{where}: the saved state of flow {j} itself contains a backup")
            if o["st"][2] != o["bk"]:
                add("get-state-backup", f"{where}: get_state()[backup] of flow {j} differs from _backup")
            expect = s is not None and s != (o["st"][0], o["st"][1])
            if o["mod"] != expect:
                if o["mod"] and s is not None:
                    add("modified-without-change", f"{where}: flow {j} equals its backup but modified() is True")
                else:
                    add("modified-wrong", f"{where}: flow {j} modified()={o['mod']} expected {expect}")
            if o["modt"] != "bool" or o["truthy"] != (o["bk"] is not None):
                add("modified-type", where)
        # ids stay pairwise distinct
        idl = [o["st"][0] for o in cur]
        if len(set(idl)) != len(idl):
            if k == "revert" and before["bk"] is not None and before["bk"][0] != before["st"][0]:
                add("copy-revert-restores-original-id",
                    f"{where}: reverting a copy made while a backup was pending gives it the id of the original")
            elif len(set(o["st"][0] for o in prev)) == len(prev):
                add("id-collision", where)
        prev = cur
    return v


def nontrivial(case, obs):
    if obs["exc"] is not None or not obs["steps"]:
        return False
    return any(o["bk"] is not None for so in obs["steps"] for o in so) or len(obs["steps"][-1]) > 1


def classify(case, obs):
    if obs["exc"] is not None:
        return ["exception"]
    tags = ["ft=" + case["ft"]]
    kinds = {op[0] for op in case["ops"]}
    tags += ["op=" + k for k in sorted(kinds)]
    allo = [o for so in obs["steps"] for o in so]
    if any(o["mod"] for o in allo):
        tags.append("modified=T")
    if any((not o["mod"]) and o["bk"] is not None for o in allo):
        tags.append("backup-unmodified")
    prev = obs["init"]
    for op, cur in zip(case["ops"], obs["steps"]):
        i = op[1]
        if op[0] == "revert":
            tags.append("revert-effective" if prev[i]["bk"] is not None else "revert-noop")
            if prev[i]["bk"] is not None and prev[i]["st"][1] != prev[i]["bk"][1]:
                tags.append("revert-undoes-edit")
        if op[0] == "backup" and prev[i]["bk"] is not None:
            tags.append("backup-repeated")
        if op[0] == "copy":
            tags.append("copy-with-backup" if prev[i]["bk"] is not None else "copy-plain")
            if "E" in prev[i].get("tr", ""):
                tags.append("copy-with-empty-trailers")
        if op[0] == "backup" and prev[i]["bk"] is None and "E" in prev[i].get("tr", ""):
            tags.append("backup-with-empty-trailers")
        if op[0] == "edit" and op[2][0] in _ALL_INPLACE and cur[i]["st"][1] != prev[i]["st"][1]:
            if prev[i]["bk"] is not None:
                tags.append("inplace-edit-with-pending-backup")
            if len(prev) > 1:
                tags.append("inplace-edit-with-copies")
            if op[2][0] == "trailers_inplace":
                tags.append("inplace-trailers-" + ("after-empty" if "E" in prev[i].get("tr", "") else "nonempty"))
        if op[0] == "edit" and cur[i]["st"][1] == prev[i]["st"][1]:
            tags.append("edit-no-change")
        if op[0] == "edit" and cur[i]["st"][1] != prev[i]["st"][1]:
            tags.append("edit-" + op[2][0].split("_")[0])
        prev = cur
    return sorted(set(tags))
