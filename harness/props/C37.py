"""C37 -- Flow files are crash-consistent (mitmproxy/io/io.py FlowReader.stream / FilteredFlowWriter.add,
mitmproxy/io/tnetstring.py load, mitmproxy/addons/save.py). Shares model and machinery with C36."""
import io
import os
import tempfile

from lib.coqterm import cnat, clist, hx, unhx
from props import C36 as base
from props.C36 import M, cbytes, coq_tv, coq_ftab, coq_stab, coq_final, to_j

ID = "C37"
QUICK_N = 280
THOROUGH_N = 2400
SHARD = 40
CASE_TYPE = "case37"
COQ_PRELUDE = "From MV Require Import Model.Tnet Model.SaveStream Corr.C36.\nFrom MV Require Import Corr.C37.\n"
TRANSLATORS = ["flowreader_except", "connection_literals"]
RULE = ("kinds: rotate 12% = the real Save addon with a strftime() save_stream_file (minute/second/day/directory patterns, optional filter, append mode) under a fake clock (save.datetime patched) whose ticks cross rotation boundaries between interleaved hooks of 2-5 flows of every type; after EVERY hook all stream files are re-read with FlowReader and must hold exactly the finished matching flows, in order, each complete; reconf 14% = the real Save addon driven through the real options manager: 3-10 events, save_stream_file changes to three openable paths (one needing mkdir), a directory and a path under a regular file (OptionsError + rollback), append/overwrite, switching off, pre-existing files, COMBINED updates (file + filter in one options.update, valid '~all' / None / unparsable '~~') and filter-only updates, interleaved with finished flows of every type; after EVERY event all files are re-read (also a Coq case against Model/SaveStream.v); trunc-stub 34% = 1-4 small generated records (value trees with floats/UTF-8/nested dicts, occasionally a "
        "non-dict or a record on which from_state raises) read through the real FlowReader (from_state stubbed) at EVERY "
        "truncation offset; trunc-real 12% = files of 1-3 real flows of every type (generated field values) written by "
        "FlowWriter, every truncation offset through the real reader and real from_state (Coq side: boundaries +-2 and "
        "30 random offsets); adds 16% = FilteredFlowWriter (with and without filter) on a real buffered file, disk content "
        "re-read after every add; savehooks 12% = the Save addon with save_stream_file, a generated hook sequence over "
        "several flows, disk content re-read after every hook. Non-trivial = at least two records or a cut strictly "
        "inside a record; distinct by canonical JSON.")
TRUSTED = base.TRUSTED + ["durability of flush(): the oracle re-opens the file through the OS page cache; power-loss "
                          "semantics of the file system are not modelled"]
ASSUMPTIONS = base.ASSUMPTIONS + ["the untruncated file loads (every record is a flow state accepted by from_state and within the stack budget)"]

setup_impl = base.setup_impl


def _read_all(b: bytes, keep=False):
    """the real reader on b (no thread: truncation cases are shallow)"""
    return base._stream(b, keep)


def _tables(b: bytes, mode: str):
    with base._Patched(mode, True) as p:
        try:
            base.with_big_limit(base._stream, b)
        except Exception:  # noqa
            pass
    fs, seen = [], set()
    for v, e in p.states:
        key = repr(v)
        if key not in seen:
            seen.add(key)
            fs.append([v, e])
    return base.ftable_of(p.floats), fs, [v for v, e in p.states if e is None]


def gen(rng, n, tier):
    out = []
    for _ in range(n):
        r = rng.random()
        if r < 0.12:
            rs = [base.flow_recipe(rng) for _ in range(rng.randint(2, 5))]
            for x in rs:
                x["cert"] = False
            pending = [i for i in range(len(rs)) for _ in range(2)]
            rng.shuffle(pending)
            pos = {i: 0 for i in range(len(rs))}
            order = []
            for i in pending:
                order.append([i, pos[i]])
                pos[i] += 1
            out.append({"k": "rotate", "recipes": rs, "order": order,
                        "ticks": [rng.choice([0, 0, 1, 20, 45, 61, 61, 3600, 86400]) for _ in order],
                        "pattern": rng.choice(["s-%Y%m%d-%H%M.mitm", "s-%Y%m%d-%H%M.mitm", "s-%Y%m%d-%H%M%S", "%Y%m%d/%H/s-%M", "s-%Y%m%d"]),
                        "start": rng.choice([[2024, 5, 17, 11, 58, 30], [2023, 12, 31, 23, 59, 50], [2024, 2, 29, 0, 0, 0]]),
                        "filter": rng.choice([None, None, None, "~http", "!~dns", "~tcp | ~udp"]),
                        "append": rng.chance(0.3)})
        elif r < 0.26:
            nev = rng.randint(3, 10)
            evs, nf = [], 0
            for j in range(nev):
                q = rng.random()
                if j == 0 and rng.chance(0.8) or q < 0.38:
                    # paths 0..2 can be opened, 3 is a directory, 4 has a regular file as parent
                    ev = ["set", {"append": rng.chance(0.35), "path": rng.choice([0, 0, 1, 1, 2, 3, 3, 4])}]
                    if j > 0 and rng.chance(0.45):   # COMBINED update: file + filter in one options.update
                        ev.append(rng.choice(["bad", "bad", "bad", "ok", "ok", "off"]))
                    evs.append(ev)
                elif q < 0.45:
                    evs.append(["set", None] + ([rng.choice(["bad", "ok"])] if rng.chance(0.3) else []))
                elif q < 0.52:
                    evs.append(["flt", rng.choice(["bad", "ok", "off"])])
                else:
                    evs.append(["finish", nf])
                    nf += 1
            out.append({"k": "reconf", "events": evs, "types": [rng.choice(["http", "http", "tcp", "udp", "dns", "ws"]) for _ in range(nf)],
                        "init": [[p_, [100 + p_]] for p_ in range(3) if rng.chance(0.3)]})
        elif r < 0.60:
            recs = []
            for _i in range(rng.randint(1, 4)):
                q = rng.random()
                if q < 0.9:
                    v = base.small_state(rng)
                    if rng.chance(0.85):
                        v.pop("raise", None)
                else:
                    v = base.rand_value(rng, 1)
                recs.append(to_j(v))
            out.append({"k": "trunc-stub", "recs": recs})
        elif r < 0.72:
            rs = [base.flow_recipe(rng) for _ in range(rng.choice([1, 1, 2, 2, 3]))]
            for x in rs:
                x["cert"] = x["cert"] and rng.chance(0.3)
            out.append({"k": "trunc-real", "recipes": rs, "coq": rng.chance(0.4) and not any(x["cert"] for x in rs) and len(rs) <= 2,
                        "pick": [rng.below(1 << 30) for _ in range(30)]})
        elif r < 0.88:
            rs = [base.flow_recipe(rng) for _ in range(rng.randint(1, 4))]
            for x in rs:
                x["cert"] = False
            out.append({"k": "adds", "recipes": rs, "filter": rng.choice([None, None, "~http", "~tcp | ~udp", "~m POST", "!~dns"]),
                        "big": rng.chance(0.3), "coq": len(rs) <= 2 and rng.chance(0.6)})
        else:
            rs = [base.flow_recipe(rng) for _ in range(rng.randint(1, 4))]
            for x in rs:
                x["cert"] = False
            # interleave: keep per-flow order, shuffle across flows
            order = []
            pos = {i: 0 for i in range(len(rs))}
            pending = [i for i in range(len(rs)) for _ in range(2)]
            rng.shuffle(pending)
            for i in pending:
                order.append([i, pos[i]])
                pos[i] += 1
            out.append({"k": "savehooks", "recipes": rs, "order": order, "drop_last": rng.chance(0.3), "append": rng.chance(0.3)})
    return out


def _offsets_obs(data: bytes, full_n: int):
    obs = []
    for k in range(len(data) + 1):
        out, fin, msg = _read_all(data[:k])
        obs.append([k, len(out), fin if fin in ("clean", "fre") else fin])
    return obs


def run_impl(case):
    k = case["k"]
    tnet = M["tnet"]
    if k == "trunc-stub":
        vals = [base.from_j(j) for j in case["recs"]]
        recs = [tnet.dumps(v) for v in vals]
        data = b"".join(recs)
        ft, fs, full_vals = _tables(data, "stub")
        with base._Patched("stub", False):
            offs = _offsets_obs(data, len(recs))
            full = _read_all(data)
        return {"data": hx(data), "lens": [len(x) for x in recs], "offsets": offs, "ft": ft, "fs": fs, "values": full_vals,
                "full": [len(full[0]), full[1]], "depth": M["d_stream"]}
    if k == "trunc-real":
        base.load_cert()
        flows = [base.mkflow(r) for r in case["recipes"]]
        states = [f.get_state() for f in flows]
        recs = [tnet.dumps(s) for s in states]
        data = base.write_flows(flows)
        assert data == b"".join(recs)
        ft, fs, full_vals = _tables(data, "real")
        offs = []
        bad_state = None
        bounds, acc = [0], 0
        for x in recs:
            acc += len(x)
            bounds.append(acc)
        for kk in range(len(data) + 1):
            out, fin, msg = _read_all(data[:kk], True)
            offs.append([kk, len(out), fin])
            # the flows delivered must be the first len(out) flows written (state equality up to tuple/list);
            # compared near every record boundary and at every 61st offset
            near = any(abs(kk - b) <= 1 for b in bounds) or kk % 61 == 0
            for i, f in enumerate(out if near else []):
                if bad_state is None and (i >= len(states) or not base.py_eq_j(to_j(f.get_state()), to_j(states[i]))):
                    bad_state = [kk, i]
        o = {"lens": [len(x) for x in recs], "offsets": offs, "bad_state": bad_state, "depth": M["d_stream"]}
        if case.get("coq"):
            o.update(data=hx(data), ft=ft, fs=fs, values=full_vals)
        return o
    if k == "adds":
        base.load_cert()
        from mitmproxy import flowfilter
        flows = [base.mkflow(r) for r in case["recipes"]]
        if case["big"]:
            flows[0].comment = "c" * 20000   # larger than the file object's write buffer
        flt = flowfilter.parse(case["filter"]) if case["filter"] else None
        d = tempfile.mkdtemp(prefix="c37-")
        path = os.path.join(d, "flows")
        snaps, expected = [], b""
        exp_each = []
        try:
            with open(path, "wb") as fo:
                w = M["mio"].FilteredFlowWriter(fo, flt)
                for f in flows:
                    if flt is None or flowfilter.match(flt, f):
                        expected += tnet.dumps(f.get_state())
                    w.add(f)
                    with open(path, "rb") as rd:
                        disk = rd.read()
                    out, fin, msg = _read_all(disk)
                    snaps.append({"len": len(disk), "n": len(out), "fin": fin, "eq": disk == expected})
                    exp_each.append(len(expected))
            with open(path, "rb") as rd:
                final = rd.read()
        finally:
            try:
                os.unlink(path)
            except OSError:
                pass
            os.rmdir(d)
        o = {"snaps": snaps, "exp_lens": exp_each, "final_eq": final == expected, "depth": M["d_stream"]}
        if case.get("coq") and not case["big"] and all(s["eq"] for s in snaps):
            ft, fs, full_vals = _tables(final, "real")
            o.update(data=hx(final), ft=ft, fs=fs, values=full_vals)
        return o
    if k == "savehooks":
        base.load_cert()
        from mitmproxy.addons import save
        from mitmproxy.test import taddons
        flows = [base.mkflow(r) for r in case["recipes"]]
        d = tempfile.mkdtemp(prefix="c37-")
        path = os.path.join(d, "stream")
        snaps, saved = [], []
        pre = b""
        try:
            if case["append"]:
                pre = tnet.dumps(flows[0].get_state())
                with open(path, "wb") as fo:
                    fo.write(pre)
            sa = save.Save()
            with taddons.context(sa) as tctx:
                tctx.configure(sa, save_stream_file=("+" if case["append"] else "") + path)
                order = case["order"][:-1] if case["drop_last"] else case["order"]
                for i, phase in order:
                    f = flows[i]
                    t = case["recipes"][i]["type"]
                    start, end = {"http": ("request", "response"), "ws": ("request", "websocket_end"), "tcp": ("tcp_start", "tcp_end"),
                                  "udp": ("udp_start", "udp_end"), "dns": ("dns_request", "dns_response")}[t]
                    if t in ("http", "dns") and case["recipes"][i]["err"] and phase == 1:
                        end = "error" if t == "http" else "dns_error"
                    if phase == 1:
                        saved.append(tnet.dumps(f.get_state()))
                    getattr(sa, end if phase else start)(f)
                    with open(path, "rb") as rd:
                        disk = rd.read()
                    out, fin, msg = _read_all(disk)
                    snaps.append({"len": len(disk), "n": len(out), "fin": fin, "eq": disk == pre + b"".join(saved)})
                n_before_done = len(saved)
                sa.done()
                with open(path, "rb") as rd:
                    disk = rd.read()
                out, fin, msg = _read_all(disk)
                snaps.append({"len": len(disk), "n": len(out), "fin": fin, "eq": None, "prefix_ok": disk.startswith(pre + b"".join(saved))})
        finally:
            try:
                os.unlink(path)
            except OSError:
                pass
            os.rmdir(d)
        return {"snaps": snaps, "nsaved": len(saved), "pre": 1 if pre else 0}
    if k == "rotate":
        return run_rotate(case)
    if k == "reconf":
        return run_reconf(case)
    raise ValueError(k)


HOOKS = {"http": ("request", "response"), "ws": ("request", "websocket_end"), "tcp": ("tcp_start", "tcp_end"),
         "udp": ("udp_start", "udp_end"), "dns": ("dns_request", "dns_response")}


def run_rotate(case):
    """the real Save addon with a strftime() save_stream_file and a fake clock that crosses rotation
    boundaries between hooks; after EVERY hook all stream files are re-read from disk"""
    import datetime as _dt
    import shutil
    from mitmproxy import flowfilter
    from mitmproxy.addons import save
    from mitmproxy.test import taddons
    base.load_cert()
    tnet = M["tnet"]

    class FakeDatetime(_dt.datetime):
        now_value = _dt.datetime(*case["start"])

        @classmethod
        def today(cls):
            return cls.now_value

    flows = [base.mkflow(r) for r in case["recipes"]]
    for i, f in enumerate(flows):
        f.id = "flow-%d" % i
    flt = flowfilter.parse(case["filter"]) if case["filter"] else None
    d = tempfile.mkdtemp(prefix="c37-")
    orig_dt = save.datetime
    steps, finished = [], []       # finished: [id, state-json] of matching flows whose end hook has run
    try:
        save.datetime = FakeDatetime
        sa = save.Save()
        with taddons.context(sa) as tctx:
            tctx.configure(sa, save_stream_file=("+" if case["append"] else "") + os.path.join(d, case["pattern"]),
                           save_stream_filter=case["filter"])
            for (i, phase), tick in zip(case["order"], case["ticks"]):
                FakeDatetime.now_value += _dt.timedelta(seconds=tick)
                f = flows[i]
                t = case["recipes"][i]["type"]
                start, end = HOOKS[t]
                if t in ("http", "dns") and case["recipes"][i]["err"] and phase == 1:
                    end = "error" if t == "http" else "dns_error"
                if phase == 1 and (flt is None or flowfilter.match(flt, f)):
                    finished.append([f.id, to_j(f.get_state())])
                raised = None
                try:
                    getattr(sa, end if phase else start)(f)
                except SystemExit:
                    raised = "SystemExit"
                except Exception as e:  # the addon manager logs hook errors and carries on  # noqa
                    raised = type(e).__name__
                files = sorted(os.path.join(r, x) for r, _, fs in os.walk(d) for x in fs)   # names sort chronologically
                got, bad, fin_all = [], None, "clean"
                for pth in files:
                    with open(pth, "rb") as rd:
                        out, fin, msg = _read_all(rd.read(), True)
                    if fin != "clean" and fin_all == "clean":
                        fin_all = f"{fin} in {os.path.relpath(pth, d)}"
                    got += out
                ids = [g.id for g in got]
                exp = [x[0] for x in finished]
                if ids == exp:
                    for g, (fid, st) in zip(got, finished):
                        if not base.py_eq_j(to_j(g.get_state()), st):
                            bad = fid
                            break
                steps.append({"hook": (end if phase else start), "flow": f.id, "raised": raised, "files": len(files), "fin": fin_all,
                              "ids": ids, "expected": exp, "bad_state": bad,
                              "clock": FakeDatetime.now_value.isoformat()})
            try:
                sa.done()
            except Exception:  # noqa
                pass
    finally:
        save.datetime = orig_dt
        shutil.rmtree(d, ignore_errors=True)
    return {"steps": steps, "nfiles": steps[-1]["files"] if steps else 0, "nfinished": len(finished)}


NPATHS = 5
BAD_PATHS = [3, 4]
FILTERS = {"ok": "~all", "off": None, "bad": "~~"}     # "~~" does not parse -> OptionsError


def _ev_filter(ev):
    return ev[2] if (ev[0] == "set" and len(ev) > 2) else (ev[1] if ev[0] == "flt" else None)


def run_reconf(case):
    """the real Save addon driven through the real options manager: save_stream_file changes (also to
    paths that cannot be opened -> OptionsError + rollback) interleaved with finished flows; after EVERY
    step every file is re-read from disk"""
    import shutil
    from mitmproxy import exceptions
    from mitmproxy.addons import save
    from mitmproxy.test import taddons
    base.load_cert()
    d = tempfile.mkdtemp(prefix="c37-")
    paths = [os.path.join(d, "f0"), os.path.join(d, "sub", "f1"), os.path.join(d, "f2"), os.path.join(d, "adir"), os.path.join(d, "afile", "x")]
    os.mkdir(paths[3])
    with open(os.path.join(d, "afile"), "wb") as fo:
        fo.write(b"x")
    mk = lambda t, n: _mk_typed(t, n)
    for p_, ids in case["init"]:
        os.makedirs(os.path.dirname(paths[p_]), exist_ok=True)
        with open(paths[p_], "wb") as fo:
            w = M["mio"].FlowWriter(fo)
            for n in ids:
                w.add(mk("http", n))
    steps = []
    sa = save.Save()
    try:
        with taddons.context(sa) as tctx:
            tctx.configure(sa)      # registers the addon with the real addon manager / options
            for ev in case["events"]:
                raised, other = False, None
                try:
                    if ev[0] in ("set", "flt"):
                        kw = {}
                        if ev[0] == "set":
                            kw["save_stream_file"] = None if ev[1] is None else ("+" if ev[1]["append"] else "") + paths[ev[1]["path"]]
                        fl = ev[2] if (ev[0] == "set" and len(ev) > 2) else (ev[1] if ev[0] == "flt" else None)
                        if fl:
                            kw["save_stream_filter"] = FILTERS[fl]
                        try:
                            tctx.options.update(**kw)      # ONE update, possibly file + filter together
                        except exceptions.OptionsError:
                            raised = True
                    else:
                        t = case["types"][ev[1]]
                        f = mk(t, ev[1])
                        start, end = HOOKS[t]
                        getattr(sa, start)(f)
                        getattr(sa, end)(f)
                except SystemExit:
                    other = "SystemExit"
                except Exception as e:  # noqa
                    other = type(e).__name__
                files, unclean = [], None
                for i, pth in enumerate(paths):
                    ids = []
                    if os.path.isfile(pth):
                        with open(pth, "rb") as rd:
                            out, fin, msg = _read_all(rd.read(), True)
                        ids = [int(g.id.split("-")[1]) for g in out]
                        if fin != "clean" and unclean is None:
                            unclean = [i, fin]
                    files.append(ids)
                steps.append({"raised": raised, "other": other, "files": files, "unclean": unclean,
                              "option": tctx.options.save_stream_file})
            try:
                tctx.options.update(save_stream_file=None)
            except Exception:  # noqa
                pass
    finally:
        if sa.stream:
            try:
                sa.stream.fo.close()
            except Exception:  # noqa
                pass
        shutil.rmtree(d, ignore_errors=True)
    return {"steps": steps, "root": d}


def _mk_typed(t, n):
    tflow = M["tflow"]
    if t == "http":
        f = tflow.tflow(resp=True)
    elif t == "ws":
        f = tflow.twebsocketflow()
    elif t == "tcp":
        f = tflow.ttcpflow()
    elif t == "udp":
        f = tflow.tudpflow()
    else:
        f = tflow.tdnsflow(resp=True)
    f.id = "flow-%d" % n
    return f


def reconf_reference(case):
    """the property, independently of save.py: a file holds the flows finished while it was the target since
    its last successful open (overwrite) / on top of its old content (append); a rejected change changes nothing"""
    files = {p_: list(ids) for p_, ids in case["init"]}
    cur, exp = None, []
    for ev in case["events"]:
        raised = False
        if _ev_filter(ev) == "bad":
            raised = True          # rejected as a whole: neither option changes, no file is touched
        elif ev[0] == "flt":
            pass
        elif ev[0] == "set":
            if ev[1] is None:
                cur = None
            elif cur is not None and cur["path"] == ev[1]["path"]:
                cur = ev[1]
            elif ev[1]["path"] in BAD_PATHS:
                raised = True
            else:
                files[ev[1]["path"]] = files.get(ev[1]["path"], []) if ev[1]["append"] else []
                cur = ev[1]
        elif cur is not None:
            files.setdefault(cur["path"], []).append(ev[1])
        exp.append([raised, [list(files.get(i, [])) for i in range(NPATHS)]])
    return exp


def _coq_offsets(offs):
    return clist([f"({cnat(k)}, ({cnat(n)}, {coq_final(fin)}))" for k, n, fin in offs], "(nat * (nat * final))")


def coq_case(case, obs):
    k = case["k"]
    if k == "trunc-stub":
        if len(obs["data"]) // 2 >= 4000:
            return None
        return (f"Trunc {cnat(obs['depth'])} {coq_ftab(obs['ft'])} {coq_stab(obs['fs'])} {cbytes(unhx(obs['data']))} "
                f"{clist([coq_tv(v) for v in obs['values']], 'tv')} {_coq_offsets(obs['offsets'])}")
    if k == "trunc-real":
        if "data" not in obs or len(obs["data"]) // 2 >= 4900:
            return None
        n = len(obs["offsets"])
        bounds, acc = [0], 0
        for ln in obs["lens"]:
            acc += ln
            bounds.append(acc)
        sel = set()
        for b in bounds:
            for d in (-2, -1, 0, 1, 2, 12):
                if 0 <= b + d < n:
                    sel.add(b + d)
        for p in case["pick"]:
            sel.add(p % n)
        offs = [obs["offsets"][i] for i in sorted(sel)]
        return (f"Trunc {cnat(obs['depth'])} {coq_ftab(obs['ft'])} {coq_stab(obs['fs'])} {cbytes(unhx(obs['data']))} "
                f"{clist([coq_tv(v) for v in obs['values']], 'tv')} {_coq_offsets(offs)}")
    if k == "reconf":
        if any(st["other"] for st in obs["steps"]):
            return None
        cl = lambda xs: clist([cnat(x) for x in xs], "nat")
        evs = []
        cspec = lambda sp: "None" if sp is None else f"(Some {{| sp_append := {'true' if sp['append'] else 'false'}; sp_path := {cnat(sp['path'])} |}})"
        cur = None        # the option value in force (a filter-only update re-sends it)
        for ev, st in zip(case["events"], obs["steps"]):
            if ev[0] == "finish":
                e = f"Finish {cnat(ev[1])}"
            else:
                target = ev[1] if ev[0] == "set" else cur
                if _ev_filter(ev) == "bad":
                    e = f"SetOptBadFilter {cspec(target)}"
                else:
                    e = f"SetOpt {cspec(target)}"
                    if ev[0] == "set" and not st["raised"]:
                        cur = target
            evs.append(f"({e}, ({'true' if st['raised'] else 'false'}, {clist([cl(x) for x in st['files']], '(list nat)')}))")
        init = clist([f"({cnat(p_)}, {cl(ids)})" for p_, ids in case["init"]], "(nat * list nat)")
        return f"SaveOps {cl(BAD_PATHS)} {init} {cnat(NPATHS)} {clist(evs)}"
    if k == "adds":
        if "data" not in obs or len(obs["data"]) // 2 >= 4900:
            return None
        snaps = clist([f"({cnat(s['len'])}, {cnat(s['n'])})" for s in obs["snaps"]], "(nat * nat)")
        return (f"AfterAdds {cnat(obs['depth'])} {coq_ftab(obs['ft'])} {coq_stab(obs['fs'])} {cbytes(unhx(obs['data']))} "
                f"{clist([coq_tv(v) for v in obs['values']], 'tv')} {snaps}")
    return None


def oracle(case, obs):
    """C37 on the implementation: every truncation delivers exactly the completely written flows, in
    order, then a clean end (only at a record boundary) or FlowReadException; a stream file on disk is
    a concatenation of complete records after every add / save hook."""
    k = case["k"]
    v = []
    if k in ("trunc-stub", "trunc-real"):
        bounds, acc = [0], 0
        for ln in obs["lens"]:
            acc += ln
            bounds.append(acc)
        # first_bad = index of the first record the COMPLETE file does not deliver (stub runs may contain a
        # non-dict record or one on which the stubbed from_state raises); all records when it reads cleanly
        full_n, full_fin = obs["offsets"][-1][1], obs["offsets"][-1][2]
        first_bad = len(obs["lens"]) if full_fin == "clean" else full_n
        for kk, n, fin in obs["offsets"]:
            complete = max(i for i, b in enumerate(bounds) if b <= kk)
            if n != min(complete, first_bad):
                v.append({"key": "truncation-wrong-flows", "what": f"offset {kk} of {acc} (record bounds {bounds}): delivered {n} flows, {min(complete, first_bad)} completely written"})
                break
            if complete > first_bad:
                continue   # a completely contained record is itself unreadable: ends as the complete file does
            if fin not in ("clean", "fre"):
                v.append({"key": "truncation-other-exception", "what": f"offset {kk} of {acc}: reader raised {fin}"})
                break
            if fin == "clean" and kk not in bounds:
                v.append({"key": "truncation-silent", "what": f"offset {kk} of {acc} is inside a record but the reader ended cleanly"})
                break
            if fin != "clean" and kk in bounds:
                v.append({"key": "boundary-not-clean", "what": f"offset {kk} is a record boundary ({bounds}) but the reader ended with {fin}"})
                break
        if k == "trunc-real":
            if obs["bad_state"]:
                v.append({"key": "truncation-wrong-state", "what": f"offset {obs['bad_state'][0]}: flow {obs['bad_state'][1]} differs from the flow written"})
            if first_bad != len(obs["lens"]):
                v.append({"key": "complete-file-not-read", "what": f"complete file delivered {full_n} of {len(obs['lens'])} flows"})
        return v
    if k == "adds":
        for i, s in enumerate(obs["snaps"]):
            if not s["eq"]:
                v.append({"key": "not-flushed-after-add", "what": f"after add #{i + 1} the file on disk has {s['len']} bytes, expected {obs['exp_lens'][i]} (records of all matching flows so far)"})
                break
            if s["fin"] != "clean":
                v.append({"key": "stream-file-incomplete", "what": f"after add #{i + 1} the file on disk does not read cleanly: {s['fin']} after {s['n']} flows"})
                break
        if not obs["final_eq"]:
            v.append({"key": "final-file-differs", "what": "closed file differs from the concatenation of the matching flows' records"})
        return v
    if k == "reconf":
        for i, (st, (xr, xf), ev) in enumerate(zip(obs["steps"], reconf_reference(case), case["events"])):
            where = f"after step #{i + 1} {ev} (events {case['events']}, pre-existing {case['init']})"
            if st["other"]:
                v.append({"key": "save-hook-raised", "what": f"{where}: raised {st['other']}"})
                break
            if st["unclean"]:
                v.append({"key": "stream-file-incomplete", "what": f"{where}: file {st['unclean'][0]} does not read cleanly: {st['unclean'][1]}"})
                break
            if st["files"] != xf:
                v.append({"key": "stream-file-lost-or-extra-flows", "what": f"{where}: files hold {st['files']}, the finished flows per file are {xf}"})
                break
            if st["raised"] != xr:
                v.append({"key": "option-change-outcome", "what": f"{where}: options.update raised={st['raised']}, expected raised={xr}"})
                break
        return v
    if k == "rotate":
        for i, s in enumerate(obs["steps"]):
            where = f"after hook #{i + 1} {s['hook']}({s['flow']}) at clock {s['clock']} (pattern {case['pattern']}, {s['files']} stream files)"
            if s["fin"] != "clean":
                v.append({"key": "stream-file-incomplete", "what": f"{where}: a stream file does not read cleanly: {s['fin']}"})
                break
            if s["ids"] != s["expected"]:
                v.append({"key": "stream-files-missing-finished-flow", "what": f"{where}: stream files hold {s['ids']}, finished matching flows are {s['expected']}" + (f" (the hook raised {s['raised']})" if s["raised"] else "")})
                break
            if s["bad_state"]:
                v.append({"key": "stream-file-content", "what": f"{where}: {s['bad_state']} read back with a different state"})
                break
            if s["raised"]:
                v.append({"key": "save-hook-raised", "what": f"{where}: the hook raised {s['raised']}"})
                break
        return v
    if k == "savehooks":
        for i, s in enumerate(obs["snaps"]):
            if s["fin"] != "clean":
                v.append({"key": "stream-file-incomplete", "what": f"after hook #{i + 1} the stream file does not read cleanly: {s['fin']} after {s['n']} flows ({s['len']} bytes)"})
                break
            if s["eq"] is False:
                v.append({"key": "stream-file-content", "what": f"after hook #{i + 1} the stream file is not the concatenation of the flows completed so far ({s['len']} bytes, {s['n']} flows)"})
                break
            if s.get("prefix_ok") is False:
                v.append({"key": "stream-file-content", "what": "after done() the stream file does not start with the records written before"})
                break
        return v
    return v


def nontrivial(case, obs):
    if case["k"] in ("trunc-stub",):
        return len(case["recs"]) >= 1 and len(obs["offsets"]) > 8
    return True


def classify(case, obs):
    k = case["k"]
    tags = [k]
    if k.startswith("trunc"):
        fins = {}
        for kk, n, fin in obs["offsets"]:
            fins[fin] = fins.get(fin, 0) + 1
        tags += [f"{k}:records={len(obs['lens'])}"] + [f"{k}:some-offset-{f}" for f in fins]
        tags.append(f"{k}:delivered-max={min(obs['offsets'][-1][1], 3)}")
        if k == "trunc-real":
            tags += ["flowtype:" + r["type"] for r in case["recipes"]]
    elif k == "adds":
        tags.append(f"adds:filter={case['filter']}")
        tags.append(f"adds:written={sum(1 for i, s in enumerate(obs['snaps']) if s['len'] > (obs['snaps'][i - 1]['len'] if i else 0))}")
    elif k == "reconf":
        tags += [f"reconf:rejected={min(sum(1 for st in obs['steps'] if st['raised']), 3)}",
                 f"reconf:sets={min(sum(1 for e in case['events'] if e[0] == 'set'), 5)}",
                 f"reconf:combined-bad-filter={min(sum(1 for e in case['events'] if e[0] == 'set' and _ev_filter(e) == 'bad'), 2)}",
                 f"reconf:filter-updates={min(sum(1 for e in case['events'] if _ev_filter(e)), 3)}",
                 f"reconf:finished={min(len(case['types']), 5)}", f"reconf:preexisting={len(case['init'])}"]
    elif k == "rotate":
        tags += [f"rotate:files={min(obs['nfiles'], 5)}", f"rotate:finished={min(obs['nfinished'], 5)}", f"rotate:filter={case['filter']}"]
    else:
        tags.append(f"savehooks:saved={min(obs['nsaved'], 4)}")
    return tags
