"""C36 -- Flow files round-trip every flow type and reading never fails unexpectedly
(mitmproxy/io/tnetstring.py, mitmproxy/io/io.py FlowReader/FlowWriter, flow get_state/from_state).

Also the shared machinery (value encoding, implementation runners, flow builder) used by C37."""
import io
import sys
import threading

from lib.coqterm import cbytes as _cbytes, cbool, cZ, cnat, clist, hx, unhx


def cbytes(b: bytes) -> str:
    """long literals as a concat of 64-byte chunks (coqc is superlinear in the length of one list literal)"""
    if len(b) <= 96:
        return _cbytes(b)
    return "(List.concat [" + ";".join(_cbytes(b[i:i + 64]) for i in range(0, len(b), 64)) + "])"

ID = "C36"
QUICK_N = 3000
THOROUGH_N = 12000
SHARD = 150
RULE = ("first, exhaustively: every flow type x every value of every typed connection field (tls_version, transport_protocol, state, proxy_mode; client and server) drawn from hard-coded independent domains (what OpenSSL/aioquic/the proxy core report), and the Literal check on each such value plus junk spellings; then random kinds: dumps(value tree) 14%, load(bytes) 24%, pop(bytes) 20%, FlowReader.stream over small records with a "
        "stubbed from_state raising every exception class 24%, nesting around the interpreter recursion budget 2%, "
        "real flows of every type (tflow/twebsocketflow/ttcpflow/tudpflow/tdnsflow with generated field values) "
        "written by FlowWriter and read by FlowReader 9%, real flow states with a key deleted/replaced 7%. "
        "Value trees draw leaves from boundary ints/floats/UTF-8/bytes and dict keys of every hashable type; byte "
        "inputs are valid encodings (also with sloppy nested length prefixes: sign, spaces, underscores, leading "
        "zeros, negative lengths, colliding dict keys 1/True/1.0) and ~35% of them mutated (flip, delete, insert "
        "token, truncate, retag). Non-trivial = the input is non-empty and not a bare leaf; distinct by canonical JSON.")
TRUSTED = ["Coq 8.16.1 kernel (coqc), vm_compute for case evaluation",
           "harness/props/C36.py (generator, value<->Coq printers, thread runner, exception classifier) and Corr/C36.v",
           "CPython float(): a parameter of the model (pyfloat); its observed results are supplied per case as a table",
           "Flow.from_state(compat.migrate_flow(state)): a parameter of the model (from_state); observed per case; "
           "get_state/from_state round trip of real flows is checked by the oracle only (not proved)",
           "hand model of CPython int() on bytes-like objects, str(int), UTF-8 strict decoding, memoryview slicing; tied by correspondence",
           "the recursion budget (number of nested pop() frames before RecursionError) is measured on the running interpreter"]
ASSUMPTIONS = ["ints have at most 4300 decimal digits (sys.int_info.default_max_str_digits); larger ints make dumps raise ValueError (not modelled)",
               "str values contain no lone surrogates (their UTF-8 encoding exists); a state with such a str makes dumps raise UnicodeEncodeError",
               "the HAR branch of FlowReader.stream (input starting with '{' or BOM '{') is not modelled beyond the branch condition",
               "from_state never raises ValueError('not a tnetstring: empty file')"]
TRANSLATORS = ["flowreader_except", "connection_literals"]
COQ_PRELUDE = "From MV Require Import Model.Tnet.\n"

EXC_NAMES = ["RecursionError", "KeyError", "IndexError", "AttributeError", "AssertionError", "TypeError", "ValueError"]
EOF_MSG = "not a tnetstring: empty file"


# ------------------------------------------------------------------ values <-> JSON <-> Coq
def to_j(v):
    if v is None:
        return {"z": 0}
    if v is True or v is False:
        return {"t": v}
    if isinstance(v, int):
        return {"i": str(v)}
    if isinstance(v, float):
        return {"f": repr(v)}
    if isinstance(v, bytes):
        return {"b": v.hex()}
    if isinstance(v, str):
        return {"s": v.encode("utf8").hex()}
    if isinstance(v, (list, tuple)):
        return {"l": [to_j(x) for x in v]}
    if isinstance(v, dict):
        return {"d": [[to_j(k), to_j(x)] for k, x in v.items()]}
    raise TypeError(f"not a tnetstring value: {type(v)}")


def from_j(j):
    (k, x), = j.items()
    if k == "z":
        return None
    if k == "t":
        return bool(x)
    if k == "i":
        return int(x)
    if k == "f":
        return float(x)
    if k == "b":
        return bytes.fromhex(x)
    if k == "s":
        return bytes.fromhex(x).decode("utf8")
    if k == "l":
        return [from_j(y) for y in x]
    if k == "d":
        return {from_j(a): from_j(b) for a, b in x}
    raise ValueError(k)


def coq_tv(j) -> str:
    (k, x), = j.items()
    if k == "l" and len(x) == 1:
        # long chains of singleton lists (nesting tests) are printed as (nest n core): coqc's parser
        # overflows its stack on ~500 nested brackets
        n, core = 0, j
        while next(iter(core)) == "l" and len(core["l"]) == 1:
            n, core = n + 1, core["l"][0]
        if n > 20:
            return f"(nest {cnat(n)} {coq_tv(core)})"
    if k == "z":
        return "TNull"
    if k == "t":
        return f"(TBool {cbool(x)})"
    if k == "i":
        return f"(TInt {cZ(int(x))})"
    if k == "f":
        return f"(TFloat {cbytes(x.encode())})"
    if k == "b":
        return f"(TBytes {cbytes(bytes.fromhex(x))})"
    if k == "s":
        return f"(TStr {cbytes(bytes.fromhex(x))})"
    if k == "l":
        return f"(TList {clist([coq_tv(y) for y in x], 'tv')})"
    if k == "d":
        return f"(TDict {clist(['(%s, %s)' % (coq_tv(a), coq_tv(b)) for a, b in x], '(tv * tv)')})"
    raise ValueError(k)


def exc_name(e) -> str:
    for c in type(e).__mro__:
        if c.__name__ in EXC_NAMES:
            return c.__name__
    return "OtherExc"


def coq_ftab(ft) -> str:
    items = []
    for tok, r in ft:
        if r is None:
            rr = "None"
        else:
            iv = "None" if r[1] is None else f"(Some {cZ(int(r[1]))})"
            rr = f"(Some ({cbytes(unhx(r[0]))}, {iv}))"
        items.append(f"({cbytes(unhx(tok))}, {rr})")
    return "(" + clist(items) + " : ftable)" if items else "(nil : ftable)"


def coq_stab(fs) -> str:
    items = [f"({coq_tv(v)}, {'None' if e is None else '(Some %s)' % e})" for v, e in fs]
    return "(" + clist(items) + " : stable)" if items else "(nil : stable)"


def coq_outcome(o) -> str:
    if o["r"] == "val":
        return f"(OVal {coq_tv(o['v'])} {cbytes(unhx(o['rest']))})"
    if o["r"] == "eof":
        return "OEof"
    return f"(OExc {o['e']})"


def coq_final(f: str) -> str:
    return {"clean": "Clean", "fre": "ReadError", "har": "HarBranch"}.get(f) or f"(Other {f})"


# ------------------------------------------------------------------ running the implementation
M = {}  # lazily imported mitmproxy modules and calibrated budgets


def in_thread(fn, *a):
    """Run fn in a fresh thread: the Python frame depth below fn is the same for every case, so the
    number of nested pop() frames available before RecursionError is a constant of the interpreter."""
    box = []

    def run():
        try:
            box.append(("ok", fn(*a)))
        except BaseException as e:  # noqa
            box.append(("exc", e))
    th = threading.Thread(target=run)
    th.start()
    th.join()
    kind, v = box[0]
    if kind == "exc":
        raise v
    return v


def _outcome(fn):
    try:
        v, rest = fn()
        return {"r": "val", "v": to_j(v), "rest": hx(rest)}
    except Exception as e:  # noqa
        if type(e) is ValueError and str(e) == EOF_MSG:
            return {"r": "eof"}
        return {"r": "exc", "e": exc_name(e), "cls": type(e).__name__}


def _load(b: bytes):
    def f():
        fo = io.BytesIO(b)
        v = M["tnet"].load(fo)
        return v, fo.read()
    return _outcome(f)


def _pop(b: bytes):
    def f():
        v, rest = M["tnet"].pop(memoryview(b))
        return v, rest.tobytes()
    return _outcome(f)


class _Patched:
    """Instrumented second pass: records float() calls of tnetstring and the outcome of
    Flow.from_state(compat.migrate_flow(v)) for every v; mode 'stub' replaces both by a policy
    (identity, or raise the class named by the key 'raise')."""
    STUB_EXC = {"KeyError": KeyError, "AttributeError": AttributeError, "AssertionError": AssertionError,
                "ValueError": ValueError, "TypeError": TypeError, "IndexError": IndexError,
                "RecursionError": RecursionError, "OtherExc": OverflowError, "UnicodeDecodeError": None}

    def __init__(self, mode, record):
        self.mode, self.record = mode, record
        self.floats, self.states, self.har = [], [], False

    def __enter__(self):
        tnet, mio, flow = M["tnet"], M["mio"], M["flow"]
        self.orig_mig = mio.compat.migrate_flow
        self.orig_fs = flow.Flow.__dict__["from_state"]
        orig_fs_fn = flow.Flow.from_state
        me = self
        if self.record:
            def rec_float(x):
                tok = bytes(x)
                try:
                    r = float(x)
                except ValueError:
                    me.floats.append((tok, None))
                    raise
                me.floats.append((tok, r))
                return r
            tnet.float = rec_float

            class J:
                def __getattr__(self, n):
                    import json
                    if n == "loads":
                        me.har = True
                    return getattr(json, n)
            self.orig_json = mio.json
            mio.json = J()
        if self.mode == "stub":
            def mig(d):
                if me.record:
                    me.states.append([to_j(d), None])
                return d

            def fs(cls, d):
                name = d.get("raise")
                if isinstance(name, str) and name in me.STUB_EXC:
                    if me.record:
                        me.states[-1][1] = "ValueError" if name == "UnicodeDecodeError" else name
                    if name == "UnicodeDecodeError":
                        b"\xff".decode("utf8")
                    raise me.STUB_EXC[name]("stub")
                return d
            mio.compat.migrate_flow = mig
            flow.Flow.from_state = classmethod(fs)
        elif self.record:
            def mig(d):
                me.states.append([to_j(d), None])
                try:
                    return me.orig_mig(d)
                except Exception as e:  # noqa
                    me.states[-1][1] = exc_name(e)
                    raise

            def fs(cls, d):
                try:
                    return orig_fs_fn(d)
                except Exception as e:  # noqa
                    me.states[-1][1] = exc_name(e)
                    raise
            mio.compat.migrate_flow = mig
            flow.Flow.from_state = classmethod(fs)
        return self

    def __exit__(self, *a):
        tnet, mio, flow = M["tnet"], M["mio"], M["flow"]
        if self.record:
            if "float" in tnet.__dict__:
                del tnet.float
            mio.json = self.orig_json
        mio.compat.migrate_flow = self.orig_mig
        flow.Flow.from_state = self.orig_fs


def _stream(b: bytes, keep=False):
    out = []
    try:
        for f in M["mio"].FlowReader(io.BytesIO(b)).stream():
            out.append(f if keep else None)
        fin = "clean"
        msg = ""
    except M["exceptions"].FlowReadException as e:
        fin, msg = "fre", str(e)
    except Exception as e:  # noqa
        fin, msg = exc_name(e), type(e).__name__
    return out, fin, msg


def float_entry(r):
    if r is None:
        return None
    iv = str(int(r)) if (r == r and r not in (float("inf"), float("-inf")) and r.is_integer()) else None
    return [hx(repr(r).encode()), iv]


def ftable_of(floats):
    ft, seen = [], set()
    for tok, r in floats:
        ent = [(tok, float_entry(r))]
        if r is not None:
            ent.append((repr(r).encode(), float_entry(r)))
        for t, e in ent:
            if t not in seen:
                seen.add(t)
                ft.append([hx(t), e])
    return ft


def with_big_limit(fn, *a):
    old = sys.getrecursionlimit()
    sys.setrecursionlimit(100000)
    try:
        return in_thread(fn, *a)
    finally:
        sys.setrecursionlimit(old)


def record_floats(fn, b):
    """second pass with float() recorded and no recursion limit in the way: a superset of the
    literals the clean pass parses"""
    with _Patched("real", True) as p:
        try:
            with_big_limit(fn, b)
        except Exception:  # noqa
            pass
    return ftable_of(p.floats)


def run_stream(b: bytes, mode: str):
    """clean pass (what the user sees) + instrumented pass (arguments/results of the abstracted functions)"""
    if mode == "stub":
        with _Patched("stub", False):
            out, fin, msg = in_thread(_stream, b)
    else:
        out, fin, msg = in_thread(_stream, b)
    with _Patched(mode, True) as p:
        try:
            with_big_limit(_stream, b)
        except Exception:  # noqa
            pass
    har = p.har or (fin == "fre" and msg.startswith("Unable to read HAR"))
    fs, seen = [], set()
    for v, e in p.states:
        key = repr(v)
        if key not in seen:
            seen.add(key)
            fs.append([v, e])
    oks = [v for v, e in p.states if e is None]
    return {"n": len(out), "final": fin, "cls": msg if fin not in ("clean", "fre") else "", "har": har,
            "values": oks[:len(out)], "ft": ftable_of(p.floats), "fs": fs}


def deep_list(n: int, leaf: bytes = b"") -> bytes:
    s = str(len(leaf)).encode() + b":" + leaf + b"]"
    for _ in range(n):
        s = str(len(s)).encode() + b":" + s + b"]"
    return s


def calibrate(runner, ok):
    lo, hi = 1, 3000
    while lo < hi:
        m = (lo + hi + 1) // 2
        if ok(in_thread(runner, deep_list(m))):
            lo = m
        else:
            hi = m - 1
    return lo


def setup_impl():
    if M:
        return
    from mitmproxy import exceptions, flow  # noqa
    from mitmproxy.io import io as mio, tnetstring  # noqa
    from mitmproxy.test import tflow  # noqa
    M.update(tnet=tnetstring, mio=mio, flow=flow, exceptions=exceptions, tflow=tflow)
    # depth budget = height of the deepest value that still loads (load: parse at level 0 is not a pop)
    M["d_load"] = calibrate(_load, lambda o: o["r"] == "val")
    M["d_pop"] = calibrate(_pop, lambda o: o["r"] == "val") + 1
    M["d_stream"] = calibrate(_stream, lambda o: o[1] != "RecursionError")
    with _Patched("stub", False):
        M["d_stream_stub"] = calibrate(_stream, lambda o: o[1] != "RecursionError")
    assert M["d_stream"] == M["d_stream_stub"], "stub changes the frame depth of load()"


# ------------------------------------------------------------------ generators
INTS = [0, 1, -1, 9, 10, -10, 255, 65535, 2 ** 31, -2 ** 63, 10 ** 12, 10 ** 12 - 1, 999999999999, 10 ** 30, 21, 443]
FLOATS = [0.0, -0.0, 1.0, 1.5, -2.25, 1e23, 1e22, 946681200.0, 946681200.123456, 5e-324, 1.7976931348623157e308,
          float("inf"), float("-inf"), float("nan"), 0.1, 1e16, 123456789.0]
STRS = ["", "a", "version", "type", "raise", "héllo", "€", "\U0001f600", "\x00", "line\r\n", "퟿", "￿",
        "http", "x" * 11, "\u0080߿ࠀ"]
BYTESL = [b"", b"a", b"GET", b"\x00\xff", b"\xc3\xa9", b"\xed\xa0\x80", b"1:a,", b":", b"]", b"0:~", b"\xf4\x90\x80\x80", b"\xc0\x80",
          b"x" * 10, b"\r\n\r\n", b"\xe2\x82"]
MUT_TOKENS = [b":", b",", b";", b"#", b"^", b"!", b"~", b"]", b"}", b"0", b"1", b"9", b"-", b"+", b" ", b"_", b"-1:", b"-2:", b"+1:",
              b" 1:", b"0_1:", b"00", b"0:~", b"0:]", b"0:}", b"1:a,", b"4:true!", b"5:false!", b"3:nan^", b"3:1.0^", b"1:1#", b"{",
              b"\xef\xbb\xbf", b"\x00", b"\xff", b"999999999999:", b"1234567890123:", b"1e5", b"inf", b"\n", b"1_0", b"true", b"\xc3"]
TYPES = b",;#^!~]}"


# INDEPENDENT domains of the typed connection fields: what the TLS stacks / the proxy core produce in
# operation (OpenSSL SSL_get_version(), aioquic), hard-coded here on purpose -- never derived from
# the type annotations of mitmproxy/connection.py
TLS_VERSIONS = [None, "SSLv3", "TLSv1", "TLSv1.1", "TLSv1.2", "TLSv1.3", "DTLSv0.9", "DTLSv1", "DTLSv1.2", "QUICv1"]
TRANSPORTS = ["tcp", "udp"]
CONN_STATES = [0, 1, 2, 3]    # ConnectionState CLOSED / CAN_READ / CAN_WRITE / OPEN (not serialised, must not disturb saving)
PROXY_MODES = ["regular", "transparent", "socks5", "local", "local:curl", "wireguard", "dns", "tun", "upstream:http://proxy:8080",
               "upstream:https://proxy", "reverse:https://example.com", "reverse:http://example.com:8080", "reverse:tcp://10.0.0.1:53",
               "reverse:tls://example.com:853", "reverse:dns://8.8.8.8", "reverse:udp://1.1.1.1:53", "reverse:dtls://example.com:5684",
               "reverse:quic://example.com", "reverse:http3://example.com", "regular@8081", "socks5@127.0.0.1:1080", "dns@53"]
TYPED_FIELDS = {"c_tlsv": TLS_VERSIONS, "s_tlsv": TLS_VERSIONS, "c_transport": TRANSPORTS, "s_transport": TRANSPORTS,
                "c_state": CONN_STATES, "s_state": CONN_STATES, "proxy_mode": PROXY_MODES}
JUNK_LITERALS = ["", "DTLSv1.3", "DTLSv1.2DTLSv1.3", "TLSv1.4", "tlsv1.2", "TLSv1.2 ", "SSLv2", "QUICv2", "sctp", "TCP", "both", "tcpudp"]


def rand_leaf(rng):
    r = rng.below(8)
    if r == 0:
        return None
    if r == 1:
        return rng.chance(0.5)
    if r == 2:
        return rng.choice(INTS) if rng.chance(0.6) else rng.randint(-10 ** 6, 10 ** 6) * rng.choice([1, 10 ** 9, 10 ** 20])
    if r == 3:
        return rng.choice(FLOATS) if rng.chance(0.6) else (rng.randint(-10 ** 9, 10 ** 9) / rng.choice([1, 7, 1000, 10 ** 12]))
    if r in (4, 5):
        return rng.choice(BYTESL) if rng.chance(0.6) else rng.bytes(rng.randint(0, 12))
    return rng.choice(STRS) if rng.chance(0.7) else "".join(chr(rng.choice([rng.randint(32, 126), rng.randint(0x80, 0x7ff), rng.randint(0x800, 0xd7ff), rng.randint(0x10000, 0x10ffff)])) for _ in range(rng.randint(0, 6)))


def rand_key(rng):
    if rng.chance(0.7):
        return rng.choice(STRS) if rng.chance(0.6) else "k%d" % rng.below(50)
    while True:
        k = rand_leaf(rng)
        return k


def rand_value(rng, depth=3):
    if depth <= 0 or rng.chance(0.45):
        return rand_leaf(rng)
    if rng.chance(0.5):
        return [rand_value(rng, depth - 1) for _ in range(rng.randint(0, 4))]
    return {rand_key(rng): rand_value(rng, depth - 1) for _ in range(rng.randint(0, 4))}


def sloppy_len(rng, n: int, nested: bool) -> bytes:
    s = str(n).encode()
    if not nested:
        return (b"0" * rng.randint(0, 2) + s) if rng.chance(0.1) else s
    r = rng.below(12)
    if r == 0:
        return b"+" + s
    if r == 1:
        return b" " + s + b" "
    if r == 2:
        return b"0" + s
    if r == 3 and n >= 10:
        return s[:1] + b"_" + s[1:]
    if r == 4:
        return b"\t" + s + b"\n"
    return s


def enc(rng, j, nested=False, sloppy=0.0) -> bytes:
    """independent encoder of the generator (key before value, insertion order), optionally with
    non-canonical nested length prefixes that split()/int() accept"""
    (k, x), = j.items()
    ty = {"z": b"~", "t": b"!", "i": b"#", "f": b"^", "b": b",", "s": b";", "l": b"]", "d": b"}"}[k]
    if k == "z":
        p = b""
    elif k == "t":
        p = b"true" if x else b"false"
    elif k in ("i", "f"):
        p = x.encode()
        if k == "i" and rng.chance(sloppy):
            p = rng.choice([b" " + p, p + b"\n", b"+" + p if not p.startswith(b"-") else p, b"0" + p if not p.startswith(b"-") else p])
    elif k in ("b", "s"):
        p = bytes.fromhex(x)
    elif k == "l":
        p = b"".join(enc(rng, y, True, sloppy) for y in x)
    else:
        p = b"".join(enc(rng, a, True, sloppy) + enc(rng, b, True, sloppy) for a, b in x)
    n = len(p)
    ln = sloppy_len(rng, n, nested) if rng.chance(sloppy) else str(n).encode()
    return ln + b":" + p + ty


def mutate(rng, b: bytes) -> bytes:
    b = bytearray(b)
    for _ in range(rng.randint(1, 3)):
        r = rng.below(8)
        pos = rng.below(len(b) + 1)
        if r == 0 and b:
            b[pos % len(b)] = rng.below(256)
        elif r == 1 and b:
            del b[pos % len(b)]
        elif r == 2:
            b[pos:pos] = rng.choice(MUT_TOKENS)
        elif r == 3:
            del b[pos:]
        elif r == 4 and b:
            b[pos % len(b)] = rng.choice(TYPES)
        elif r == 5 and b:
            i = pos % len(b)
            if 48 <= b[i] <= 57:
                b[i] = 48 + rng.below(10)
            else:
                b[i] = rng.choice(b":0123456789-")
        elif r == 6 and b:
            i = pos % len(b)
            j = min(len(b), i + rng.randint(1, 6))
            b[i:i] = b[i:j]
        else:
            b += rng.choice(MUT_TOKENS)
    return bytes(b)


def colliding_dict(rng) -> bytes:
    """a dict literal with keys equal under Python == (1, True, 1.0, b'1' vs '1', nan twice, unhashable keys)"""
    pool = [{"i": "1"}, {"t": True}, {"f": "1.0"}, {"f": "1e0"}, {"i": "0"}, {"t": False}, {"f": "-0.0"}, {"f": "0.0"}, {"f": "nan"},
            {"b": "31"}, {"s": "31"}, {"z": 0}, {"f": "1e23"}, {"i": "99999999999999991611392"}, {"i": "100000000000000000000000"},
            {"f": "inf"}, {"f": "1.5"}, {"l": []}, {"d": []}, {"s": "6b"}, {"f": "1_0.0"}, {"f": " 1.5"}, {"f": "1.50"}, {"f": "x"}]
    items = [[rng.choice(pool), {"i": str(n)}] for n in range(rng.randint(1, 5))]
    return enc(rng, {"d": items})


def small_state(rng):
    d = {}
    for _ in range(rng.randint(0, 3)):
        d[rand_key(rng)] = rand_value(rng, 1)
    if rng.chance(0.25):
        d["raise"] = rng.choice(list(_Patched.STUB_EXC))
    return d


# ---- real flows
def flow_recipe(rng):
    t = rng.choice(["http", "http", "ws", "tcp", "udp", "dns"])
    r = {"type": t, "err": rng.chance(0.3), "resp": rng.chance(0.7),
         "comment": rng.choice(STRS), "marked": rng.choice(["", ":grapes:", "❤"]),
         "is_replay": rng.choice([None, "request", "response"]), "intercepted": rng.chance(0.2),
         "metadata": to_j({rand_key(rng) if rng.chance(0.3) else "m%d" % i: rand_value(rng, 2) for i in range(rng.randint(0, 3))}),
         "ts": rng.choice(FLOATS[:11]), "backup": rng.chance(0.2),
         "content": hx(rng.choice(BYTESL) if rng.chance(0.5) else rng.bytes(rng.randint(0, 40))),
         "content_none": rng.chance(0.1),
         "headers": [[hx(rng.choice([b"Host", b"X-A", b"set-cookie", b"\xff", b""])), hx(rng.choice(BYTESL))] for _ in range(rng.randint(0, 3))],
         "trailers": rng.chance(0.3), "method": hx(rng.choice([b"GET", b"POST", b"\xff", b""])), "path": hx(rng.choice([b"/", b"/p?q=\xe2\x82\xac", b"*"])),
         "host": rng.choice(["address", "exämple.com", "::1", ""]), "port": rng.choice([0, 22, 443, 65535]),
         "http_version": hx(rng.choice([b"HTTP/1.1", b"HTTP/2.0", b"HTTP/3"])),
         "status": rng.choice([200, 101, 599]), "reason": hx(rng.choice([b"OK", b"", b"\xe9"])),
         "sni": rng.choice([None, "example.com", "ü.de"]), "alpn": rng.choice([None, hx(b"h2"), hx(b"\xff")]),
         "tls": rng.chance(0.5), "cert": rng.chance(0.3), "cipher_list": rng.below(3), "conn_error": rng.choice([None, "boom ☃"]),
         "peer": [rng.choice(["127.0.0.1", "::1", "höst"]), rng.choice([0, 22, 65535])],
         "address_none": rng.chance(0.15), "via": rng.chance(0.2), "msgs": rng.randint(0, 3), "close_code": rng.choice([None, 1000, 1006]),
         "dns_resp": rng.chance(0.6), "killable": rng.chance(0.1)}
    for fld, dom in TYPED_FIELDS.items():
        r[fld] = rng.choice(dom)
    return r


def mkflow(r):
    tflow = M["tflow"]
    from mitmproxy import flow as mflow, http, tcp, udp, certs
    t = r["type"]
    err = mflow.Error(r["comment"] or "e", r["ts"]) if r["err"] else None
    if t in ("http", "ws"):
        if t == "ws":
            f = tflow.twebsocketflow(messages=True, err=err, close_code=r["close_code"], close_reason=r["comment"])
        else:
            f = tflow.tflow(resp=r["resp"], err=err or False)
        rq = f.request
        rq.data.method = unhx(r["method"])
        rq.data.path = unhx(r["path"])
        rq.data.host = r["host"]
        rq.data.port = r["port"]
        rq.data.http_version = unhx(r["http_version"])
        rq.data.content = None if r["content_none"] else unhx(r["content"])
        rq.data.headers = http.Headers([(unhx(a), unhx(b)) for a, b in r["headers"]])
        if r["trailers"]:
            rq.data.trailers = http.Headers([(unhx(a), unhx(b)) for a, b in r["headers"]])
        rq.data.timestamp_start = r["ts"]
        if f.response:
            f.response.data.status_code = r["status"]
            f.response.data.reason = unhx(r["reason"])
            f.response.data.content = unhx(r["content"])
            f.response.data.timestamp_end = None if r["content_none"] else r["ts"]
        if t == "ws" and f.websocket and r["msgs"] > 1:
            from mitmproxy import websocket
            from wsproto.frame_protocol import Opcode
            for i in range(r["msgs"]):
                f.websocket.messages.append(websocket.WebSocketMessage(Opcode.BINARY if i % 2 else Opcode.TEXT, bool(i % 2),
                                                                      unhx(r["content"]) if i % 2 else r["comment"].encode("utf8"), r["ts"], bool(i % 3 == 0), bool(i % 2)))
    elif t in ("tcp", "udp"):
        f = (tflow.ttcpflow if t == "tcp" else tflow.tudpflow)(messages=True, err=err)
        cls = tcp.TCPMessage if t == "tcp" else udp.UDPMessage
        if r["msgs"] == 0:
            f.messages = []
        for i in range(r["msgs"]):
            f.messages.append(cls(bool(i % 2), unhx(r["content"]), r["ts"]))
    else:
        f = tflow.tdnsflow(resp=r["dns_resp"], err=err or False)
        f.request.id = r["port"]
        f.request.timestamp = r["ts"]
        if f.response:
            f.response.answers[0].data = unhx(r["content"])
            f.response.response_code = r["msgs"]
    f.comment = r["comment"]
    f.marked = r["marked"]
    f.is_replay = r["is_replay"]
    f.intercepted = r["intercepted"]
    f.metadata = from_j(r["metadata"])
    f.timestamp_created = r["ts"]
    c, s = f.client_conn, f.server_conn
    if "c_tlsv" in r:
        from mitmproxy import connection as mconn
        from mitmproxy.proxy import mode_specs
        c.tls_version, s.tls_version = r["c_tlsv"], r["s_tlsv"]
        c.transport_protocol, s.transport_protocol = r["c_transport"], r["s_transport"]
        c.proxy_mode = mode_specs.ProxyMode.parse(r["proxy_mode"])
    c.peername = tuple(r["peer"])
    c.sni = r["sni"]
    c.alpn = None if r["alpn"] is None else unhx(r["alpn"])
    c.tls = r["tls"]
    c.error = r["conn_error"]
    c.cipher_list = ["c%d" % i for i in range(r["cipher_list"])]
    c.alpn_offers = [b"h2", b"\xff"][:r["cipher_list"]]
    c.timestamp_end = None if r["content_none"] else r["ts"]
    c.timestamp_tls_setup = r["ts"] if r["tls"] else None
    if r["cert"]:
        c.mitmcert = M["cert"]
        s.certificate_list = [M["cert"], M["cert"]]
    if r["address_none"]:
        s.address = None
    s.peername = None if r["address_none"] else tuple(r["peer"])
    s.timestamp_tcp_setup = r["ts"]
    s.tls = r["tls"]
    s.sni = r["sni"]
    if r["via"]:
        from mitmproxy.net import server_spec
        s.via = server_spec.parse("https://proxy.example:8080", "https")
    if "c_state" in r:   # last: an open server connection refuses address/via changes
        from mitmproxy import connection as mconn2
        c.state, s.state = mconn2.ConnectionState(r["c_state"]), mconn2.ConnectionState(r["s_state"])
    if r["backup"]:
        f.backup()
        f.comment = f.comment + "!"
    return f


def load_cert():
    if "cert" not in M:
        import os
        from mitmproxy import certs
        repo = os.environ.get("VERIF_REPO", "/repo")
        p = os.path.join(repo, "test/mitmproxy/net/data/text_cert")
        M["cert"] = certs.Cert.from_pem(open(p, "rb").read())


def write_flows(flows) -> bytes:
    fo = io.BytesIO()
    w = M["mio"].FlowWriter(fo)
    for f in flows:
        w.add(f)
    return fo.getvalue()


def gen(rng, n, tier):
    out = []
    # exhaustive: every flow type x every value of every typed connection field (one at a time)
    for t in ("http", "ws", "tcp", "udp", "dns"):
        for fld, dom in TYPED_FIELDS.items():
            for val in dom:
                rc = flow_recipe(rng)
                rc.update(type=t, cert=False)
                rc[fld] = val
                out.append({"k": "flows", "recipes": [rc], "coq": False, "typed": [fld, val]})
    for v in TLS_VERSIONS + JUNK_LITERALS:
        out.append({"k": "literal", "field": "tls_version", "v": v})
    for v in TRANSPORTS + JUNK_LITERALS:
        out.append({"k": "literal", "field": "transport_protocol", "v": v})
    for _ in range(n):
        r = rng.random()
        if r < 0.14:
            out.append({"k": "dumps", "v": to_j(rand_value(rng, rng.randint(0, 3)))})
        elif r < 0.38:
            j = to_j(rand_value(rng, rng.randint(0, 3)))
            b = enc(rng, j, False, 0.25 if rng.chance(0.4) else 0.0)
            if rng.chance(0.3):
                b += rng.choice(MUT_TOKENS + [enc(rng, to_j(rand_leaf(rng)))])
            if rng.chance(0.35):
                b = mutate(rng, b)
            out.append({"k": "load", "data": hx(b)})
        elif r < 0.58:
            q = rng.random()
            if q < 0.25:
                b = colliding_dict(rng)
            else:
                b = enc(rng, to_j(rand_value(rng, rng.randint(1, 3))), True, 0.35 if rng.chance(0.6) else 0.0)
            if rng.chance(0.3):
                b += rng.choice(MUT_TOKENS)
            if rng.chance(0.35):
                b = mutate(rng, b)
            if rng.chance(0.15):
                # negative nested length: data[:-k], data[-k], data[-k+1:]
                inner = rng.choice([b"-1:ab,", b"-2:abc,x", b"-3:a],1:b,", b"-1:1:a,]", b"-2:0:~]x", b"-1:", b"-9:ab,"])
                b = str(len(inner)).encode() + b":" + inner + rng.choice([b"]", b"}"])
            out.append({"k": "pop", "data": hx(b)})
        elif r < 0.82:
            recs = []
            for _i in range(rng.randint(0, 4)):
                v = small_state(rng) if rng.chance(0.9) else rand_value(rng, 1)
                recs.append(enc(rng, to_j(v), False, 0.2 if rng.chance(0.2) else 0.0))
            b = b"".join(recs)
            q = rng.random()
            if q < 0.25:
                b = mutate(rng, b)
            elif q < 0.45 and b:
                b = b[:rng.below(len(b) + 1)]
            elif q < 0.50:
                b = rng.choice([b"{", b"\xef\xbb\xbf{", b"\xef\xbb\xbf", b"{\"log\":{\"entries\":[]}}", b"\xef\xbb"]) + b
            out.append({"k": "stream", "mode": "stub", "data": hx(b)})
        elif r < 0.84:
            out.append({"k": "deep", "via": rng.choice(["load", "pop", "stream"]), "delta": rng.choice([-2, -1, 0, 0, 1, 1, 2, 7]),
                        "leaf": hx(rng.choice([b"", b"0:~", b"1:a,", b"3:1.5^", b"0:]", b"2:1:a"]))})
        elif r < 0.86:
            rc = flow_recipe(rng)
            rc["cert"] = False
            out.append({"k": "dumps", "recipe": rc})
        elif r < 0.93:
            coq = rng.chance(0.35)
            rs = [flow_recipe(rng) for _ in range(1 if coq else rng.randint(1, 4))]
            if coq:
                rs[0]["cert"] = False   # keep the Coq term small (a certificate is ~1.5 kB, three times per state)
            out.append({"k": "flows", "recipes": rs, "coq": coq})
        else:
            rc = flow_recipe(rng)
            coq = rng.chance(0.35)
            if coq:
                rc["cert"] = False
            out.append({"k": "shape", "recipe": rc, "path": [rng.below(40), rng.below(40)],
                        "op": rng.choice(["del", "del", "set"]), "val": to_j(rand_value(rng, 1)), "coq": coq})
    return out


def shape_state(case):
    """a real flow state with one key deleted or one value replaced (well-formed tnetstring, wrong shape)"""
    st = mkflow(case["recipe"]).get_state()
    d = st
    i, j = case["path"]
    keys = sorted(d.keys(), key=repr)
    k = keys[i % len(keys)]
    if isinstance(d[k], dict) and d[k] and j % 3:
        d = d[k]
        keys = sorted(d.keys(), key=repr)
        k = keys[j % len(keys)]
    if case["op"] == "del":
        del d[k]
    else:
        d[k] = from_j(case["val"])
    return st


def state_eq(a, b) -> bool:
    """== on states, with nan equal to nan"""
    if isinstance(a, float) and isinstance(b, float):
        return (a != a and b != b) or (a == b and repr(a) == repr(b))
    if type(a) is not type(b):
        return False
    if isinstance(a, dict):
        # keys matched with the same equality (a nan key is not == to itself)
        return len(a) == len(b) and all(any(state_eq(k, k2) and state_eq(v, v2) for k2, v2 in b.items()) for k, v in a.items())
    if isinstance(a, (list, tuple)):
        return len(a) == len(b) and all(state_eq(x, y) for x, y in zip(a, b))
    return a == b


def py_eq_j(a, b) -> bool:
    """value equality after a round trip: tuples come back as lists"""
    (ka, xa), = a.items()
    (kb, xb), = b.items()
    if ka != kb:
        return False
    if ka == "l":
        return len(xa) == len(xb) and all(py_eq_j(p, q) for p, q in zip(xa, xb))
    if ka == "d":
        return len(xa) == len(xb) and all(any(py_eq_j(k1, k2) and py_eq_j(v1, v2) for k2, v2 in xb) for k1, v1 in xa)
    return xa == xb


def run_impl(case):
    k = case["k"]
    tnet = M["tnet"]
    if k == "dumps":
        if "recipe" in case:
            load_cert()
            v = mkflow(case["recipe"]).get_state()
        else:
            v = from_j(case["v"])
        try:
            out = tnet.dumps(v)
        except Exception as e:  # noqa
            return {"exc": type(e).__name__}
        back = _pop(out)
        return {"out": hx(out), "back": back, "v2": to_j(v)}
    if k == "load":
        b = unhx(case["data"])
        return {"o": in_thread(_load, b), "ft": record_floats(_load, b), "depth": M["d_load"]}
    if k == "pop":
        b = unhx(case["data"])
        return {"o": in_thread(_pop, b), "ft": record_floats(_pop, b), "depth": M["d_pop"]}
    if k == "stream":
        o = run_stream(unhx(case["data"]), case["mode"])
        o["depth"] = M["d_stream"]
        return o
    if k == "deep":
        via = case["via"]
        base = {"load": M["d_load"], "pop": M["d_pop"] - 1, "stream": M["d_stream"]}[via]
        b = deep_list(base + case["delta"], unhx(case["leaf"]))
        if via == "stream":
            o = run_stream(b, "stub")
            o.update(depth=M["d_stream"], data=hx(b))
            return o
        fn = _load if via == "load" else _pop
        return {"o": in_thread(fn, b), "ft": record_floats(fn, b), "depth": M["d_load"] if via == "load" else M["d_pop"], "data": hx(b)}
    if k == "flows":
        load_cert()
        flows = [mkflow(r) for r in case["recipes"]]
        before = [f.get_state() for f in flows]
        try:
            b = write_flows(flows)
        except Exception as e:  # noqa
            return {"write_exc": type(e).__name__}
        out, fin, msg = in_thread(_stream, b, True)
        after = [f.get_state() for f in out]
        o = run_stream(b, "real")
        o.update(depth=M["d_stream"], data=hx(b), types=[type(f).__name__ for f in out],
                 same=(len(before) == len(after) and all(state_eq(x, y) for x, y in zip(before, after))),
                 nflows=len(flows))
        if not o["same"]:
            o["same_mod_tuples"] = len(before) == len(after) and all(py_eq_j(to_j(x), to_j(y)) for x, y in zip(before, after))
            o["diff"] = [kk for x, y in zip(before, after) for kk in x if not state_eq(x[kk], y.get(kk))][:5]
        return o
    if k == "literal":
        import copy
        from mitmproxy import connection as mconn
        res = {}
        for side, mk in (("client", M["tflow"].tclient_conn), ("server", M["tflow"].tserver_conn)):
            conn = mk()
            good = copy.deepcopy(conn.get_state())
            setattr(conn, case["field"], case["v"])
            try:
                conn.get_state()
                res[side + "_get"] = True
            except ValueError:
                res[side + "_get"] = False
            good[case["field"]] = case["v"]
            try:
                type(conn).from_state(good)
                res[side + "_set"] = True
            except ValueError:
                res[side + "_set"] = False
        return res
    if k == "shape":
        load_cert()
        b = tnet.dumps(shape_state(case))
        o = run_stream(b, "real")
        o.update(depth=M["d_stream"], data=hx(b))
        return o
    raise ValueError(k)


def coq_stream(obs, data_hex):
    fin = "har" if obs["har"] else obs["final"]
    vals = [] if obs["har"] else obs["values"]
    return (f"Stream {cnat(obs['depth'])} {coq_ftab(obs['ft'])} {coq_stab(obs['fs'])} {cbytes(unhx(data_hex))} "
            f"{clist([coq_tv(v) for v in vals], 'tv')} {coq_final(fin)}")


def coq_case(case, obs):
    k = case["k"]
    if k == "literal":
        if len(set(obs.values())) != 1:
            return None     # the four observations disagree with each other: reported by the oracle
        ok = cbool(obs["client_get"])
        if case["field"] == "tls_version":
            v = "None" if case["v"] is None else f"(Some {cbytes(case['v'].encode())})"
            return f"TlsVersionField {v} {ok}"
        return f"TransportField {cbytes(case['v'].encode())} {ok}"
    if k == "dumps":
        if "exc" in obs:
            return None
        return f"Dumps {coq_tv(obs['v2'])} {cbytes(unhx(obs['out']))}"
    if k in ("load", "pop") or (k == "deep" and case["via"] != "stream"):
        data = case["data"] if "data" in case else obs["data"]
        ctor = "Load" if (k == "load" or (k == "deep" and case["via"] == "load")) else "Pop"
        return f"{ctor} {cnat(obs['depth'])} {coq_ftab(obs['ft'])} {cbytes(unhx(data))} {coq_outcome(obs['o'])}"
    if k == "stream":
        return coq_stream(obs, case["data"])
    if k == "deep":
        return coq_stream(obs, obs["data"])
    if k in ("flows", "shape"):
        if "write_exc" in obs or not case.get("coq"):
            return None
        return coq_stream(obs, obs["data"])
    return None


def oracle(case, obs):
    """C36 on the implementation: (1) what is written reads back identical, in order; (2) reading
    arbitrary bytes yields flows and then ends cleanly or with FlowReadException, nothing else."""
    k = case["k"]
    v = []
    if k == "literal":
        dom = TLS_VERSIONS if case["field"] == "tls_version" else TRANSPORTS
        if len(set(obs.values())) != 1:
            v.append({"key": "typed-field-inconsistent", "what": f"{case['field']}={case['v']!r}: get_state/from_state of Client/Server disagree: {obs}"})
        elif case["v"] in dom and not obs["client_get"]:
            v.append({"key": "reported-value-rejected", "what": f"Connection.{case['field']}={case['v']!r} (a value the TLS stack / proxy core reports) is rejected by get_state/from_state: flows on such a connection cannot be saved"})
        return v
    if k == "dumps":
        if "exc" in obs:
            if obs["exc"] not in ("UnicodeEncodeError",):
                v.append({"key": "dumps-raises", "what": f"dumps raised {obs['exc']} on {str(case.get('v', case.get('recipe')))[:120]}"})
            return v
        b = obs["back"]
        if b["r"] != "val" or b["rest"] != "" or not py_eq_j(b["v"], obs["v2"]):
            v.append({"key": "codec-roundtrip", "what": f"loads(dumps(v)) != v for {str(case.get('v', case.get('recipe')))[:160]}: {str(b)[:120]}"})
        return v
    if k in ("load", "pop") or (k == "deep" and case["via"] != "stream"):
        o = obs["o"]
        # bare tnetstring level: RecursionError on nesting beyond the stack budget is its (modelled)
        # behaviour; the property speaks about FlowReader, where it must become a read error
        if k == "pop" or case.get("via") == "pop":
            ok = o["r"] == "val" or (o["r"] == "exc" and o["e"] in ("ValueError", "TypeError", "RecursionError"))
        else:
            ok = o["r"] in ("val", "eof") or o["e"] in ("ValueError", "TypeError", "IndexError", "RecursionError")
        if not ok:
            v.append({"key": "tnet-exception-" + o.get("cls", "?"), "what": f"tnetstring.{k} raised {o.get('cls')} on {case.get('data', '')[:120]}"})
        if o["r"] == "val":
            # independent check: re-encoding the loaded value and loading again is a fixpoint
            val = from_j(o["v"])
            try:
                again = _pop(M["tnet"].dumps(val))
                if again["r"] != "val" or not py_eq_j(again["v"], o["v"]):
                    v.append({"key": "codec-roundtrip", "what": f"loads(dumps(x)) != x for loaded x = {str(o['v'])[:160]}"})
            except RecursionError:
                pass
        return v
    # stream-like
    if "write_exc" in obs:
        return [{"key": "write-" + obs["write_exc"], "what": f"FlowWriter.add raised {obs['write_exc']} for " + (f"a {case['recipes'][0]['type']} flow with {case['typed'][0]}={case['typed'][1]!r}; " if case.get("typed") else "") + f"recipes {str(case['recipes'])[:160]}"}]
    fin = obs["final"]
    if fin not in ("clean", "fre"):
        if fin == "RecursionError":
            v.append({"key": "recursion-error", "what": f"FlowReader.stream raised RecursionError (nesting beyond {obs['depth']} levels)"})
        elif case.get("mode") == "stub" and any(e == fin for _, e in obs["fs"]):
            pass  # raised by the harness stub of from_state on purpose (exercises the exception mapping)
        elif k == "shape" and any(e == fin for _, e in obs["fs"]):
            v.append({"key": "wrong-shape-state", "what": f"FlowReader.stream raised {obs['cls']} from migrate_flow/from_state on a well-formed tnetstring dict of the wrong shape ({case['op']} at {case['path']})"})
        else:
            v.append({"key": "reader-exception-" + obs["cls"], "what": f"FlowReader.stream raised {obs['cls']}"})
    if k == "flows":
        if fin != "clean" or obs["n"] != obs["nflows"]:
            v.append({"key": "flows-not-read-back", "what": f"wrote {obs['nflows']} flows, read {obs['n']} then {fin}"})
        elif not obs["same"] and obs.get("same_mod_tuples") and set(obs.get("diff", [])) == {"backup"}:
            v.append({"key": "backup-tuples-become-lists", "what": "get_state()['backup'] holds tuples before saving and lists after loading"})
        elif not obs["same"]:
            v.append({"key": "state-roundtrip", "what": f"get_state() differs after save/load in {obs.get('diff')} for {str(case['recipes'])[:300]}"})
        elif obs["types"] != [{"http": "HTTPFlow", "ws": "HTTPFlow", "tcp": "TCPFlow", "udp": "UDPFlow", "dns": "DNSFlow"}[r["type"]] for r in case["recipes"]]:
            v.append({"key": "flow-type-order", "what": f"types read back {obs['types']}"})
    return v


def nontrivial(case, obs):
    k = case["k"]
    if k == "literal":
        return True
    if k == "dumps":
        return "recipe" in case or next(iter(case["v"])) in ("l", "d")
    if k in ("load", "pop", "stream"):
        return len(case["data"]) > 8
    return True


def classify(case, obs):
    k = case["k"]
    tags = [k]
    if k == "literal":
        return tags + [f"literal:{case['field']}:{'ok' if obs['client_get'] else 'rejected'}"]
    if case.get("typed"):
        tags.append("typed:" + case["typed"][0])
    if k in ("load", "pop") or (k == "deep" and case["via"] != "stream"):
        o = obs["o"]
        tags.append(f"{k}:" + (o["r"] if o["r"] != "exc" else o["e"]))
        if o["r"] == "val":
            tags.append(f"{k}:val-" + next(iter(o["v"])))
    elif k == "dumps":
        tags.append("dumps:" + ("flowstate" if "recipe" in case else next(iter(case["v"]))))
    else:
        tags.append(f"{k}:{'har' if obs.get('har') else obs.get('final', 'write_exc')}:{min(obs.get('n', 0), 3)}")
        if k == "flows":
            tags += ["flowtype:" + r["type"] for r in case["recipes"]]
        if obs.get("fs"):
            tags += [f"{k}:from_state:{e}" for _, e in obs["fs"][:4]]
    return tags
