"""Translator for C08: mitmproxy/proxy/layers/http/__init__.py  ->  coq/Gen/ConnSpec.v.

Regenerates, from the source of every run,
  * `GetHttpConnection.connection_spec_matches` (the reuse predicate of HttpLayer.get_connection) as a Gallina
    boolean over the records of Model/HttpRoutingBase.v, and
  * `dest_of_flow`, the GetHttpConnection command that `HttpStream.make_server_connection` builds from the flow.
Fail closed: the dataclass fields, the method signature, the single `return <expr>` and the call shape are matched
literally; the boolean expression itself is translated generically (and / or / not, == / != between `self.<f>` and
`connection.<f>` of the same field, `isinstance(connection, Server)`).  Anything else raises.
Also checked by shape (no output): make_server_connection stores the returned connection in
`self.context.server = self.flow.server_conn`, and every `SendHttp(RequestHeaders(..), X)` of HttpStream has
X = `self.context.server`.
"""
from __future__ import annotations

import ast
import os

OUT = "ConnSpec.v"
SRC = "mitmproxy/proxy/layers/http/__init__.py"
FIELDS = ["address", "tls", "via", "transport_protocol"]


class Unsupported(Exception):
    pass


def bad(node, why=""):
    raise Unsupported(f"{why or 'unsupported construct'}: {ast.unparse(node)[:160]!r} (line {getattr(node, 'lineno', '?')})")


def cbytes(s: str) -> str:
    if not all(32 <= ord(c) < 127 for c in s):
        raise Unsupported(f"non-ASCII literal {s!r}")
    b = s.encode()
    return "[" + ";".join("x%02x" % c for c in b) + "]" if b else "(@nil byte)"


def field_of(e, owner):
    if isinstance(e, ast.Attribute) and isinstance(e.value, ast.Name) and e.value.id == owner and e.attr in FIELDS:
        return e.attr
    return None


def expr(e):
    if isinstance(e, ast.BoolOp):
        op = " && " if isinstance(e.op, ast.And) else " || "
        return "(" + op.join(expr(v) for v in e.values) + ")"
    if isinstance(e, ast.UnaryOp) and isinstance(e.op, ast.Not):
        return f"(negb {expr(e.operand)})"
    if isinstance(e, ast.Call) and ast.unparse(e) == "isinstance(connection, Server)":
        return "(c_server connection)"
    if isinstance(e, ast.Compare) and len(e.ops) == 1 and isinstance(e.ops[0], (ast.Eq, ast.NotEq)):
        l, r = e.left, e.comparators[0]
        f = field_of(l, "self"), field_of(r, "connection")
        if f[0] is None:
            f = field_of(r, "self"), field_of(l, "connection")
        if f[0] is None or f[1] is None:
            bad(e, "comparison is not between self.<field> and connection.<field>")
        if f[0] != f[1]:
            bad(e, "comparison across different fields")
        t = f"(eq_{f[0]} self connection)"
        return t if isinstance(e.ops[0], ast.Eq) else f"(negb {t})"
    bad(e)


def find_class(tree, name):
    cs = [n for n in tree.body if isinstance(n, ast.ClassDef) and n.name == name]
    if len(cs) != 1:
        raise Unsupported(f"class {name} not found exactly once")
    return cs[0]


def find_method(cls, name):
    fs = [m for m in cls.body if isinstance(m, ast.FunctionDef) and m.name == name]
    if len(fs) != 1:
        raise Unsupported(f"{cls.name}.{name} not found exactly once")
    return fs[0]


def nodoc(body):
    return [s for s in body if not (isinstance(s, ast.Expr) and isinstance(s.value, ast.Constant))]


def translate(repo: str) -> str:
    tree = ast.parse(open(os.path.join(repo, SRC)).read())

    # ---- GetHttpConnection
    g = find_class(tree, "GetHttpConnection")
    if [ast.unparse(d) for d in g.decorator_list] != ["dataclass"]:
        raise Unsupported("GetHttpConnection is not a plain @dataclass")
    fields = [s.target.id for s in g.body if isinstance(s, ast.AnnAssign) and isinstance(s.target, ast.Name)]
    if fields != FIELDS:
        raise Unsupported(f"GetHttpConnection fields changed: {fields}")
    m = find_method(g, "connection_spec_matches")
    if [a.arg for a in m.args.args] != ["self", "connection"] or m.decorator_list or m.args.vararg or m.args.kwarg or m.args.kwonlyargs:
        raise Unsupported("connection_spec_matches: signature")
    body = nodoc(m.body)
    if len(body) != 1 or not isinstance(body[0], ast.Return) or body[0].value is None:
        raise Unsupported("connection_spec_matches: expected a single return statement")
    pred = expr(body[0].value)

    # ---- HttpStream.make_server_connection
    hs = find_class(tree, "HttpStream")
    ms = find_method(hs, "make_server_connection")
    b = nodoc(ms.body)
    if len(b) != 2:
        raise Unsupported(f"make_server_connection: expected 2 statements, found {len(b)}")
    s0, s1 = b
    if not (isinstance(s0, ast.Assign) and ast.unparse(s0.targets[0]) == "(connection, err)" and isinstance(s0.value, ast.Yield)
            and isinstance(s0.value.value, ast.Call) and ast.unparse(s0.value.value.func) == "GetHttpConnection"):
        bad(s0, "make_server_connection: GetHttpConnection call")
    call = s0.value.value
    if call.keywords or len(call.args) != 4:
        bad(call, "GetHttpConnection: expected 4 positional arguments")
    a0, a1, a2, a3 = call.args
    if ast.unparse(a0) != "(self.flow.request.host, self.flow.request.port)":
        bad(a0, "address argument")
    if not (isinstance(a1, ast.Compare) and len(a1.ops) == 1 and isinstance(a1.ops[0], (ast.Eq, ast.NotEq))
            and ast.unparse(a1.left) == "self.flow.request.scheme"
            and isinstance(a1.comparators[0], ast.Constant) and isinstance(a1.comparators[0].value, str)):
        bad(a1, "tls argument")
    tls = f"(bytes_eqb scheme {cbytes(a1.comparators[0].value)})"
    if isinstance(a1.ops[0], ast.NotEq):
        tls = f"(negb {tls})"
    if ast.unparse(a2) != "self.flow.server_conn.via":
        bad(a2, "via argument")
    if ast.unparse(a3) != "self.flow.server_conn.transport_protocol":
        bad(a3, "transport_protocol argument")
    if not (isinstance(s1, ast.If) and ast.unparse(s1.test) == "err" and len(s1.orelse) == 2
            and ast.unparse(s1.orelse[0]) == "self.context.server = self.flow.server_conn = connection"
            and ast.unparse(s1.orelse[1]) == "return True"
            and ast.unparse(s1.body[-1]) == "return False"):
        bad(s1, "make_server_connection: result handling")
    for n in ast.walk(s1.body[0]) if s1.body else []:
        if isinstance(n, ast.Call) and ast.unparse(n.func) == "SendHttp":
            bad(n, "make_server_connection: SendHttp on the error path")

    # ---- every SendHttp(RequestHeaders(...), X) of HttpStream targets self.context.server
    heads = 0
    for n in ast.walk(hs):
        if isinstance(n, ast.Call) and ast.unparse(n.func) == "SendHttp" and n.args and isinstance(n.args[0], ast.Call) \
                and ast.unparse(n.args[0].func) == "RequestHeaders":
            heads += 1
            if len(n.args) != 2 or n.keywords or ast.unparse(n.args[1]) != "self.context.server":
                bad(n, "request head sent to something else than self.context.server")
    if heads < 2:
        raise Unsupported("HttpStream: expected at least two SendHttp(RequestHeaders(..)) sites")

    return f"""(* GENERATED by harness/translators/conn_spec.py from {SRC} -- do not edit. *)
From Coq Require Import NArith List Bool.
From MV Require Import Base.Bytes Model.HttpRoutingBase.
Import ListNotations.

(* GetHttpConnection.connection_spec_matches *)
Definition connection_spec_matches (self : get_cmd) (connection : conn) : bool :=
  {pred}.

(* the GetHttpConnection command built by HttpStream.make_server_connection from
   flow.request.host / .port / .scheme and flow.server_conn.via / .transport_protocol *)
Definition dest_of_flow (host : bytes) (port : N) (scheme : bytes) (via : via_t) (tp : transport) : get_cmd :=
  mkGet (host, port) {tls} via tp.
"""
