"""Fail-closed Python-ast -> Gallina translator for C18.

Source:  mitmproxy/addons/tlsconfig.py   class AppData(TypedDict), def alpn_select_callback
         mitmproxy/proxy/layers/tls.py   the HTTP*_ALPN(S) constants the callback refers to
Output:  coq/Gen/AlpnSelect.v            (expressed in the primitives of Model/AlpnPrelude.v)

Only the tiny subset below is understood; ANY other AST node, name, type or shape raises
Unsupported, so an unexpected edit makes the check fail instead of being mistranslated.
Comments, docstrings, formatting and names of locals/parameters do not influence the output
(locals are renamed canonically in binding order); every semantic edit inside the subset does.

Subset.  statements: [Ann]Assign to a fresh simple name, If/else, Return, For-else over a list of
bytes (no break/continue/assignment in the body), docstring, pass.  expressions: names, bytes
constants, `proxy_tls.CONST`, `SSL.NO_OVERLAPPING_PROTOCOLS` (return position only),
`conn.get_app_data()`, `app_data["field"]`, `a if c else b`.  conditions: and/or/not, `in`,
`not in`, `==`, `!=`, `is None`, `is not None`, truthiness of bool/bytes/Optional[bytes].
Types (bytes, Optional[bytes], bool, list of bytes) come from the AppData annotations and the
`options: list[bytes]` annotation; Optional values are narrowed only by `if x is [not] None`.
"""
import ast
import os

OUT = "AlpnSelect.v"
FUNC = "alpn_select_callback"
TLSCONFIG = "mitmproxy/addons/tlsconfig.py"
LAYER_TLS = "mitmproxy/proxy/layers/tls.py"
LAYER_TLS_MODULE = ("mitmproxy.proxy.layers", "tls")
RESERVED = {"result", "Sel", "RetNone", "NO_OVERLAPPING_PROTOCOLS", "AppData", FUNC, "bytes", "byte", "list",
            "option", "Some", "None", "bool", "true", "false", "app_data", "a0"}


class Unsupported(Exception):
    pass


def bad(node, why):
    line = getattr(node, "lineno", "?")
    raise Unsupported(f"{why} (line {line}: {type(node).__name__})")


def coq_bytes(b: bytes) -> str:
    return "(@nil byte)" if not b else "[" + ";".join("x%02x" % c for c in b) + "]"


def ident_ok(s: str) -> bool:
    return s.isidentifier() and s.isascii() and s not in RESERVED and not s.startswith("py_") and not (
        s[0] == "v" and s[1:].isdigit())


# ------------------------------------------------------------------ constants module
def stores(tree, name):
    """every binding occurrence of `name` anywhere in the module"""
    n = 0
    for node in ast.walk(tree):
        if isinstance(node, ast.Name) and node.id == name and not isinstance(node.ctx, ast.Load):
            n += 1
        elif isinstance(node, (ast.FunctionDef, ast.AsyncFunctionDef, ast.ClassDef)) and node.name == name:
            n += 1
        elif isinstance(node, ast.alias) and (node.asname or node.name.split(".")[0]) == name:
            n += 1
        elif isinstance(node, (ast.Global, ast.Nonlocal)) and name in node.names:
            n += 1
        elif isinstance(node, ast.arg) and node.arg == name:
            n += 1
    return n


def translate_constants(tree, wanted):
    """-> (ordered [(name, type, coq)], {name: type}) for the constants transitively needed."""
    defs = {}
    order = []
    for st in tree.body:
        if isinstance(st, ast.Assign) and len(st.targets) == 1 and isinstance(st.targets[0], ast.Name):
            defs.setdefault(st.targets[0].id, []).append(st)
            order.append(st.targets[0].id)
    done, out = {}, []

    def need(name, at):
        if name in done:
            return done[name]
        if name not in defs:
            bad(at, f"constant {name} is not a simple module-level assignment in {LAYER_TLS}")
        if len(defs[name]) != 1 or stores(tree, name) != 1:
            bad(defs[name][0], f"constant {name} is bound more than once in {LAYER_TLS}")
        if not ident_ok(name):
            bad(defs[name][0], f"constant name {name} not usable")
        v = defs[name][0].value
        if isinstance(v, ast.Constant) and type(v.value) is bytes:
            ty, coq = "bytes", coq_bytes(v.value)
        elif isinstance(v, (ast.Tuple, ast.List)):
            parts, cur = [], []
            for e in v.elts:
                if isinstance(e, ast.Constant) and type(e.value) is bytes:
                    cur.append(coq_bytes(e.value))
                elif isinstance(e, ast.Name):
                    if need(e.id, e) != "bytes":
                        bad(e, f"{e.id} used as an element but is not bytes")
                    cur.append(e.id)
                elif isinstance(e, ast.Starred) and isinstance(e.value, ast.Name):
                    if need(e.value.id, e) != "list":
                        bad(e, f"*{e.value.id} is not a tuple constant")
                    if cur:
                        parts.append("[" + "; ".join(cur) + "]")
                        cur = []
                    parts.append(e.value.id)
                else:
                    bad(e, "unsupported tuple element")
            if cur or not parts:
                parts.append("[" + "; ".join(cur) + "]" if cur else "(@nil bytes)")
            ty, coq = "list", " ++ ".join(parts)
        else:
            bad(v, f"unsupported value for constant {name}")
        done[name] = ty
        out.append((name, ty, coq))
        return ty

    for name, at in wanted:
        need(name, at)
    out.sort(key=lambda t: order.index(t[0]))
    # a definition must not be used (by source order) before it is defined
    return out, done


# ------------------------------------------------------------------ tlsconfig module
def find_aliases(tree):
    proxy_tls, ssl = [], []
    for st in ast.walk(tree):
        if isinstance(st, ast.ImportFrom) and st.level == 0:
            for a in st.names:
                if st.module == LAYER_TLS_MODULE[0] and a.name == LAYER_TLS_MODULE[1]:
                    proxy_tls.append(a.asname or a.name)
                if st.module == "OpenSSL" and a.name == "SSL":
                    ssl.append(a.asname or a.name)
    if len(proxy_tls) != 1 or len(ssl) != 1:
        raise Unsupported("expected exactly one import of mitmproxy.proxy.layers.tls and of OpenSSL.SSL")
    for n in (proxy_tls[0], ssl[0]):
        if stores(tree, n) != 1:
            raise Unsupported(f"module alias {n} is rebound in {TLSCONFIG}")
    return proxy_tls[0], ssl[0]


def ann_type(a):
    """annotation -> 'bytes' | 'obytes' | 'bool' | 'list'"""
    if isinstance(a, ast.Name) and a.id == "bytes":
        return "bytes"
    if isinstance(a, ast.Name) and a.id == "bool":
        return "bool"
    if isinstance(a, ast.BinOp) and isinstance(a.op, ast.BitOr):
        l, r = a.left, a.right
        isnone = lambda x: isinstance(x, ast.Constant) and x.value is None
        isbytes = lambda x: isinstance(x, ast.Name) and x.id == "bytes"
        if (isbytes(l) and isnone(r)) or (isnone(l) and isbytes(r)):
            return "obytes"
    if (isinstance(a, ast.Subscript) and isinstance(a.value, ast.Name) and a.value.id == "list"
            and isinstance(a.slice, ast.Name) and a.slice.id == "bytes"):
        return "list"
    bad(a, "unsupported type annotation")


COQ_TY = {"bytes": "bytes", "obytes": "option bytes", "bool": "bool", "list": "list bytes"}


def translate_appdata(tree):
    cls = [s for s in tree.body if isinstance(s, ast.ClassDef) and s.name == "AppData"]
    if len(cls) != 1 or stores(tree, "AppData") != 1:
        raise Unsupported("expected exactly one class AppData")
    c = cls[0]
    if c.keywords or c.decorator_list or len(c.bases) != 1 or not (
            isinstance(c.bases[0], ast.Name) and c.bases[0].id == "TypedDict"):
        bad(c, "AppData must be a plain TypedDict")
    fields = []
    for st in c.body:
        if isinstance(st, ast.Expr) and isinstance(st.value, ast.Constant) and isinstance(st.value.value, str):
            continue
        if not (isinstance(st, ast.AnnAssign) and isinstance(st.target, ast.Name) and st.value is None and st.simple):
            bad(st, "unsupported AppData member")
        if not ident_ok(st.target.id) or st.target.id in [f for f, _ in fields]:
            bad(st, "unusable AppData field name")
        fields.append((st.target.id, ann_type(st.annotation)))
    if not fields:
        bad(c, "AppData has no fields")
    return fields


class Fn:
    def __init__(self, fn, fields, proxy_tls, ssl):
        self.fn, self.fields, self.proxy_tls, self.ssl = fn, dict(fields), proxy_tls, ssl
        self.counter = 0
        self.const_types = {}   # name -> type, set by translate()
        a = fn.args
        if (fn.decorator_list or a.vararg or a.kwarg or a.kwonlyargs or a.posonlyargs or a.defaults
                or a.kw_defaults or len(a.args) != 2 or getattr(fn, "type_params", [])):
            bad(fn, "unexpected signature")
        self.conn = a.args[0].arg
        if a.args[1].annotation is None or ann_type(a.args[1].annotation) != "list":
            bad(fn, "second parameter must be annotated list[bytes]")
        # env: python name -> (coq name, type); 'appdata' is the type of the conn.get_app_data() value
        self.env0 = {a.args[1].arg: ("a0", "list")}
        if self.conn == a.args[1].arg:
            bad(fn, "duplicate parameter")

    def fresh(self):
        self.counter += 1
        return f"v{self.counter}"

    # ---- expressions
    def expr(self, e, env):
        if isinstance(e, ast.Name) and isinstance(e.ctx, ast.Load):
            if e.id not in env:
                bad(e, f"unknown or out-of-scope name {e.id}")
            return env[e.id]
        if isinstance(e, ast.Constant) and type(e.value) is bytes:
            return coq_bytes(e.value), "bytes"
        if isinstance(e, ast.Attribute) and isinstance(e.value, ast.Name) and isinstance(e.ctx, ast.Load):
            base = e.value.id
            if base in env:
                bad(e, "attribute of a local")
            if base == self.proxy_tls:
                if e.attr not in self.const_types:
                    bad(e, f"unknown constant {e.attr}")
                return e.attr, ("const", e.attr)
            if base == self.ssl and e.attr == "NO_OVERLAPPING_PROTOCOLS":
                return "NO_OVERLAPPING_PROTOCOLS", "result"
            bad(e, f"unsupported attribute {base}.{e.attr}")
        if isinstance(e, ast.Call):
            f = e.func
            if (isinstance(f, ast.Attribute) and isinstance(f.value, ast.Name) and f.value.id == self.conn
                    and self.conn not in env and f.attr == "get_app_data" and not e.args and not e.keywords):
                return "app_data", "appdata"
            bad(e, "unsupported call")
        if isinstance(e, ast.Subscript) and isinstance(e.ctx, ast.Load):
            v, t = self.expr(e.value, env)
            if t == "appdata" and isinstance(e.slice, ast.Constant) and type(e.slice.value) is str \
                    and e.slice.value in self.fields:
                return f"({e.slice.value} {v})", self.fields[e.slice.value]
            bad(e, "unsupported subscript")
        if isinstance(e, ast.IfExp):
            c = self.cond(e.test, env)
            a, ta = self.expr(e.body, env)
            b, tb = self.expr(e.orelse, env)
            ta, tb = self.resolve(ta), self.resolve(tb)
            if ta != tb or ta not in ("bytes", "obytes", "list", "bool"):
                bad(e, "conditional expression with unsupported/mismatched types")
            return f"(if {c} then {a} else {b})", ta
        bad(e, "unsupported expression")

    def resolve(self, t):
        """('const', NAME) -> the type of that translated constant"""
        if isinstance(t, tuple):
            return self.const_types[t[1]]
        return t

    def typed(self, e, env):
        v, t = self.expr(e, env)
        return v, self.resolve(t)

    def cond(self, e, env):
        if isinstance(e, ast.BoolOp):
            op = " && " if isinstance(e.op, ast.And) else " || " if isinstance(e.op, ast.Or) else bad(e, "boolop")
            return "(" + op.join(self.cond(x, env) for x in e.values) + ")"
        if isinstance(e, ast.UnaryOp) and isinstance(e.op, ast.Not):
            return f"(negb {self.cond(e.operand, env)})"
        if isinstance(e, ast.Compare):
            if len(e.ops) != 1:
                bad(e, "chained comparison")
            op, r = e.ops[0], e.comparators[0]
            if isinstance(op, (ast.Is, ast.IsNot)):
                if not (isinstance(r, ast.Constant) and r.value is None):
                    bad(e, "is/is not only against None")
                v, t = self.typed(e.left, env)
                if t != "obytes":
                    bad(e, "is None on a non-Optional value")
                c = f"(py_is_none {v})"
                return c if isinstance(op, ast.Is) else f"(negb {c})"
            lv, lt = self.typed(e.left, env)
            rv, rt = self.typed(r, env)
            if isinstance(op, (ast.In, ast.NotIn)):
                if rt != "list" or lt not in ("bytes", "obytes"):
                    bad(e, "membership test with unsupported types")
                c = f"(py_in {lv} {rv})" if lt == "bytes" else f"(py_in_opt {lv} {rv})"
                return c if isinstance(op, ast.In) else f"(negb {c})"
            if isinstance(op, (ast.Eq, ast.NotEq)):
                if (lt, rt) == ("bytes", "bytes"):
                    c = f"(bytes_eqb {lv} {rv})"
                elif (lt, rt) == ("obytes", "bytes"):
                    c = f"(py_eq_opt {lv} {rv})"
                elif (lt, rt) == ("bytes", "obytes"):
                    c = f"(py_eq_opt {rv} {lv})"
                else:
                    bad(e, "equality with unsupported types")
                return c if isinstance(op, ast.Eq) else f"(negb {c})"
            bad(e, "unsupported comparison operator")
        v, t = self.typed(e, env)
        if t == "bool":
            return v
        if t == "bytes":
            return f"(py_truthy_bytes {v})"
        if t == "obytes":
            return f"(py_truthy_opt {v})"
        bad(e, "truthiness of unsupported type")

    def ret(self, e, env):
        if e is None or (isinstance(e, ast.Constant) and e.value is None):
            return "RetNone"
        v, t = self.typed(e, env)
        if t == "bytes":
            return f"(Sel {v})"
        if t == "obytes":
            return f"(py_ret_opt {v})"
        if t == "result":
            return v
        bad(e, "return of unsupported type")

    # ---- statements
    @staticmethod
    def returns(stmts):
        """does every path through stmts end in return? (within the subset)"""
        for st in stmts:
            if isinstance(st, ast.Return):
                return True
            if isinstance(st, ast.If) and st.orelse and Fn.returns(st.body) and Fn.returns(st.orelse):
                return True
            if isinstance(st, ast.For) and Fn.returns(st.orelse):
                return True
        return False

    def narrowing(self, test, env):
        """`X is not None` / `X is None` on an Optional local -> (name, positive?)"""
        if (isinstance(test, ast.Compare) and len(test.ops) == 1 and isinstance(test.ops[0], (ast.Is, ast.IsNot))
                and isinstance(test.left, ast.Name) and test.left.id in env and env[test.left.id][1] == "obytes"
                and isinstance(test.comparators[0], ast.Constant) and test.comparators[0].value is None):
            return test.left.id, isinstance(test.ops[0], ast.IsNot)
        return None

    def block(self, stmts, env, wrap, fall, ind, in_loop=False):
        pad = "  " * ind
        if not stmts:
            return pad + fall
        st, rest = stmts[0], stmts[1:]
        if isinstance(st, ast.Pass) or (isinstance(st, ast.Expr) and isinstance(st.value, ast.Constant)
                                        and isinstance(st.value.value, str)):
            return self.block(rest, env, wrap, fall, ind, in_loop)
        if isinstance(st, ast.Return):
            if rest:
                bad(rest[0], "statement after return")
            return pad + wrap(self.ret(st.value, env))
        if isinstance(st, (ast.Assign, ast.AnnAssign)):
            if in_loop:
                bad(st, "assignment inside a loop body or a fall-through branch")
            if isinstance(st, ast.Assign):
                if len(st.targets) != 1:
                    bad(st, "multiple assignment")
                tgt = st.targets[0]
            else:
                tgt = st.target
                if st.value is None:
                    bad(st, "bare annotation")
            if not isinstance(tgt, ast.Name):
                bad(st, "assignment to a non-name")
            if tgt.id in env or tgt.id in (self.conn, self.proxy_tls, self.ssl):
                bad(st, f"rebinding of {tgt.id}")
            v, t = self.typed(st.value, env)
            if t == "result":
                bad(st, "sentinel stored in a local")
            if t == "appdata":
                env2 = dict(env); env2[tgt.id] = (v, t)
                return self.block(rest, env2, wrap, fall, ind, in_loop)
            n = self.fresh()
            env2 = dict(env); env2[tgt.id] = (n, t)
            return f"{pad}let {n} : {COQ_TY[t]} := {v} in\n" + self.block(rest, env2, wrap, fall, ind, in_loop)
        if isinstance(st, ast.If):
            body_ret = self.returns(st.body)
            else_ret = self.returns(st.orelse) if st.orelse else False
            falls = (not body_ret) + (not else_ret)
            if rest and falls == 2:
                bad(st, "if whose both branches fall through to later statements")
            # the branch that falls through continues with `rest`; assignments inside it are refused
            nar = self.narrowing(st.test, env)

            def branch(stmts_b, env_b, returns_b):
                if returns_b:
                    return self.block(stmts_b, env_b, wrap, fall, ind + 1, in_loop)
                return self.block(list(stmts_b) + list(rest), env_b, wrap, fall, ind + 1, in_loop) \
                    if not any(isinstance(s, (ast.Assign, ast.AnnAssign)) for s in stmts_b) \
                    else bad(st, "assignment inside a fall-through branch")
            if nar:
                name, positive = nar
                n = self.fresh()
                env_some = dict(env); env_some[name] = (n, "bytes")
                some_b, none_b = (st.body, st.orelse) if positive else (st.orelse, st.body)
                some_r, none_r = (body_ret, else_ret) if positive else (else_ret, body_ret)
                return (f"{pad}match {env[name][0]} with\n{pad}| Some {n} =>\n{branch(some_b, env_some, some_r)}\n"
                        f"{pad}| None =>\n{branch(none_b, env, none_r)}\n{pad}end")
            c = self.cond(st.test, env)
            return (f"{pad}if {c} then\n{branch(st.body, env, body_ret)}\n{pad}else\n"
                    f"{branch(st.orelse, env, else_ret)}")
        if isinstance(st, ast.For):
            if in_loop:
                bad(st, "nested loop")
            if st.type_comment or not isinstance(st.target, ast.Name):
                bad(st, "unsupported loop target")
            it, t = self.typed(st.iter, env)
            if t != "list":
                bad(st, "loop over a non-list")
            if st.target.id in env or st.target.id in (self.conn, self.proxy_tls, self.ssl):
                bad(st, "loop variable shadows a name")
            n = self.fresh()
            env_b = dict(env); env_b[st.target.id] = (n, "bytes")
            body = self.block(st.body, env_b, lambda r: f"Some {r}", "None", ind + 2, in_loop=True)
            # the loop variable is not visible afterwards (it may be unbound in Python)
            k = self.block(list(st.orelse) + list(rest), env, wrap, fall, ind + 2, in_loop)
            return f"{pad}py_for {it}\n{pad}  (fun {n} : bytes =>\n{body})\n{pad}  (\n{k})"
        bad(st, "unsupported statement")

    def body(self):
        return self.block(self.fn.body, dict(self.env0), lambda r: r, "RetNone", 1)


def translate(repo: str) -> str:
    t1 = ast.parse(open(os.path.join(repo, TLSCONFIG), encoding="utf-8").read())
    t2 = ast.parse(open(os.path.join(repo, LAYER_TLS), encoding="utf-8").read())
    proxy_tls, ssl = find_aliases(t1)
    fields = translate_appdata(t1)
    fns = [s for s in t1.body if isinstance(s, ast.FunctionDef) and s.name == FUNC]
    if len(fns) != 1 or stores(t1, FUNC) != 1:
        raise Unsupported(f"expected exactly one module-level def {FUNC}")
    # constants referred to as <proxy_tls>.NAME anywhere in the function, translated first
    used = [(n.attr, n) for n in ast.walk(fns[0]) if isinstance(n, ast.Attribute)
            and isinstance(n.value, ast.Name) and n.value.id == proxy_tls]
    used.sort(key=lambda t: t[0])
    consts, ctypes = translate_constants(t2, used)
    f2 = Fn(fns[0], fields, proxy_tls, ssl)
    f2.const_types = ctypes
    body = f2.body()
    out = ["(* GENERATED by harness/translators/alpn_select.py from mitmproxy/addons/tlsconfig.py",
           "   (AppData, alpn_select_callback) and mitmproxy/proxy/layers/tls.py (ALPN constants).",
           "   Do not edit: regenerated on every run of the check. *)",
           "From Coq Require Import List Bool.",
           "From MV Require Import Base.Bytes Model.AlpnPrelude.",
           "Import ListNotations.", ""]
    for name, ty, coq in consts:
        out.append(f"Definition {name} : {COQ_TY[ty]} := {coq}.")
    out.append("")
    out.append("Record AppData := { " + "; ".join(f"{n} : {COQ_TY[t]}" for n, t in fields) + " }.")
    out.append("")
    out.append(f"Definition {FUNC} (app_data : AppData) (a0 : list bytes) : result :=")
    out.append(body + ".")
    return "\n".join(out) + "\n"


if __name__ == "__main__":
    import sys
    sys.stdout.write(translate(sys.argv[1] if len(sys.argv) > 1 else "/repo"))
