"""Translator for C42: mitmproxy/flowfilter.py  ->  coq/Gen/FlowFilterAtoms.v.

Extracts, from the Python source (ast only, nothing is imported or executed):
  * the `code` of every class listed in filter_unary / filter_rex / filter_int (in list order), and which
    filter_rex classes compile their argument as a bytes pattern (_BinRex),
  * the pyparsing configuration in `_make`: the `~code` literal prefix, the WordEnd character class, the
    CharsNotIn exclusion string of unquoted words, the two QuotedString quote characters and the escape
    character, Word(nums) for integer arguments, the class used for a naked regex, the three rows of the
    infix_notation operator table (symbol, arity, associativity, node class), the top-level OneOrMore /
    FAnd wrapper and whether parse_with_tabs() is set.
Fail closed: `_make` must consist of exactly the statement shapes below; anything else raises.
"""
from __future__ import annotations

import ast
import os
import re

OUT = "FlowFilterAtoms.v"

# pyparsing 3.x constants referenced symbolically by the source
PP_CONST = {
    "pp.alphanums": "ABCDEFGHIJKLMNOPQRSTUVWXYZabcdefghijklmnopqrstuvwxyz0123456789",
    "pp.printables": "".join(chr(c) for c in range(33, 127)),
    "pp.nums": "0123456789",
    "pp.ParserElement.DEFAULT_WHITE_CHARS": " \n\t\r",
}


class Unsupported(Exception):
    pass


def bad(why, node=None):
    src = ast.unparse(node)[:160] if node is not None else ""
    raise Unsupported(f"{why}: {src!r} (line {getattr(node, 'lineno', '?')})")


def cbytes(s: str) -> str:
    b = s.encode("utf-8")
    return "[" + ";".join("x%02x" % c for c in b) + "]" if b else "(@nil byte)"


def const_str(node) -> str:
    """string-valued expression: literal, known pyparsing constant, or `+` of those"""
    if isinstance(node, ast.Constant) and isinstance(node.value, str):
        return node.value
    if isinstance(node, ast.BinOp) and isinstance(node.op, ast.Add):
        return const_str(node.left) + const_str(node.right)
    u = ast.unparse(node)
    if u in PP_CONST:
        return PP_CONST[u]
    bad("not a constant string", node)


def class_codes(tree):
    codes, bases = {}, {}
    for n in tree.body:
        if isinstance(n, ast.ClassDef):
            bases[n.name] = [ast.unparse(b) for b in n.bases]
            for s in n.body:
                if isinstance(s, ast.Assign) and len(s.targets) == 1 and isinstance(s.targets[0], ast.Name) \
                        and s.targets[0].id == "code":
                    if not (isinstance(s.value, ast.Constant) and isinstance(s.value.value, str)):
                        bad("class code is not a string literal", s)
                    codes[n.name] = s.value.value
    return codes, bases


def table(tree, name):
    for n in tree.body:
        tgt = None
        if isinstance(n, ast.AnnAssign) and isinstance(n.target, ast.Name):
            tgt, val = n.target.id, n.value
        elif isinstance(n, ast.Assign) and len(n.targets) == 1 and isinstance(n.targets[0], ast.Name):
            tgt, val = n.targets[0].id, n.value
        if tgt == name:
            if not (isinstance(val, ast.List) and all(isinstance(e, ast.Name) for e in val.elts)):
                bad(f"{name} is not a list of class names", n)
            return [e.id for e in val.elts]
    raise Unsupported(f"table {name} not found")


def call_of(node, fn):
    """node must be `fn(args...)`; returns (args, keywords)"""
    if not (isinstance(node, ast.Call) and ast.unparse(node.func) == fn):
        bad(f"expected a call of {fn}", node)
    return node.args, {k.arg: k.value for k in node.keywords}


def atom_loop(stmt, tab, tail):
    """for cls in <tab>: f = pp.Literal(f"~{cls.code}") + pp.WordEnd(..) [+ tail]; f.set_parse_action(cls.make); parts.append(f)
    -> (prefix, wordend chars)"""
    if not (isinstance(stmt, ast.For) and ast.unparse(stmt.target) == "cls" and ast.unparse(stmt.iter) == tab
            and not stmt.orelse and len(stmt.body) == 3):
        bad(f"expected the loop over {tab}", stmt)
    a, b, c = stmt.body
    if ast.unparse(b) != "f.set_parse_action(cls.make)" or ast.unparse(c) != "parts.append(f)":
        bad("unexpected loop body", stmt)
    if not (isinstance(a, ast.Assign) and ast.unparse(a.targets[0]) == "f"):
        bad("expected f = ...", a)
    terms = []
    e = a.value
    while isinstance(e, ast.BinOp) and isinstance(e.op, ast.Add):
        terms.insert(0, e.right)
        e = e.left
    terms.insert(0, e)
    if len(terms) != (3 if tail else 2):
        bad("unexpected atom shape", a)
    largs, lkw = call_of(terms[0], "pp.Literal")
    if lkw or len(largs) != 1 or not isinstance(largs[0], ast.JoinedStr):
        bad("expected pp.Literal(f'..{cls.code}')", terms[0])
    js = largs[0].values
    if not (len(js) == 2 and isinstance(js[0], ast.Constant) and isinstance(js[1], ast.FormattedValue)
            and ast.unparse(js[1].value) == "cls.code" and js[1].conversion == -1 and js[1].format_spec is None):
        bad("expected the literal <prefix>{cls.code}", terms[0])
    wargs, wkw = call_of(terms[1], "pp.WordEnd")
    if wkw or len(wargs) > 1:
        bad("unexpected WordEnd arguments", terms[1])
    wordend = const_str(wargs[0]) if wargs else PP_CONST["pp.printables"]
    if tail and ast.unparse(terms[2]) != tail:
        bad(f"expected + {tail}", terms[2])
    return js[0].value, wordend


def translate(repo: str) -> str:
    path = os.path.join(repo, "mitmproxy", "flowfilter.py")
    tree = ast.parse(open(path, encoding="utf-8").read())
    codes, bases = class_codes(tree)
    tabs = {t: table(tree, t) for t in ("filter_unary", "filter_rex", "filter_int")}
    for t, names in tabs.items():
        for n in names:
            if n not in codes:
                raise Unsupported(f"{t}: class {n} has no literal code")
    make = [n for n in tree.body if isinstance(n, ast.FunctionDef) and n.name == "_make"]
    if len(make) != 1 or make[0].args.args or make[0].decorator_list:
        raise Unsupported("_make not found or has an unexpected signature")
    body = [s for s in make[0].body if not (isinstance(s, ast.Expr) and isinstance(s.value, ast.Constant))]
    # tail: either `return expr.set_parse_action(A)` (pyparsing then expands tabs before parsing) or
    # `expr.set_parse_action(A); return expr.parse_with_tabs()`
    if len(body) == 14 and ast.unparse(body[13]) == "return expr.parse_with_tabs()" \
            and isinstance(body[12], ast.Expr):
        keep_tabs = True
        body = body[:12] + [ast.Return(value=body[12].value)]
    else:
        keep_tabs = False
    if len(body) != 13:
        raise Unsupported(f"_make has {len(body)} statements, expected 13 (or 14 with parse_with_tabs)")
    if ast.unparse(body[0]) != "parts = []":
        bad("expected parts = []", body[0])
    pre1, we1 = atom_loop(body[1], "filter_unary", None)
    # unquoted word
    if not (isinstance(body[2], ast.Assign) and ast.unparse(body[2].targets[0]) == "unicode_words"):
        bad("expected unicode_words = pp.CharsNotIn(...)", body[2])
    cargs, ckw = call_of(body[2].value, "pp.CharsNotIn")
    if ckw or len(cargs) != 1:
        bad("unexpected CharsNotIn arguments", body[2])
    excluded = const_str(cargs[0])
    if ast.unparse(body[3]) != "unicode_words.skipWhitespace = True":
        bad("expected unicode_words.skipWhitespace = True", body[3])
    # regex = unicode_words | QuotedString | QuotedString
    if not (isinstance(body[4], ast.Assign) and ast.unparse(body[4].targets[0]) == "regex"):
        bad("expected regex = ...", body[4])
    alts = []
    e = body[4].value
    while isinstance(e, ast.BinOp) and isinstance(e.op, ast.BitOr):
        alts.insert(0, e.right)
        e = e.left
    alts.insert(0, e)
    if len(alts) != 3 or ast.unparse(alts[0]) != "unicode_words":
        bad("expected unicode_words | QuotedString | QuotedString", body[4])
    quotes = []
    for q in alts[1:]:
        qargs, qkw = call_of(q, "pp.QuotedString")
        if len(qargs) != 1 or set(qkw) != {"esc_char"}:
            bad("unexpected QuotedString arguments", q)
        qc, esc = const_str(qargs[0]), const_str(qkw["esc_char"])
        if len(qc) != 1 or esc != "\\":
            bad("quote must be one character and the escape a backslash", q)
        quotes.append(qc)
    pre2, we2 = atom_loop(body[5], "filter_rex", "regex.copy()")
    pre3, we3 = atom_loop(body[6], "filter_int", "pp.Word(pp.nums)")
    if not (pre1 == pre2 == pre3 and we1 == we2 == we3):
        raise Unsupported("the three atom loops use different prefixes / WordEnd classes")
    if ast.unparse(body[7]) != "f = regex.copy()" or ast.unparse(body[9]) != "parts.append(f)":
        bad("expected the naked regex part", body[7])
    m = re.fullmatch(r"f\.set_parse_action\((\w+)\.make\)", ast.unparse(body[8]))
    if not m or m.group(1) not in tabs["filter_rex"]:
        bad("naked regex class must be a filter_rex class", body[8])
    naked = m.group(1)
    if ast.unparse(body[10]) != "atom = pp.MatchFirst(parts)":
        bad("expected atom = pp.MatchFirst(parts)", body[10])
    # expr = pp.OneOrMore(pp.infix_notation(atom, [rows]))
    if not (isinstance(body[11], ast.Assign) and ast.unparse(body[11].targets[0]) == "expr"):
        bad("expected expr = ...", body[11])
    oargs, okw = call_of(body[11].value, "pp.OneOrMore")
    if okw or len(oargs) != 1:
        bad("unexpected OneOrMore arguments", body[11])
    iargs, ikw = call_of(oargs[0], "pp.infix_notation")
    if ikw or len(iargs) != 2 or ast.unparse(iargs[0]) != "atom" or not isinstance(iargs[1], ast.List):
        bad("unexpected infix_notation arguments", oargs[0])
    rows = []
    for r in iargs[1].elts:
        if not (isinstance(r, ast.Tuple) and len(r.elts) == 4):
            bad("operator row must be a 4-tuple", r)
        sym, arity, assoc, act = r.elts
        mm = re.fullmatch(r"pp\.Literal\((.+)\)\.suppress\(\)", ast.unparse(sym))
        if not mm:
            bad("operator must be pp.Literal(..).suppress()", sym)
        s = ast.literal_eval(mm.group(1))
        am = re.fullmatch(r"lambda x: (\w+)\(\*x\)", ast.unparse(act))
        if not (isinstance(s, str) and len(s) == 1 and am):
            bad("unexpected operator row", r)
        rows.append((s, ast.literal_eval(ast.unparse(arity)), ast.unparse(assoc), am.group(1)))
    want = [(1, "pp.opAssoc.RIGHT", "FNot"), (2, "pp.opAssoc.LEFT", "FAnd"), (2, "pp.opAssoc.LEFT", "FOr")]
    if [(a, b, c) for (_, a, b, c) in rows] != want:
        raise Unsupported(f"operator table shape changed: {rows}")
    if ast.unparse(body[12]) != "return expr.set_parse_action(lambda x: FAnd(x) if len(x) != 1 else x)":
        bad("unexpected top-level parse action", body[12])
    white = PP_CONST["pp.ParserElement.DEFAULT_WHITE_CHARS"]

    def is_bin(n, seen=()):
        if n == "_BinRex":
            return True
        if n == "_StrRex":
            return False
        for b in bases.get(n, []):
            if b in bases and b not in seen:
                r = is_bin(b, seen + (n,))
                if r is not None:
                    return r
        return None
    kinds = {n: is_bin(n) for n in tabs["filter_rex"]}
    if any(v is None for v in kinds.values()):
        raise Unsupported(f"filter_rex class neither _BinRex nor _StrRex: {kinds}")

    lines = [
        "(* GENERATED by harness/translators/flowfilter_atoms.py from mitmproxy/flowfilter.py. Do not edit. *)",
        "From Coq Require Import List.",
        "From MV Require Import Base.Bytes.",
        "Import ListNotations.",
        "",
        f"Definition code_prefix : bytes := {cbytes(pre1)}.",
        f"Definition unary_codes : list bytes := [{'; '.join(cbytes(codes[n]) for n in tabs['filter_unary'])}].",
        f"Definition rex_codes : list bytes := [{'; '.join(cbytes(codes[n]) for n in tabs['filter_rex'])}].",
        f"Definition bin_rex_codes : list bytes := [{'; '.join(cbytes(codes[n]) for n in tabs['filter_rex'] if kinds[n])}].",
        f"Definition int_codes : list bytes := [{'; '.join(cbytes(codes[n]) for n in tabs['filter_int'])}].",
        f"Definition naked_code : bytes := {cbytes(codes[naked])}.",
        f"Definition wordend_chars : bytes := {cbytes(we1)}.",
        f"Definition white_chars : bytes := {cbytes(white)}.",
        f"Definition word_excluded : bytes := {cbytes(excluded)}.",
        f"Definition quote_chars : bytes := {cbytes(''.join(quotes))}.",
        f"Definition digit_chars : bytes := {cbytes(PP_CONST['pp.nums'])}.",
        f"Definition keep_tabs : bool := {'true' if keep_tabs else 'false'}.",
        f"Definition op_not : byte := {cbytes(rows[0][0])[1:-1]}.",
        f"Definition op_and : byte := {cbytes(rows[1][0])[1:-1]}.",
        f"Definition op_or : byte := {cbytes(rows[2][0])[1:-1]}.",
        "",
    ]
    return "\n".join(lines)
