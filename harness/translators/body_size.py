"""Translator for C01 (shared with C02/C07):
    mitmproxy/net/http/validate.py       _valid_header_name, _valid_content_length(_str), TransferEncoding literal set,
                                         parse_content_length, parse_transfer_encoding, validate_headers
    mitmproxy/net/http/http1/read.py     expected_http_body_size
->  coq/Gen/BodySize.v   (vocabulary: coq/Model/BodySizePrelude.v, coq/Model/Http1Msg.v)

Fail closed.  Regular expressions are parsed with Python's own sre parser and mapped to the `re` AST of the prelude
(literals, classes, ranges, branches, greedy star/plus; `^...$` anchors only around a whole pattern used with
`.match`; `re.sub` only for the shape C1* lit C2* with lit outside C1).  Statements are translated in
continuation-passing style over a small typed environment: if/elif/else, raise ValueError, return, assignment,
walrus in an if test, `for name, value in message.headers.fields` with list appends as loop-carried state,
`match` on string constants (or-patterns, a final capture pattern with assert_never), pass.  Any other node raises.

Type discipline (Python type -> Gallina): str|bytes -> bytes plus a flag `is_str` where the code tests
isinstance(value, str); list[bytes] -> list bytes; int|None -> option Z (None = chunked, -1 = until EOF);
Response|None -> option response_head; exceptions -> res (ValueError / OtherError for assert_never).
"""
from __future__ import annotations

import ast
import os
import re._constants as sc
import re._parser as sp

OUT = "BodySize.v"


class Unsupported(Exception):
    pass


def bad(node, why=""):
    src = ast.unparse(node)[:160] if isinstance(node, ast.AST) else repr(node)[:160]
    raise Unsupported(f"{why or 'unsupported construct'}: {src!r} (line {getattr(node, 'lineno', '?')})")


def cbytes(b: bytes) -> str:
    return "[" + ";".join("x%02x" % c for c in b) + "]" if b else "(@nil byte)"


def lit_bytes(e):
    if isinstance(e, ast.Constant) and isinstance(e.value, (str, bytes)):
        v = e.value.encode("ascii") if isinstance(e.value, str) else e.value
        if any(c >= 128 for c in v):
            bad(e, "non-ASCII literal")
        return v
    bad(e, "expected a str/bytes literal")


# ------------------------------------------------------------------ regular expressions
def re_items(pattern):
    return list(sp.parse(pattern))


def cls_of(items) -> str:
    rs = []
    for op, av in items:
        if op is sc.LITERAL and av < 256:
            rs.append((av, av))
        elif op is sc.RANGE and av[1] < 256:
            rs.append(av)
        else:
            raise Unsupported(f"regex class item {op} {av}")
    return "[" + "; ".join(f"({a}%N, {b}%N)" for a, b in rs) + "]"


def re_term(items) -> str:
    if not items:
        return "REps"
    terms = []
    for op, av in items:
        if op is sc.LITERAL and av < 256:
            terms.append(f"(RCls [({av}%N, {av}%N)])")
        elif op is sc.IN:
            terms.append(f"(RCls {cls_of(av)})")
        elif op is sc.BRANCH and av[0] is None:
            alts = [re_term(list(a)) for a in av[1]]
            t = alts[-1]
            for a in reversed(alts[:-1]):
                t = f"(RAlt {a} {t})"
            terms.append(t)
        elif op is sc.MAX_REPEAT and av[1] is sc.MAXREPEAT and av[0] in (0, 1):
            inner = re_term(list(av[2]))
            terms.append(f"(RStar {inner})" if av[0] == 0 else f"(RPlus {inner})")
        elif op is sc.SUBPATTERN and av[0] is None and av[1] == 0 and av[2] == 0:
            terms.append(re_term(list(av[3])))
        else:
            raise Unsupported(f"regex node {op} {av}")
    t = terms[-1]
    for a in reversed(terms[:-1]):
        t = f"(RSeq {a} {t})"
    return t


def anchored_regex(pattern) -> str:
    items = re_items(pattern)
    if len(items) < 2 or items[0] != (sc.AT, sc.AT_BEGINNING) or items[-1] != (sc.AT, sc.AT_END):
        raise Unsupported(f"regex {pattern!r}: expected ^...$")
    return re_term(items[1:-1])


def sub_trim_args(pattern: str):
    """pattern of the shape C1* lit C2* -> (cls1, lit, cls2) as Coq terms"""
    items = re_items(pattern)
    ok = (len(items) == 3 and items[0][0] is sc.MAX_REPEAT and items[2][0] is sc.MAX_REPEAT and items[1][0] is sc.LITERAL
          and all(it[1][0] == 0 and it[1][1] is sc.MAXREPEAT and len(it[1][2]) == 1 and it[1][2][0][0] is sc.IN for it in (items[0], items[2])))
    if not ok:
        raise Unsupported(f"re.sub pattern {pattern!r}: expected C1* lit C2*")
    c1, c2 = items[0][1][2][0][1], items[2][1][2][0][1]
    lit = items[1][1]
    for op, av in c1:
        if (op is sc.LITERAL and av == lit) or (op is sc.RANGE and av[0] <= lit <= av[1]):
            raise Unsupported(f"re.sub pattern {pattern!r}: literal inside the leading class")
    return cls_of(c1), "x%02x" % lit, cls_of(c2)


# ------------------------------------------------------------------ expressions
# types: bool, bytes, optbytes, lbytes (list of bytes), Z, optZ, msg, req, optresp, headers, strflag
class Tr:
    def __init__(self, regexes, consts):
        self.regexes = regexes      # name -> True
        self.consts = consts        # name -> type

    # ---- truthiness of an expression used as a condition
    def cond(self, e, env) -> str:
        if isinstance(e, ast.BoolOp):
            op = " && " if isinstance(e.op, ast.And) else " || "
            return "(" + op.join(self.cond(v, env) for v in e.values) + ")"
        if isinstance(e, ast.UnaryOp) and isinstance(e.op, ast.Not):
            return f"(negb {self.cond(e.operand, env)})"
        t, ty = self.expr(e, env)
        if ty == "bool":
            return t
        if ty == "lbytes":
            return f"(nonempty {t})"
        if ty == "optbytes":
            return f"(opt_truthy {t})"
        if ty == "optresp":
            return f"(match {t} with Some _ => true | None => false end)"
        bad(e, f"truthiness of type {ty}")

    def expr(self, e, env):
        """-> (coq term, type)"""
        if isinstance(e, ast.Name):
            if e.id in env:
                return env[e.id]
            if e.id in self.consts:
                return e.id, self.consts[e.id]
            bad(e, "unknown name")
        if isinstance(e, ast.Constant):
            if isinstance(e.value, (str, bytes)):
                return cbytes(lit_bytes(e)), "bytes"
            if isinstance(e.value, bool):
                return ("true" if e.value else "false"), "bool"
            if isinstance(e.value, int):
                return f"({e.value})%Z", "Z"
            if e.value is None:
                return "None", "none"
            bad(e)
        if isinstance(e, ast.UnaryOp) and isinstance(e.op, ast.USub) and isinstance(e.operand, ast.Constant) and isinstance(e.operand.value, int):
            return f"(-{e.operand.value})%Z", "Z"
        if isinstance(e, (ast.BoolOp,)) or (isinstance(e, ast.UnaryOp) and isinstance(e.op, ast.Not)):
            return self.cond(e, env), "bool"
        if isinstance(e, ast.Subscript) and isinstance(e.slice, ast.Constant) and e.slice.value == 0:
            t, ty = self.expr(e.value, env)
            if ty == "lbytes":
                return f"(first_or_empty {t})", "bytes"   # only reached under a non-emptiness test (checked by the caller's structure)
            bad(e)
        if isinstance(e, ast.Compare):
            return self.compare(e, env), "bool"
        if isinstance(e, ast.Attribute):
            src = ast.unparse(e)
            t, ty = self.expr(e.value, env)
            if ty == "msg" and e.attr == "is_http11":
                return f"(is_http11 {t})", "bool"
            if ty == "msg" and e.attr == "status_code":
                return f"(status_code {t})", "Z"
            if ty == "resp" and e.attr == "status_code":
                return f"(rs_status {t})", "Z"
            if ty == "req" and e.attr == "method":
                return f"(rq_method {t})", "bytes"
            if ty == "req" and e.attr == "headers":
                return f"(rq_headers {t})", "headers"
            if ty == "resp" and e.attr == "headers":
                return f"(rs_headers {t})", "headers"
            bad(e, f"attribute of {ty}")
        if isinstance(e, ast.Call):
            return self.call(e, env)
        bad(e)

    def compare(self, e, env) -> str:
        # chained  a <= x <= b
        if len(e.ops) == 2 and all(isinstance(o, ast.LtE) for o in e.ops):
            a, ta = self.expr(e.left, env)
            x, tx = self.expr(e.comparators[0], env)
            b, tb = self.expr(e.comparators[1], env)
            if (ta, tx, tb) != ("Z", "Z", "Z"):
                bad(e, "chained comparison of non-integers")
            return f"((Z.leb {a} {x}) && (Z.leb {x} {b}))"
        if len(e.ops) != 1:
            bad(e)
        op, l, r = e.ops[0], e.left, e.comparators[0]
        if isinstance(op, (ast.Eq, ast.NotEq)):
            a, ta = self.expr(l, env)
            b, tb = self.expr(r, env)
            if ta == tb == "bytes":
                t = f"(bytes_eqb {a} {b})"
            elif ta == tb == "Z":
                t = f"(Z.eqb {a} {b})"
            else:
                bad(e, f"equality between {ta} and {tb}")
            return t if isinstance(op, ast.Eq) else f"(negb {t})"
        if isinstance(op, (ast.In, ast.NotIn)):
            a, ta = self.expr(l, env)
            if isinstance(r, ast.Tuple):
                elts = [self.expr(x, env) for x in r.elts]
                if ta == "Z" and all(t == "Z" for _, t in elts):
                    t = "(" + " || ".join(f"(Z.eqb {a} {x})" for x, _ in elts) + ")"
                else:
                    bad(e, "membership in a tuple of non-integers")
            else:
                b, tb = self.expr(r, env)
                if ta == "bytes" and tb == "bytes":
                    t = f"(contains {a} {b})"          # bytes substring test
                elif ta == "bytes" and tb == "lbytes":
                    t = f"(in_set {a} {b})"
                elif ta == "bytes" and tb == "headers":
                    t = f"(hcontains {a} {b})"
                else:
                    bad(e, f"membership of {ta} in {tb}")
            return t if isinstance(op, ast.In) else f"(negb {t})"
        bad(e)

    def call(self, e, env):
        f = e.func
        src = ast.unparse(f)
        args = e.args
        if e.keywords:
            bad(e, "keyword arguments")
        if src == "isinstance" and len(args) == 2 and isinstance(args[1], ast.Name):
            t, ty = self.expr(args[0], env)
            cls_ = args[1].id
            if ty == "bytes" and cls_ == "str" and isinstance(args[0], ast.Name) and ("is_str", "strflag") == env.get("__flag_" + args[0].id):
                return "is_str", "bool"
            if ty == "msg" and cls_ == "Response":
                return f"(is_response {t})", "bool"
            if ty == "msg" and cls_ == "Request":
                return f"(is_request {t})", "bool"
            bad(e, "isinstance")
        if src == "bool" and len(args) == 1:
            return self.cond(args[0], env), "bool"
        if src == "int" and len(args) == 1:
            t, ty = self.expr(args[0], env)
            if ty != "bytes":
                bad(e)
            return f"(py_int_res {t})", "resZ"
        if src == "len" and len(args) == 1:
            bad(e, "len() outside the supported comparison len(x) > 1")
        if src == "typing.cast" and len(args) == 2:
            return self.expr(args[1], env)
        if src in ("validate.parse_transfer_encoding", "parse_transfer_encoding") and len(args) == 1:
            t, ty = self.expr(args[0], env)
            if ty != "bytes":
                bad(e)
            flag = "true" if src.startswith("validate.") else "false"   # read.py passes str (headers.get), validate.py passes raw bytes
            return f"(parse_transfer_encoding {flag} {t})", "resbytes"
        if src in ("validate.parse_content_length", "parse_content_length") and len(args) == 1:
            t, ty = self.expr(args[0], env)
            if ty != "bytes":
                bad(e)
            flag = "true" if src.startswith("validate.") else "false"
            return f"(parse_content_length {flag} {t})", "resZ"
        if src == "re.sub" and len(args) == 3:
            c1, lit, c2 = sub_trim_args(args[0].value if isinstance(args[0], ast.Constant) and isinstance(args[0].value, str) else bad(args[0]))
            repl = cbytes(lit_bytes(args[1]))
            t, ty = self.expr(args[2], env)
            if ty != "bytes":
                bad(e)
            return f"(re_sub_trim {c1} {lit} {c2} {repl} {t})", "bytes"
        if isinstance(f, ast.Attribute):
            recv, meth = f.value, f.attr
            if isinstance(recv, ast.Name) and recv.id in self.regexes and meth == "match" and len(args) == 1:
                t, ty = self.expr(args[0], env)
                if ty != "bytes":
                    bad(e)
                return f"(re_match_anchored {recv.id} {t})", "bool"   # used only for its truthiness
            t, ty = self.expr(recv, env)
            if ty == "bytes" and meth == "isascii" and not args:
                return f"(isascii {t})", "bool"
            if ty == "bytes" and meth == "lower" and not args:
                return f"(lower {t})", "bytes"
            if ty == "bytes" and meth == "upper" and not args:
                return f"(upper {t})", "bytes"
            if ty == "bytes" and meth == "decode" and not args:
                return t, "bytes"            # bytes -> str of an ASCII value (isascii was tested before): same bytes
            if ty == "headers" and meth == "get" and len(args) == 1:
                k, tk = self.expr(args[0], env)
                return f"(hget {k} {t})", "optbytes"
        bad(e, "call")

    # ------------------------------------------------------------------ statements (CPS)
    def stmts(self, body, env, k, ret):
        """body: list of statements; k(env) -> Coq term for falling off the end; ret: how `return` is rendered"""
        if not body:
            return k(env)
        s, rest = body[0], body[1:]
        cont = lambda env2: self.stmts(rest, env2, k, ret)
        if isinstance(s, ast.Expr) and isinstance(s.value, ast.Constant) and isinstance(s.value.value, str):
            return cont(env)
        if isinstance(s, ast.Pass):
            return cont(env)
        if isinstance(s, ast.Raise):
            if isinstance(s.exc, ast.Call) and ast.unparse(s.exc.func) == "ValueError":
                return "ValueError"
            bad(s, "raise of something else than ValueError(...)")
        if isinstance(s, ast.Return):
            return ret(s.value, env)
        if isinstance(s, ast.Assign) and len(s.targets) == 1 and isinstance(s.targets[0], ast.Name):
            name = s.targets[0].id
            # list initialisation
            if isinstance(s.value, ast.List) and not s.value.elts:
                env2 = dict(env); env2[name] = (name, "lbytes")
                return f"(let {name} : list bytes := [] in\n{cont(env2)})"
            t, ty = self.expr(s.value, env)
            if ty in ("resbytes", "resZ"):
                env2 = dict(env); env2[name] = (name, "bytes" if ty == "resbytes" else "Z")
                return f"(bind {t} (fun {name} =>\n{cont(env2)}))"
            if ty in ("bool", "bytes", "Z", "headers"):
                env2 = dict(env); env2[name] = (name, ty)
                return f"(let {name} := {t} in\n{cont(env2)})"
            bad(s, f"assignment of type {ty}")
        if isinstance(s, ast.Expr) and isinstance(s.value, ast.Call) and isinstance(s.value.func, ast.Attribute) \
                and s.value.func.attr == "append" and isinstance(s.value.func.value, ast.Name) and len(s.value.args) == 1:
            name = s.value.func.value.id
            if env.get(name, (None, None))[1] != "lbytes":
                bad(s, "append to a non-list")
            t, ty = self.expr(s.value.args[0], env)
            if ty != "bytes":
                bad(s)
            return f"(let {name} := {name} ++ [{t}] in\n{cont(env)})"
        if isinstance(s, ast.Expr) and isinstance(s.value, ast.Call) and ast.unparse(s.value.func) == "typing.assert_never":
            return "OtherError"
        if isinstance(s, ast.Expr) and isinstance(s.value, ast.Call):
            t, ty = self.expr(s.value, env)
            if ty in ("resbytes", "resZ"):
                return f"(bind {t} (fun _ =>\n{cont(env)}))"
            bad(s, "expression statement")
        if isinstance(s, ast.If):
            return self.if_stmt(s, env, cont, k, ret)
        if isinstance(s, ast.For):
            return self.for_stmt(s, env, cont, ret)
        if isinstance(s, ast.Match):
            return self.match_stmt(s, env, cont, ret)
        bad(s)

    def if_stmt(self, s, env, cont, k, ret):
        test = s.test
        env_t = env
        prefix = ""
        # len(x) > 1
        if isinstance(test, ast.Compare) and len(test.ops) == 1 and isinstance(test.ops[0], ast.Gt) \
                and isinstance(test.left, ast.Call) and ast.unparse(test.left.func) == "len" \
                and isinstance(test.comparators[0], ast.Constant) and test.comparators[0].value == 1:
            t, ty = self.expr(test.left.args[0], env)
            if ty != "lbytes":
                bad(test)
            c = f"(len_gt1 {t})"
        elif isinstance(test, ast.NamedExpr) and isinstance(test.target, ast.Name):
            name = test.target.id
            t, ty = self.expr(test.value, env)
            if ty != "optbytes":
                bad(test, "walrus of a non-optional")
            # inside the true branch the name is a non-empty str; it is not used after the if in the supported code
            env_t = dict(env); env_t[name] = (f"(opt_val {name}_opt)", "bytes")
            prefix = f"let {name}_opt := {t} in "
            c = f"(opt_truthy {name}_opt)"
        else:
            c = self.cond(test, env)
        # NB: the continuation is duplicated into both arms, each with the lexical environment of its arm
        a = self.stmts(s.body, env_t, lambda e2: cont(e2), ret)
        b = self.stmts(s.orelse, env, lambda e2: cont(e2), ret)
        return f"({prefix}if {c}\nthen {a}\nelse {b})"

    def for_stmt(self, s, env, cont, ret):
        if s.orelse or ast.unparse(s.target) != "(name, value)" or ast.unparse(s.iter) != "message.headers.fields":
            bad(s, "for loop other than `for name, value in message.headers.fields`")
        carried = sorted(n for n, (t, ty) in env.items() if ty == "lbytes")
        env_b = dict(env); env_b["name"] = ("name", "bytes"); env_b["value"] = ("value", "bytes")
        args = " ".join(carried)
        body = self.stmts(s.body, env_b, lambda e2: f"(loop fields' {args})", lambda v, e2: bad(s, "return inside the loop"))
        binders = " ".join(f"({c} : list bytes)" for c in carried)
        msg, _ = env["message"]
        return (f"((fix loop (fields : headers) {binders} {{struct fields}} : res _ :=\n"
                f"  match fields with\n  | [] => {cont(env)}\n  | (name, value) :: fields' =>\n{body}\n  end) (msg_headers {msg}) {args})")

    def match_stmt(self, s, env, cont, ret):
        subj, ty = self.expr(s.subject, env)
        if ty != "bytes":
            bad(s, "match on a non-string")
        out = cont(env)        # no case matched: fall through (overridden by a final capture pattern)
        arms = []
        for c in s.cases:
            if c.guard is not None:
                bad(s, "case guard")
            p = c.pattern
            if isinstance(p, ast.MatchAs) and p.pattern is None and p.name is not None:
                env2 = dict(env); env2[p.name] = (subj, "bytes")
                out = self.stmts(c.body, env2, lambda e2: cont(e2), ret)
                break
            alts = p.patterns if isinstance(p, ast.MatchOr) else [p]
            lits = []
            for a in alts:
                if not (isinstance(a, ast.MatchValue) and isinstance(a.value, ast.Constant)):
                    bad(s, "case pattern")
                lits.append(cbytes(lit_bytes(a.value)))
            arms.append(("[" + "; ".join(lits) + "]", self.stmts(c.body, env, lambda e2: cont(e2), ret)))
        for lits, body in reversed(arms):
            out = f"(if in_set {subj} {lits}\nthen {body}\nelse {out})"
        return out


def get_fn(tree, name, params):
    fns = [n for n in tree.body if isinstance(n, ast.FunctionDef) and n.name == name]
    if len(fns) != 1 or [a.arg for a in fns[0].args.args] != params or fns[0].decorator_list:
        raise Unsupported(f"{name}: definition/signature")
    return fns[0]


def translate(repo: str) -> str:
    vtree = ast.parse(open(os.path.join(repo, "mitmproxy/net/http/validate.py")).read())
    rtree = ast.parse(open(os.path.join(repo, "mitmproxy/net/http/http1/read.py")).read())
    out = ["(* GENERATED by harness/translators/body_size.py from mitmproxy/net/http/validate.py and",
           "   mitmproxy/net/http/http1/read.py (expected_http_body_size) -- do not edit. *)",
           "From Coq Require Import List Bool NArith ZArith.",
           "From MV Require Import Base.Bytes Model.Http1Msg Model.BodySizePrelude.",
           "Import ListNotations.", ""]
    # ---- module-level constants of validate.py
    regexes, consts = {}, {}
    literal_sets = {}
    for n in vtree.body:
        if isinstance(n, (ast.Import, ast.ImportFrom, ast.FunctionDef)):
            continue
        if isinstance(n, ast.Expr) and isinstance(n.value, ast.Constant):
            continue
        if not (isinstance(n, ast.Assign) and len(n.targets) == 1 and isinstance(n.targets[0], ast.Name)):
            bad(n, "module-level statement")
        name, v = n.targets[0].id, n.value
        src = ast.unparse(v)
        if name == "logger":
            continue
        if isinstance(v, ast.Call) and ast.unparse(v.func) == "re.compile" and len(v.args) == 1 and not v.keywords \
                and isinstance(v.args[0], ast.Constant):
            out.append(f"Definition {name} : re :=\n  {anchored_regex(v.args[0].value)}.\n")
            regexes[name] = True
        elif src.startswith("typing.Literal[") and isinstance(v, ast.Subscript):
            elts = v.slice.elts if isinstance(v.slice, ast.Tuple) else [v.slice]
            literal_sets[name] = [lit_bytes(x) for x in elts]
        elif isinstance(v, ast.Call) and src.startswith("frozenset(typing.get_args(") and isinstance(v.args[0].args[0], ast.Name) \
                and v.args[0].args[0].id in literal_sets:
            lits = literal_sets[v.args[0].args[0].id]
            out.append(f"Definition {name} : list bytes :=\n  [" + ";\n   ".join(cbytes(x) for x in lits) + "].\n")
            consts[name] = "lbytes"
        else:
            bad(n, "module-level assignment")
    tr = Tr(regexes, consts)

    def ret_res(kind):
        def ret(v, env):
            if v is None:
                return "(Ok tt)" if kind == "unit" else bad(ast.Pass(), "bare return")
            t, ty = tr.expr(v, env)
            if kind == "Z" and ty == "resZ":
                return t
            if kind == "bytes" and ty == "bytes":
                return f"(Ok {t})"
            if kind == "optZ":
                if ty == "none":
                    return "(Ok None)"
                if ty == "Z":
                    return f"(Ok (Some {t}))"
                if ty == "resZ":
                    return f"(bind {t} (fun n => Ok (Some n)))"
            bad(v, f"return of type {ty} where {kind} is expected")
        return ret

    # ---- parse_content_length
    fn = get_fn(vtree, "parse_content_length", ["value"])
    env = {"value": ("value", "bytes"), "__flag_value": ("is_str", "strflag")}
    body = tr.stmts(fn.body, env, lambda e: bad(fn, "falls off the end"), ret_res("Z"))
    out.append(f"Definition parse_content_length (is_str : bool) (value : bytes) : res Z :=\n{body}.\n")
    # ---- parse_transfer_encoding
    fn = get_fn(vtree, "parse_transfer_encoding", ["value"])
    body = tr.stmts(fn.body, env, lambda e: bad(fn, "falls off the end"), ret_res("bytes"))
    out.append(f"Definition parse_transfer_encoding (is_str : bool) (value : bytes) : res bytes :=\n{body}.\n")
    # ---- validate_headers
    fn = get_fn(vtree, "validate_headers", ["message"])
    env = {"message": ("message", "msg")}
    body = tr.stmts(fn.body, env, lambda e: "(Ok tt)", ret_res("unit"))
    out.append(f"Definition validate_headers (message : message) : res unit :=\n{body}.\n")
    # ---- expected_http_body_size: the prologue `if not response: headers = request.headers else: headers = response.headers; <rules 1-2>`
    fn = get_fn(rtree, "expected_http_body_size", ["request", "response"])
    stm = [s for s in fn.body if not (isinstance(s, ast.Expr) and isinstance(s.value, ast.Constant))]
    first = stm[0]
    if not (isinstance(first, ast.If) and ast.unparse(first.test) == "not response" and len(first.body) == 1
            and ast.unparse(first.body[0]) == "headers = request.headers"
            and first.orelse and ast.unparse(first.orelse[0]) == "headers = response.headers"):
        bad(first, "expected_http_body_size prologue")
    env_req = {"request": ("request", "req"), "response": ("(@None response_head)", "optresp"), "headers": ("headers", "headers")}
    env_resp = {"request": ("request", "req"), "response": ("(Some resp)", "optresp"), "headers": ("headers", "headers")}

    class RespAttr(Tr):
        def expr(self, e, env):
            if isinstance(e, ast.Attribute) and isinstance(e.value, ast.Name) and e.value.id == "response" and env["response"][0] == "(Some resp)":
                return super().expr(ast.Attribute(value=ast.Name(id="__resp"), attr=e.attr), {**env, "__resp": ("resp", "resp")})
            return super().expr(e, env)
    tr2 = RespAttr(regexes, consts)
    tr2_ret = ret_res("optZ")
    tr_saved = tr
    tr = tr2
    rest_req = tr2.stmts(stm[1:], env_req, lambda e: bad(fn, "falls off the end"), tr2_ret)
    rest_resp = tr2.stmts(first.orelse[1:] + stm[1:], env_resp, lambda e: bad(fn, "falls off the end"), tr2_ret)
    tr = tr_saved
    out.append("(* None: chunked; Some (-1): read until EOF; Some n: n bytes *)\n"
               "Definition expected_http_body_size (request : request_head) (response : option response_head) : res (option Z) :=\n"
               "  match response with\n"
               f"  | None => let headers := rq_headers request in\n{rest_req}\n"
               f"  | Some resp => let headers := rs_headers resp in\n{rest_resp}\n"
               "  end.\n")
    return "\n".join(out)


if __name__ == "__main__":
    import sys
    print(translate(sys.argv[1] if len(sys.argv) > 1 else "/repo"))
