"""Translator for C22: mitmproxy/addons/block.py `Block.client_connected`  ->  coq/Gen/Block.v.

Regenerated on every run from (1) the current source of block.py, (2) the source of the RUNNING
interpreter's `ipaddress` properties used by it (is_private / is_global / is_loopback / ipv4_mapped),
(3) the run-time values of the `_IPv4Constants` / `_IPv6Constants` network tables those properties
read (as closed integer intervals), (4) the ProxyMode subclasses of mode_specs.py, (5) the shape of
`ConnectionHandler.handle_client` right after the client_connected hook.
Fail closed: any statement / expression outside the tiny subset below raises.

What is abstracted (matched by exact AST shape, not translated): the two statements that turn the
peer name string into an address object (`rsplit("%", 1)` and `ipaddress.ip_address`) -- the generated
function takes the parsed address (family, integer) as input; the harness ties spelling -> address on
the real code.  Calls to `logging.*` are dropped (log text is not an observable).
"""
from __future__ import annotations

import ast
import ipaddress
import os

OUT = "Block.v"


class Unsupported(Exception):
    pass


def bad(node, why=""):
    raise Unsupported(f"{why or 'unsupported construct'}: {ast.dump(node)[:200]} (line {getattr(node, 'lineno', '?')})")


def coq_string(s: str) -> str:
    if not all(32 <= ord(c) < 127 for c in s):
        raise Unsupported(f"non-ASCII literal {s!r}")
    return '"' + s.replace('"', '""') + '"%string'


def is_doc(st):
    return isinstance(st, ast.Expr) and isinstance(st.value, ast.Constant) and isinstance(st.value.value, str)


def find_method(tree, cls, name):
    for n in tree.body:
        if isinstance(n, ast.ClassDef) and n.name == cls:
            hits = [m for m in n.body if isinstance(m, (ast.FunctionDef, ast.AsyncFunctionDef)) and m.name == name]
            if len(hits) != 1:
                raise Unsupported(f"{cls}.{name}: expected exactly one definition, found {len(hits)}")
            return hits[0]
    raise Unsupported(f"class {cls} not found")


# ------------------------------------------------------------------ ipaddress properties

class Stdlib:
    """Translate the handful of `ipaddress` property bodies; record which constant tables they read."""

    def __init__(self):
        self.tree = ast.parse(open(ipaddress.__file__).read())
        self.tables = []      # (coq name, value)
        self.defs = []

    def table(self, fam, attr):
        consts = ipaddress._IPv4Constants if fam == 4 else ipaddress._IPv6Constants
        if not hasattr(consts, attr):
            raise Unsupported(f"_IPv{fam}Constants.{attr} missing")
        v = getattr(consts, attr)
        name = f"IPv{fam}{attr}"
        if name not in [t[0] for t in self.tables]:
            def iv(n):
                if not isinstance(n, (ipaddress.IPv4Network, ipaddress.IPv6Network)) or n.version != fam:
                    raise Unsupported(f"{attr}: not an IPv{fam} network: {n!r}")
                return (int(n.network_address), int(n.broadcast_address))
            val = [iv(n) for n in v] if isinstance(v, list) else iv(v)
            self.tables.append((name, val))
        return name, isinstance(v, list)

    def const_attr(self, e):
        """self._constants._X -> X"""
        if (isinstance(e, ast.Attribute) and isinstance(e.value, ast.Attribute) and e.value.attr == "_constants"
                and isinstance(e.value.value, ast.Name) and e.value.value.id == "self"):
            return e.attr
        return None

    def expr(self, e, fam, env):
        """env: local name -> ('v4'|'self'); returns Coq text"""
        if isinstance(e, ast.BoolOp):
            op = " && " if isinstance(e.op, ast.And) else " || "
            return "(" + op.join(self.expr(v, fam, env) for v in e.values) + ")"
        if isinstance(e, ast.UnaryOp) and isinstance(e.op, ast.Not):
            return f"(negb {self.expr(e.operand, fam, env)})"
        if isinstance(e, ast.Constant) and isinstance(e.value, int) and not isinstance(e.value, bool):
            return str(e.value)
        if isinstance(e, ast.Attribute) and isinstance(e.value, ast.Name):
            who = e.value.id
            if who == "self" and e.attr == "_ip":
                return "self"
            if who == "self" and e.attr in ("is_private", "is_global", "is_loopback", "ipv4_mapped"):
                self.prop(fam, e.attr)
                return f"(IPv{fam}Address_{e.attr} self)"
            if env.get(who) == "v4" and e.attr in ("is_private", "is_global", "is_loopback"):
                self.prop(4, e.attr)
                return f"(IPv4Address_{e.attr} {who})"
            bad(e)
        if isinstance(e, ast.BinOp) and isinstance(e.op, ast.RShift):
            return f"(N.shiftr {self.expr(e.left, fam, env)} {self.expr(e.right, fam, env)})"
        if isinstance(e, ast.BinOp) and isinstance(e.op, ast.BitAnd):
            return f"(N.land {self.expr(e.left, fam, env)} {self.expr(e.right, fam, env)})"
        if isinstance(e, ast.Compare) and len(e.ops) == 1:
            op, l, r = e.ops[0], e.left, e.comparators[0]
            if isinstance(op, (ast.In, ast.NotIn)) and isinstance(l, ast.Name) and l.id == "self":
                if isinstance(r, ast.Name) and env.get(r.id) == "net":
                    t = f"(in_net self {r.id})"
                else:
                    attr = self.const_attr(r)
                    if attr is None:
                        bad(e)
                    name, is_list = self.table(fam, attr)
                    if is_list:
                        bad(e, "membership in a list of networks")
                    t = f"(in_net self {name})"
                return t if isinstance(op, ast.In) else f"(negb {t})"
            if isinstance(op, (ast.Eq, ast.NotEq)):
                t = f"({self.expr(l, fam, env)} =? {self.expr(r, fam, env)})"
                return t if isinstance(op, ast.Eq) else f"(negb {t})"
            bad(e)
        if (isinstance(e, ast.Call) and isinstance(e.func, ast.Name) and e.func.id in ("any", "all") and len(e.args) == 1
                and not e.keywords and isinstance(e.args[0], ast.GeneratorExp)):
            g = e.args[0]
            if len(g.generators) != 1 or g.generators[0].ifs or g.generators[0].is_async or not isinstance(g.generators[0].target, ast.Name):
                bad(e)
            attr = self.const_attr(g.generators[0].iter)
            if attr is None:
                bad(e)
            name, is_list = self.table(fam, attr)
            if not is_list:
                bad(e, "iteration over a single network")
            v = g.generators[0].target.id
            body = self.expr(g.elt, fam, {**env, v: "net"})
            return f"({'existsb' if e.func.id == 'any' else 'forallb'} (fun {v} => {body}) {name})"
        bad(e)

    def ret(self, e, fam, env, opt):
        if not opt:
            return self.expr(e, fam, env)
        if isinstance(e, ast.Constant) and e.value is None:
            return "None"
        if (isinstance(e, ast.Call) and isinstance(e.func, ast.Name) and e.func.id == "IPv4Address"
                and len(e.args) == 1 and not e.keywords):
            return f"(Some {self.expr(e.args[0], fam, env)})"
        bad(e, "return value of an Optional[IPv4Address] property")

    def stmts(self, ss, fam, env, opt):
        if not ss:
            raise Unsupported("property body falls off the end")
        s, rest = ss[0], ss[1:]
        if is_doc(s):
            return self.stmts(rest, fam, env, opt)
        if isinstance(s, ast.Return) and s.value is not None:
            return self.ret(s.value, fam, env, opt)
        # x = self.ipv4_mapped ; if x is not None: return <e> ; <rest>
        if (isinstance(s, ast.Assign) and len(s.targets) == 1 and isinstance(s.targets[0], ast.Name)
                and isinstance(s.value, ast.Attribute) and isinstance(s.value.value, ast.Name)
                and s.value.value.id == "self" and s.value.attr == "ipv4_mapped" and fam == 6
                and rest and isinstance(rest[0], ast.If)):
            x, i = s.targets[0].id, rest[0]
            t = i.test
            if not (isinstance(t, ast.Compare) and isinstance(t.left, ast.Name) and t.left.id == x and len(t.ops) == 1
                    and isinstance(t.ops[0], ast.IsNot) and isinstance(t.comparators[0], ast.Constant)
                    and t.comparators[0].value is None and not i.orelse):
                bad(i)
            self.prop(6, "ipv4_mapped")
            some = self.stmts(i.body, fam, {**env, x: "v4"}, opt)
            none = self.stmts(rest[1:], fam, env, opt)
            return f"match IPv6Address_ipv4_mapped self with Some {x} => {some} | None => {none} end"
        if isinstance(s, ast.If) and not s.orelse:
            return f"if {self.expr(s.test, fam, env)} then {self.stmts(s.body, fam, env, opt)} else {self.stmts(rest, fam, env, opt)}"
        bad(s)

    def prop(self, fam, name):
        key = f"IPv{fam}Address_{name}"
        if key in [d[0] for d in self.defs]:
            return
        self.defs.append((key, None))          # reserve (detects recursion: text stays None)
        fn = find_method(self.tree, f"IPv{fam}Address", name)
        for d in fn.decorator_list:
            txt = ast.unparse(d)
            if txt not in ("property", "functools.lru_cache()"):
                raise Unsupported(f"{key}: decorator {txt}")
        if [a.arg for a in fn.args.args] != ["self"]:
            raise Unsupported(f"{key}: signature")
        opt = name == "ipv4_mapped"
        body = self.stmts(fn.body, fam, {}, opt)
        # dependencies were appended after the reservation; move this definition behind them
        self.defs = [d for d in self.defs if d[0] != key] + [(key, f"Definition {key} (self : N) : {'option N' if opt else 'bool'} :=\n  {body}.")]


# ------------------------------------------------------------------ Block.client_connected

EXPECT_PARSE = [
    "Assign(targets=[Name(id='parts', ctx=Store())], value=Call(func=Attribute(value=Subscript(value=Attribute(value=Name(id='client', ctx=Load()), attr='peername', ctx=Load()), slice=Constant(value=0), ctx=Load()), attr='rsplit', ctx=Load()), args=[Constant(value='%'), Constant(value=1)], keywords=[]))",
    "Assign(targets=[Name(id='address', ctx=Store())], value=Call(func=Attribute(value=Name(id='ipaddress', ctx=Load()), attr='ip_address', ctx=Load()), args=[Subscript(value=Name(id='parts', ctx=Load()), slice=Constant(value=0), ctx=Load())], keywords=[]))",
]


class BlockTr:
    def __init__(self, std: Stdlib, modes):
        self.std, self.modes, self.used_modes = std, modes, []

    def attr_chain(self, e):
        parts = []
        while isinstance(e, ast.Attribute):
            parts.append(e.attr)
            e = e.value
        if isinstance(e, ast.Name):
            parts.append(e.id)
            return ".".join(reversed(parts))
        return None

    def expr(self, e):
        if isinstance(e, ast.BoolOp):
            # `a.ipv4_mapped or a` : Optional[IPv4Address] or address
            if (isinstance(e.op, ast.Or) and len(e.values) == 2 and self.attr_chain(e.values[0]) == "address.ipv4_mapped"
                    and self.attr_chain(e.values[1]) == "address"):
                self.std.prop(6, "ipv4_mapped")
                return "(or_else (ip_ipv4_mapped address) address)"
            op = " && " if isinstance(e.op, ast.And) else " || "
            return "(" + op.join(self.expr(v) for v in e.values) + ")"
        if isinstance(e, ast.UnaryOp) and isinstance(e.op, ast.Not):
            return f"(negb {self.expr(e.operand)})"
        ch = self.attr_chain(e)
        if ch in ("address.is_loopback", "address.is_private", "address.is_global"):
            p = ch.split(".")[1]
            self.std.prop(4, p)
            self.std.prop(6, p)
            return f"(ip_{p} address)"
        if ch in ("ctx.options.block_private", "ctx.options.block_global"):
            return ch.split(".")[2]
        if isinstance(e, ast.Call) and isinstance(e.func, ast.Name) and e.func.id == "isinstance" and len(e.args) == 2 and not e.keywords:
            a, c = self.attr_chain(e.args[0]), self.attr_chain(e.args[1])
            if a == "address" and c == "ipaddress.IPv6Address":
                return "(ip_is_v6 address)"
            if a == "client.proxy_mode" and c and c.startswith("mode_specs.") and c.split(".")[1] in self.modes:
                if c.split(".")[1] not in self.used_modes:
                    self.used_modes.append(c.split(".")[1])
                return f"(isinstance_{c.split('.')[1]} proxy_mode)"
        bad(e)

    def stmts(self, ss):
        """statement list -> Gallina expression for the final value of client.error"""
        if not ss:
            return "error"
        s, rest = ss[0], ss[1:]
        if is_doc(s):
            return self.stmts(rest)
        if isinstance(s, ast.Return) and s.value is None:
            return "error"
        if isinstance(s, ast.If):
            return f"(if {self.expr(s.test)}\n   then {self.stmts(s.body + rest)}\n   else {self.stmts(s.orelse + rest)})"
        if isinstance(s, ast.Expr) and isinstance(s.value, ast.Call) and (self.attr_chain(s.value.func) or "").startswith("logging."):
            return self.stmts(rest)        # log output is not an observable
        if isinstance(s, ast.Assign) and len(s.targets) == 1:
            t = self.attr_chain(s.targets[0])
            if t == "client.error" and isinstance(s.value, ast.Constant) and isinstance(s.value.value, str):
                return f"(let error := Some {coq_string(s.value.value)} in {self.stmts(rest)})"
            if t == "address":
                return f"(let address := {self.expr(s.value)} in {self.stmts(rest)})"
        bad(s)


def proxy_modes(repo):
    tree = ast.parse(open(os.path.join(repo, "mitmproxy/proxy/mode_specs.py")).read())
    modes = []
    for n in tree.body:
        if isinstance(n, ast.ClassDef):
            bases = [ast.unparse(b) for b in n.bases]
            if "ProxyMode" in bases:
                modes.append(n.name)
            elif any(b in modes for b in bases):
                raise Unsupported(f"{n.name} subclasses a concrete proxy mode ({bases}); isinstance would need subtyping")
    if "LocalMode" not in modes:
        raise Unsupported("LocalMode not found in mode_specs.py")
    return modes


def after_hook(repo):
    """Shape of ConnectionHandler.handle_client after the client_connected hook."""
    tree = ast.parse(open(os.path.join(repo, "mitmproxy/proxy/server.py")).read())
    fn = find_method(tree, "ConnectionHandler", "handle_client")
    calls_of = lambda nodes: [ast.unparse(c.func) for n in nodes for c in ast.walk(n) if isinstance(c, ast.Call)]
    for i, s in enumerate(fn.body):
        if "ClientConnectedHook" in ast.unparse(s):
            if ast.unparse(s) != "await self.handle_hook(server_hooks.ClientConnectedHook(self.client))":
                bad(s, "client_connected hook call")
            before = calls_of(fn.body[:i])
            if any(c in ("self.server_event", "self.handle_connection") for c in before):
                raise Unsupported("protocol processing starts before the client_connected hook")
            nxt = fn.body[i + 1]
            if not (isinstance(nxt, ast.If) and ast.unparse(nxt.test) == "self.client.error"):
                bad(nxt, "statement after the client_connected hook")
            killed, alive = calls_of(nxt.body), calls_of(nxt.orelse)
            interesting = {"writer.close": "CloseWriter", "self.server_event": "StartEvent", "self.handle_connection": "HandleConnection"}
            k = [interesting[c] for c in killed if c in interesting]
            a = [interesting[c] for c in alive if c in interesting]
            return k, a
    raise Unsupported("client_connected hook not found in handle_client")


def stateless_class(tree):
    """The addon instance carries no state between hooks: class Block defines only `load` and `client_connected`
    (no __init__, configure, caches, class attributes), has no base class or decorator, and no method body mentions
    `self` except `load` (which only registers options) -- and even there never assigns to an attribute of self.
    Module level: only imports and the class.  Anything else fails closed, so a memo/cache cannot slip past the model."""
    for n in tree.body:
        if not (isinstance(n, (ast.Import, ast.ImportFrom)) or (isinstance(n, ast.ClassDef) and n.name == "Block") or is_doc(n)):
            bad(n, "module-level statement other than imports and class Block (possible module state)")
    cls = [n for n in tree.body if isinstance(n, ast.ClassDef) and n.name == "Block"][0]
    if cls.bases or cls.keywords or cls.decorator_list:
        bad(cls, "Block has bases/decorators")
    for m in cls.body:
        if is_doc(m):
            continue
        if not isinstance(m, ast.FunctionDef) or m.name not in ("load", "client_connected"):
            bad(m, "class Block member other than load/client_connected (possible per-instance state)")
        for x in ast.walk(m):
            if isinstance(x, (ast.Global, ast.Nonlocal)):
                bad(x, "global/nonlocal in a Block method")
            if isinstance(x, ast.Attribute) and isinstance(x.value, ast.Name) and x.value.id == "self" and not isinstance(x.ctx, ast.Load):
                bad(x, "assignment to an attribute of self")
            if m.name == "client_connected" and isinstance(x, ast.Name) and x.id == "self":
                bad(x, "client_connected reads the addon instance")


def translate(repo: str) -> str:
    src_path = os.path.join(repo, "mitmproxy/addons/block.py")
    tree = ast.parse(open(src_path).read())
    stateless_class(tree)
    fn = find_method(tree, "Block", "client_connected")
    if [a.arg for a in fn.args.args] != ["self", "client"] or fn.decorator_list:
        raise Unsupported("client_connected signature")
    body = [s for s in fn.body if not is_doc(s)]
    for want, got in zip(EXPECT_PARSE, body[:2]):
        if ast.dump(got) != want:
            bad(got, "peer name parsing statement changed")
    std = Stdlib()
    modes = proxy_modes(repo)
    btr = BlockTr(std, modes)
    main = btr.stmts(body[2:])
    for fam in (4, 6):                    # always emit all classes (the spec-side vocabulary refers to them)
        for p in ("is_loopback", "is_private", "is_global"):
            std.prop(fam, p)
    std.prop(6, "ipv4_mapped")
    killed, alive = after_hook(repo)

    o = ["(* GENERATED by harness/translators/block.py -- do not edit.",
         f"   Sources: mitmproxy/addons/block.py, mitmproxy/proxy/mode_specs.py, mitmproxy/proxy/server.py,",
         f"   ipaddress.py and its run-time constant tables of the interpreter running the check. *)",
         "From Coq Require Import NArith List Bool String.",
         "From MV Require Import Model.Ipaddr.",
         "Import ListNotations.",
         "Open Scope N_scope.",
         ""]
    for name, val in std.tables:
        if isinstance(val, list):
            o.append(f"Definition {name} : list net := [" + "; ".join(f"({a}, {b})" for a, b in val) + "].")
        else:
            o.append(f"Definition {name} : net := ({val[0]}, {val[1]}).")
    o.append("")
    for key, text in std.defs:
        if text is None:
            raise Unsupported(f"recursive property {key}")
        o.append(text)
    o.append("")
    o.append("Definition ip_ipv4_mapped (a : ip) : option ip :=\n  match a with IPv6 n => option_map IPv4 (IPv6Address_ipv4_mapped n) | IPv4 _ => None end.")
    for p in ("is_loopback", "is_private", "is_global"):
        o.append(f"Definition ip_{p} (a : ip) : bool :=\n  match a with IPv4 n => IPv4Address_{p} n | IPv6 n => IPv6Address_{p} n end.")
    o.append("")
    o.append("Inductive proxy_mode := " + " | ".join(modes) + ".")
    for m in btr.used_modes:
        o.append(f"Definition isinstance_{m} (m : proxy_mode) : bool := match m with {m} => true | _ => false end.")
    o.append("")
    o.append("(* value of client.error after the hook (None: untouched) *)")
    o.append("Definition client_connected (block_private block_global : bool) (proxy_mode : proxy_mode) (address : ip) : option string :=")
    o.append("  let error := @None string in")
    o.append("  " + main + ".")
    o.append("")
    o.append("(* The addon instance as a state machine over the hook: established by stateless_class in the translator")
    o.append("   (no member besides load/client_connected, no use of self), the instance state is trivial. *)")
    o.append("Definition addon_state : Type := unit.")
    o.append("Definition initial_state : addon_state := tt.")
    o.append("Definition hook_step (st : addon_state) (block_private block_global : bool) (proxy_mode : proxy_mode) (address : ip)")
    o.append("  : addon_state * option string := (st, client_connected block_private block_global proxy_mode address).")
    o.append("")
    o.append("Inductive action := CloseWriter | StartEvent | HandleConnection.")
    o.append("Definition handle_client_after_hook (client_error : bool) : list action :=")
    o.append(f"  if client_error then [{'; '.join(killed)}] else [{'; '.join(alive)}].")
    return "\n".join(o) + "\n"


if __name__ == "__main__":
    import sys
    print(translate(sys.argv[1] if len(sys.argv) > 1 else "/repo"))
