"""Fail-closed translator for C41: literal tables of the HAR exporter/importer -> coq/Gen/HarTables.v.

Extracted from mitmproxy/io/har.py (request_to_flow):
  * req_version_table / req_version_default, resp_version_table / resp_version_default: the two
    `match http_version_req:` / `match http_version_resp:` statements (case literal -> assigned http_version, wildcard);
  * import_b64_tag: the literal `content_encoding == <lit>` that selects base64 decoding;
  * import_initial_version: the literal version passed to http.Response(...).
Extracted from mitmproxy/addons/savehar.py (SaveHar.flow_entry):
  * post_methods: the list in `if flow.request.method in [...]` guarding postData;
  * connect_method, connect_url_prefix, connect_url_suffix: `if flow.request.method == <lit>: url = f"<pre>{...pretty_url}<suf>"`;
  * export_b64_tag: the literal stored in response["content"]["encoding"];
  * noresp_status / noresp_version: the constants of the no-response branch.
Everything else in the two functions is modelled by hand in coq/Model/Har.v and tied by correspondence.
Any unexpected shape raises Unsupported."""
import ast
import os

OUT = "HarTables.v"


class Unsupported(Exception):
    pass


def _cbytes(s: str) -> str:
    b = s.encode("utf-8")
    return "(@nil byte)" if not b else "[" + ";".join("x%02x" % c for c in b) + "]"


def _cstr(s: str) -> str:
    return "(@nil N)" if not s else "[" + ";".join("%d%%N" % ord(c) for c in s) + "]"


def _func(tree, name, cls=None):
    body = tree.body
    if cls:
        cs = [n for n in body if isinstance(n, ast.ClassDef) and n.name == cls]
        if len(cs) != 1:
            raise Unsupported(f"class {cls} not found exactly once")
        body = cs[0].body
    fs = [n for n in body if isinstance(n, ast.FunctionDef) and n.name == name]
    if len(fs) != 1:
        raise Unsupported(f"function {name} not found exactly once")
    return fs[0]


def _const_str(n):
    if isinstance(n, ast.Constant) and isinstance(n.value, str):
        return n.value
    raise Unsupported("expected a string literal: " + ast.dump(n))


def _match_table(fn, subject, target):
    ms = [n for n in ast.walk(fn) if isinstance(n, ast.Match) and isinstance(n.subject, ast.Name) and n.subject.id == subject]
    if len(ms) != 1:
        raise Unsupported(f"expected exactly one `match {subject}`")
    table, default = [], None
    for k, c in enumerate(ms[0].cases):
        if c.guard is not None or len(c.body) != 1 or not isinstance(c.body[0], ast.Assign):
            raise Unsupported("match case with guard or non-assignment body")
        a = c.body[0]
        if len(a.targets) != 1 or ast.unparse(a.targets[0]) != target:
            raise Unsupported(f"match case assigns {ast.unparse(a.targets[0])}, expected {target}")
        val = _const_str(a.value)
        if isinstance(c.pattern, ast.MatchValue):
            if default is not None:
                raise Unsupported("case after wildcard")
            table.append((_const_str(c.pattern.value), val))
        elif isinstance(c.pattern, ast.MatchAs) and c.pattern.pattern is None and c.pattern.name is None:
            if k != len(ms[0].cases) - 1:
                raise Unsupported("wildcard is not last")
            default = val
        else:
            raise Unsupported("unsupported pattern " + ast.dump(c.pattern))
    if default is None:
        raise Unsupported("match without wildcard")
    return table, default


def translate(repo: str) -> str:
    har = ast.parse(open(os.path.join(repo, "mitmproxy/io/har.py")).read())
    sav = ast.parse(open(os.path.join(repo, "mitmproxy/addons/savehar.py")).read())
    r2f = _func(har, "request_to_flow")
    req_t, req_d = _match_table(r2f, "http_version_req", "new_flow.request.http_version")
    resp_t, resp_d = _match_table(r2f, "http_version_resp", "new_flow.response.http_version")
    # the two subjects must be the httpVersion fields of the entry
    srcs = {ast.unparse(n.targets[0]): ast.unparse(n.value) for n in ast.walk(r2f)
            if isinstance(n, ast.Assign) and len(n.targets) == 1 and isinstance(n.targets[0], ast.Name)
            and n.targets[0].id in ("http_version_req", "http_version_resp")}
    if srcs != {"http_version_req": "request_json['request']['httpVersion']",
                "http_version_resp": "request_json['response']['httpVersion']"}:
        raise Unsupported("unexpected sources of the version strings: " + repr(srcs))
    # content_encoding == "base64"
    tags = [n for n in ast.walk(r2f) if isinstance(n, ast.If) and isinstance(n.test, ast.Compare)
            and isinstance(n.test.left, ast.Name) and n.test.left.id == "content_encoding"]
    if len(tags) != 1 or len(tags[0].test.ops) != 1 or not isinstance(tags[0].test.ops[0], ast.Eq):
        raise Unsupported("expected exactly one `if content_encoding == <lit>`")
    import_tag = _const_str(tags[0].test.comparators[0])
    # http.Response(b"HTTP/1.1", ...)
    calls = [n for n in ast.walk(r2f) if isinstance(n, ast.Call) and ast.unparse(n.func) == "http.Response"]
    if len(calls) != 1 or not (isinstance(calls[0].args[0], ast.Constant) and isinstance(calls[0].args[0].value, bytes)):
        raise Unsupported("expected one http.Response(<bytes literal>, ...) call")
    initial_version = calls[0].args[0].value.decode("ascii")

    fe = _func(sav, "flow_entry", "SaveHar")
    post, conn = None, None
    for n in ast.walk(fe):
        if isinstance(n, ast.If) and isinstance(n.test, ast.Compare) and ast.unparse(n.test.left) == "flow.request.method":
            op = n.test.ops[0]
            if isinstance(op, ast.In) and isinstance(n.test.comparators[0], ast.List):
                if post is not None:
                    raise Unsupported("two method-list tests")
                post = [_const_str(e) for e in n.test.comparators[0].elts]
                tg = [ast.unparse(s.targets[0]) for s in n.body if isinstance(s, ast.Assign)]
                if "entry['request']['postData']" not in tg:
                    raise Unsupported("method-list test does not guard postData")
            elif isinstance(op, ast.Eq):
                if conn is not None:
                    raise Unsupported("two method equality tests")
                lit = _const_str(n.test.comparators[0])
                if len(n.body) != 1 or len(n.orelse) != 1 or ast.unparse(n.orelse[0]) != "url = flow.request.pretty_url":
                    raise Unsupported("unexpected CONNECT url branch")
                a = n.body[0]
                if not (isinstance(a, ast.Assign) and ast.unparse(a.targets[0]) == "url" and isinstance(a.value, ast.JoinedStr)):
                    raise Unsupported("unexpected CONNECT url assignment")
                parts = a.value.values
                if not (len(parts) == 3 and isinstance(parts[0], ast.Constant) and isinstance(parts[2], ast.Constant)
                        and isinstance(parts[1], ast.FormattedValue) and ast.unparse(parts[1].value) == "flow.request.pretty_url"
                        and parts[1].conversion == -1 and parts[1].format_spec is None):
                    raise Unsupported("unexpected CONNECT url f-string")
                conn = (lit, parts[0].value, parts[2].value)
            else:
                raise Unsupported("unexpected test on flow.request.method")
    if post is None or conn is None:
        raise Unsupported("method tests not found")
    # response["content"]["encoding"] = "base64"
    enc = [n for n in ast.walk(fe) if isinstance(n, ast.Assign) and ast.unparse(n.targets[0]) == "response['content']['encoding']"]
    if len(enc) != 1:
        raise Unsupported("expected one assignment to response['content']['encoding']")
    export_tag = _const_str(enc[0].value)
    # no-response branch: the dict literal with "_error"
    dicts = [n for n in ast.walk(fe) if isinstance(n, ast.Dict) and any(isinstance(k, ast.Constant) and k.value == "_error" for k in n.keys)]
    if len(dicts) != 1:
        raise Unsupported("no-response dict not found")
    d = {k.value: v for k, v in zip(dicts[0].keys, dicts[0].values)}
    if not (isinstance(d["status"], ast.Constant) and isinstance(d["status"].value, int) and d["status"].value >= 0):
        raise Unsupported("no-response status")
    if ast.unparse(d["headers"]) != "[]" or ast.unparse(d["content"]) != "{}":
        raise Unsupported("no-response headers/content are not empty literals")
    noresp_version = _const_str(d["httpVersion"])

    def table(t):
        return "[" + "; ".join(f"({_cbytes(a)}, {_cbytes(b)})" for a, b in t) + "]" if t else "(@nil (bytes * bytes))"
    out = ["(* GENERATED by harness/translators/har_tables.py from mitmproxy/io/har.py and mitmproxy/addons/savehar.py -- do not edit *)",
           "From Coq Require Import List NArith.", "From MV Require Import Base.Bytes.", "Import ListNotations.", "",
           f"Definition req_version_table : list (bytes * bytes) := {table(req_t)}.",
           f"Definition req_version_default : bytes := {_cbytes(req_d)}.",
           f"Definition resp_version_table : list (bytes * bytes) := {table(resp_t)}.",
           f"Definition resp_version_default : bytes := {_cbytes(resp_d)}.",
           f"Definition import_b64_tag : bytes := {_cbytes(import_tag)}.",
           f"Definition import_initial_version : bytes := {_cbytes(initial_version)}.",
           "Definition post_methods : list bytes := [" + "; ".join(_cbytes(m) for m in post) + "].",
           f"Definition connect_method : bytes := {_cbytes(conn[0])}.",
           f"Definition connect_url_prefix : list N := {_cstr(conn[1])}.",
           f"Definition connect_url_suffix : list N := {_cstr(conn[2])}.",
           f"Definition export_b64_tag : bytes := {_cbytes(export_tag)}.",
           f"Definition noresp_status : N := {d['status'].value}%N.",
           f"Definition noresp_version : bytes := {_cbytes(noresp_version)}.", ""]
    return "\n".join(out)
