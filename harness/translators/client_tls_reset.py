"""Fail-closed Python-ast -> Gallina translator for the TLS-over-TLS attribute reset of
ClientTLSLayer.__init__ (mitmproxy/proxy/layers/tls.py), used by C18.

Output: coq/Gen/ClientTlsReset.v
    Definition CLIENT_TLS_RESET : list (bytes * reset_val)   -- (attribute name, value it is reset to), source order

Understood shape of __init__(self, context):
    [docstring]
    if context.client.tls:                      # must be the first statement, no else
        context.client.ATTR = None | []         # any number of these, and/or
        for V in ("A", "B", ...):               # loops over a literal tuple/list of attribute names
            setattr(context.client, V, None | [])
    <rest>                                      # must not bind/assign/setattr/delete anything of context.client
`alpn` may only be reset to None and `alpn_offers` only to [] (anything else raises).  Every other node raises
Unsupported.  Comments/formatting do not influence the output; adding, removing or moving an attribute does.
"""
import ast
import os

OUT = "ClientTlsReset.v"
LAYER_TLS = "mitmproxy/proxy/layers/tls.py"
CLASS = "ClientTLSLayer"
KIND = {"alpn": "ResetNone", "alpn_offers": "ResetEmptyList"}


class Unsupported(Exception):
    pass


def bad(node, why):
    raise Unsupported(f"{why} (line {getattr(node, 'lineno', '?')}: {type(node).__name__})")


def coq_bytes(b: bytes) -> str:
    return "(@nil byte)" if not b else "[" + ";".join("x%02x" % c for c in b) + "]"


def is_client(e, ctxname):
    return (isinstance(e, ast.Attribute) and e.attr == "client" and isinstance(e.value, ast.Name)
            and e.value.id == ctxname)


def reset_value(e):
    if isinstance(e, ast.Constant) and e.value is None:
        return "ResetNone"
    if isinstance(e, ast.List) and not e.elts:
        return "ResetEmptyList"
    bad(e, "reset value other than None or []")


def translate(repo: str) -> str:
    tree = ast.parse(open(os.path.join(repo, LAYER_TLS), encoding="utf-8").read())
    classes = [n for n in ast.walk(tree) if isinstance(n, ast.ClassDef) and n.name == CLASS]
    if len(classes) != 1 or classes[0] not in tree.body:
        raise Unsupported(f"expected exactly one module-level class {CLASS}")
    inits = [s for s in classes[0].body if isinstance(s, ast.FunctionDef) and s.name == "__init__"]
    if len(inits) != 1:
        raise Unsupported(f"expected exactly one {CLASS}.__init__")
    fn = inits[0]
    a = fn.args
    if fn.decorator_list or a.vararg or a.kwarg or a.kwonlyargs or a.posonlyargs or a.defaults or len(a.args) != 2:
        bad(fn, "unexpected __init__ signature")
    ctxname = a.args[1].arg
    body = list(fn.body)
    if body and isinstance(body[0], ast.Expr) and isinstance(body[0].value, ast.Constant) \
            and isinstance(body[0].value.value, str):
        body = body[1:]
    if not body or not isinstance(body[0], ast.If):
        bad(fn, "first statement is not the TLS-over-TLS if")
    guard = body[0]
    t = guard.test
    if not (isinstance(t, ast.Attribute) and t.attr == "tls" and is_client(t.value, ctxname)) or guard.orelse:
        bad(guard, "guard is not `if context.client.tls:` without else")
    resets = []

    def add(name, val, node):
        if not (name.isidentifier() and name.isascii()):
            bad(node, "odd attribute name")
        if name in KIND and KIND[name] != val:
            bad(node, f"{name} reset to an unexpected kind of value")
        resets.append((name, val))

    for st in guard.body:
        if isinstance(st, ast.Pass) or (isinstance(st, ast.Expr) and isinstance(st.value, ast.Constant)
                                        and isinstance(st.value.value, str)):
            continue
        if isinstance(st, ast.Assign) and len(st.targets) == 1 and isinstance(st.targets[0], ast.Attribute) \
                and is_client(st.targets[0].value, ctxname):
            add(st.targets[0].attr, reset_value(st.value), st)
            continue
        if (isinstance(st, ast.For) and not st.orelse and isinstance(st.target, ast.Name)
                and isinstance(st.iter, (ast.Tuple, ast.List)) and len(st.body) == 1
                and isinstance(st.body[0], ast.Expr) and isinstance(st.body[0].value, ast.Call)):
            c = st.body[0].value
            if (isinstance(c.func, ast.Name) and c.func.id == "setattr" and len(c.args) == 3 and not c.keywords
                    and is_client(c.args[0], ctxname) and isinstance(c.args[1], ast.Name)
                    and c.args[1].id == st.target.id and st.target.id != ctxname):
                val = reset_value(c.args[2])
                for e in st.iter.elts:
                    if not (isinstance(e, ast.Constant) and type(e.value) is str):
                        bad(e, "loop over something else than attribute-name literals")
                    add(e.value, val, e)
                continue
        bad(st, "unsupported statement in the TLS-over-TLS reset block")
    # nothing else in __init__ may touch context.client (or rebind `context`)
    for st in body[1:]:
        for n in ast.walk(st):
            if isinstance(n, ast.Attribute) and not isinstance(n.ctx, ast.Load) and is_client(n.value, ctxname):
                bad(n, "context.client attribute written outside the reset block")
            if isinstance(n, ast.Name) and n.id == ctxname and not isinstance(n.ctx, ast.Load):
                bad(n, "context rebound")
            if isinstance(n, ast.Call) and isinstance(n.func, ast.Name) and n.func.id in ("setattr", "delattr"):
                bad(n, "setattr/delattr outside the reset block")
            if isinstance(n, (ast.Delete, ast.NamedExpr, ast.Lambda, ast.FunctionDef, ast.ClassDef)):
                bad(n, "unsupported construct after the reset block")
    out = ["(* GENERATED by harness/translators/client_tls_reset.py from ClientTLSLayer.__init__ in",
           "   mitmproxy/proxy/layers/tls.py (the block guarded by context.client.tls).  Do not edit. *)",
           "From Coq Require Import List.",
           "From MV Require Import Base.Bytes Model.AlpnPrelude.",
           "Import ListNotations.", "",
           "Definition CLIENT_TLS_RESET : list (bytes * reset_val) :="]
    if resets:
        rows = [f"  ({coq_bytes(n.encode())}, {v})  (* {n} *)" for n, v in resets]
        out.append("  [\n" + ";\n".join(rows) + "\n  ].")
    else:
        out.append("  [].")
    return "\n".join(out) + "\n"


if __name__ == "__main__":
    import sys
    sys.stdout.write(translate(sys.argv[1] if len(sys.argv) > 1 else "/repo"))
