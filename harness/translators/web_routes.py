"""Translator for C46: the route x method x wrapper table of the REAL mitmweb `Application`  ->  coq/Gen/WebRoutes.v.

Regenerated on every run by importing mitmproxy/tools/web/app.py from the checked tree, instantiating
`Application(WebMaster(...))` and introspecting tornado's routers (so routes tornado adds by itself, e.g. the
static file handlers, are in the table too).  Per rule, in matching order:
  * kind    : Mitm (handler class defined in a mitmproxy module) | Static (tornado.web.StaticFileHandler)
  * prepare : which `prepare` the class resolves to (RequestHandler.prepare = Sec-Fetch-Site rule,
              WebSocketEventBroadcaster.prepare, or tornado's no-op)
  * xsrf    : the class does not override tornado's check_xsrf_cookie
  * login   : the class overrides AuthRequestHandler.auth_fail (login form on 403)
  * methods : for every name in cls.SUPPORTED_METHODS: None if it is tornado's _unimplemented_method, else the
              number of nested `_require_auth` wrappers around the handler function (0 = not wrapped)
plus application settings (xsrf_cookies) and, from the AST of `RequestHandler.prepare` (matched by exact shape),
the safe-method tuple, the allowed Sec-Fetch-Site values and the status the raised exception produces
(tornado answers 500 for any exception that is not a tornado.web.HTTPError).
Fail closed: anything outside these shapes raises.
"""
from __future__ import annotations

import ast
import asyncio
import inspect
import os
import textwrap

OUT = "WebRoutes.v"

METHS = ["GET", "HEAD", "POST", "DELETE", "PATCH", "PUT", "OPTIONS"]


class Unsupported(Exception):
    pass


def load_app(repo: str):
    """Import the web app module from `repo` (fail closed if another copy is already imported)."""
    import mitmproxy.tools.web.app as app
    want = os.path.realpath(os.path.join(repo, "mitmproxy", "tools", "web", "app.py"))
    if os.path.realpath(app.__file__) != want:
        raise Unsupported(f"mitmproxy.tools.web.app imported from {app.__file__}, expected {want}")
    return app


def make_application(app, loop=None):
    """(master, Application) built exactly like mitmweb does (WebMaster registers WebAuth)."""
    from mitmproxy import options
    from mitmproxy.tools.web import master as webmaster

    async def mk():
        m = webmaster.WebMaster(options.Options(http2=False), with_termlog=False)
        return m, app.Application(m, False)

    if loop is None:
        loop = asyncio.new_event_loop()
        try:
            return loop.run_until_complete(mk())
        finally:
            loop.close()
    return loop.run_until_complete(mk())


def flatten_rules(application):
    """All (regex, handler class, kwargs) in tornado's matching order."""
    import tornado.routing
    out = []

    def walk(router):
        for r in router.rules:
            if isinstance(r.target, tornado.routing.Router):
                if not isinstance(r.matcher, tornado.routing.AnyMatches):
                    raise Unsupported(f"nested router behind {type(r.matcher).__name__}")
                walk(r.target)
            else:
                if not isinstance(r.matcher, tornado.routing.PathMatches):
                    raise Unsupported(f"rule matcher {type(r.matcher).__name__}")
                if not inspect.isclass(r.target):
                    raise Unsupported(f"rule target {r.target!r} is not a handler class")
                out.append((r.matcher.regex, r.target, r.target_kwargs))

    walk(application.default_router)
    return out


def wrapper_code(app):
    return app.AuthRequestHandler._require_auth(lambda self: None).__code__


def unwrap(app, fn):
    """(number of nested _require_auth wrappers, innermost function)."""
    wc = wrapper_code(app)
    n = 0
    while getattr(fn, "__code__", None) is wc:
        if not hasattr(fn, "__wrapped__"):
            raise Unsupported("wrapper without __wrapped__")
        fn = fn.__wrapped__
        n += 1
    return n, fn


def describe(app, cls):
    import tornado.web
    if cls is tornado.web.StaticFileHandler:
        kind = "Static"
    elif cls.__module__.startswith("mitmproxy."):
        kind = "Mitm"
    else:
        raise Unsupported(f"handler class {cls.__module__}.{cls.__qualname__} is neither mitmproxy's nor StaticFileHandler")
    prep = cls.prepare
    if prep is app.RequestHandler.prepare:
        prepare = "PrepSfs"
    elif prep is app.WebSocketEventBroadcaster.prepare:
        prepare = "PrepWs"
    elif prep is tornado.web.RequestHandler.prepare:
        prepare = "PrepNone"
    else:
        raise Unsupported(f"{cls.__name__}.prepare is {prep.__qualname__}")
    xsrf = cls.check_xsrf_cookie is tornado.web.RequestHandler.check_xsrf_cookie
    af = getattr(cls, "auth_fail", None)
    if af is None or af is app.AuthRequestHandler.auth_fail:
        login = False
    elif af is app.IndexHandler.auth_fail:
        login = True
    else:
        raise Unsupported(f"{cls.__name__}.auth_fail is {af.__qualname__}")
    if getattr(cls, "get_current_user") is not app.AuthRequestHandler.get_current_user and issubclass(cls, app.AuthRequestHandler):
        raise Unsupported(f"{cls.__name__} overrides get_current_user")
    methods = []
    for name in cls.SUPPORTED_METHODS:
        if name not in METHS:
            raise Unsupported(f"{cls.__name__}.SUPPORTED_METHODS contains {name!r}")
        fn = getattr(cls, name.lower())
        if fn is tornado.web.RequestHandler._unimplemented_method:
            methods.append((name, None))
        else:
            n, _inner = unwrap(app, fn)
            methods.append((name, n))
    return {"cls": cls.__name__, "kind": kind, "prepare": prepare, "xsrf": xsrf, "login": login, "methods": methods}


def introspect(app, application):
    return [dict(describe(app, cls), pattern=rx.pattern) for rx, cls, _kw in flatten_rules(application)]


# ------------------------------------------------------------------ RequestHandler.prepare (AST, exact shape)

def prepare_constants(app):
    src = textwrap.dedent(inspect.getsource(app.RequestHandler.prepare))
    fn = ast.parse(src).body[0]
    body = [s for s in fn.body if not (isinstance(s, ast.Expr) and isinstance(s.value, ast.Constant))]
    if len(body) != 1 or not isinstance(body[0], ast.If) or body[0].orelse:
        raise Unsupported("RequestHandler.prepare: expected a single if statement")
    test = body[0].test
    if not (isinstance(test, ast.BoolOp) and isinstance(test.op, ast.And) and len(test.values) == 3):
        raise Unsupported("RequestHandler.prepare: expected a three-way conjunction")
    a, b, c = test.values

    def attr_chain(e):
        parts = []
        while isinstance(e, ast.Attribute):
            parts.append(e.attr)
            e = e.value
        if not isinstance(e, ast.Name):
            raise Unsupported("not a dotted name: " + ast.dump(e)[:80])
        return [e.id] + parts[::-1]

    def str_tuple(e):
        if not (isinstance(e, ast.Tuple) and all(isinstance(x, ast.Constant) and isinstance(x.value, str) for x in e.elts)):
            raise Unsupported("expected a tuple of string literals: " + ast.dump(e)[:80])
        return [x.value for x in e.elts]

    def is_hdrs(e):
        return attr_chain(e) == ["self", "request", "headers"]

    # self.request.method not in (...)
    if not (isinstance(a, ast.Compare) and len(a.ops) == 1 and isinstance(a.ops[0], ast.NotIn)
            and attr_chain(a.left) == ["self", "request", "method"]):
        raise Unsupported("prepare: first conjunct")
    safe = str_tuple(a.comparators[0])
    # "Sec-Fetch-Site" in self.request.headers
    if not (isinstance(b, ast.Compare) and len(b.ops) == 1 and isinstance(b.ops[0], ast.In)
            and isinstance(b.left, ast.Constant) and b.left.value == "Sec-Fetch-Site" and is_hdrs(b.comparators[0])):
        raise Unsupported("prepare: second conjunct")
    # self.request.headers["Sec-Fetch-Site"] not in (...)
    if not (isinstance(c, ast.Compare) and len(c.ops) == 1 and isinstance(c.ops[0], ast.NotIn)
            and isinstance(c.left, ast.Subscript) and is_hdrs(c.left.value)
            and isinstance(c.left.slice, ast.Constant) and c.left.slice.value == "Sec-Fetch-Site"):
        raise Unsupported("prepare: third conjunct")
    allowed = str_tuple(c.comparators[0])
    # raise X(403)
    st = body[0].body
    if not (len(st) == 1 and isinstance(st[0], ast.Raise) and isinstance(st[0].exc, ast.Call) and not st[0].exc.keywords
            and len(st[0].exc.args) >= 1 and isinstance(st[0].exc.args[0], ast.Constant) and isinstance(st[0].exc.args[0].value, int)):
        raise Unsupported("prepare: expected `raise <Class>(<int>, ...)`")
    chain = attr_chain(st[0].exc.func)
    obj = vars(app).get(chain[0])
    if obj is None:
        raise Unsupported(f"prepare: name {chain[0]} not bound in app module")
    for p in chain[1:]:
        obj = getattr(obj, p)
    import tornado.web
    if not (inspect.isclass(obj) and issubclass(obj, BaseException)):
        raise Unsupported("prepare: raised object is not an exception class")
    # tornado.web.RequestHandler._handle_request_exception: HTTPError -> its status, anything else -> 500
    status = st[0].exc.args[0].value if issubclass(obj, tornado.web.HTTPError) else 500
    for m in safe:
        if m not in METHS:
            raise Unsupported(f"prepare: unknown method {m!r}")
    return safe, allowed, status


def coq_bytes(s: str) -> str:
    b = s.encode("ascii")
    return "(@nil byte)" if not b else "[" + ";".join("x%02x" % c for c in b) + "]"


def render(table, xsrf_cookies, safe, allowed, status) -> str:
    L = ["(* GENERATED by harness/translators/web_routes.py from the running mitmweb Application -- do not edit *)",
         "From Coq Require Import List NArith.",
         "From MV Require Import Base.Bytes Model.WebAuth.",
         "Import ListNotations.",
         ""]
    L.append("Definition routes : list route := [")
    rows = []
    for i, r in enumerate(table):
        ms = "; ".join(f"({m}, {'None' if n is None else f'Some {n}%nat'})" for m, n in r["methods"])
        rows.append(f"  (* {i}: {r['cls']} *)\n"
                    f"  Build_route {r['kind']} {r['prepare']} {'true' if r['xsrf'] else 'false'} {'true' if r['login'] else 'false'}\n"
                    f"    [{ms}]")
    L.append(";\n".join(rows))
    L.append("].")
    L.append("")
    L.append(f"Definition mitmweb : app := Build_app routes {'true' if xsrf_cookies else 'false'}")
    L.append(f"  [{'; '.join(safe)}]")
    L.append(f"  [{'; '.join(coq_bytes(a) for a in allowed)}]")
    L.append(f"  {status}%N.")
    L.append("")
    return "\n".join(L)


def translate(repo: str) -> str:
    app = load_app(repo)
    _master, application = make_application(app)
    table = introspect(app, application)
    safe, allowed, status = prepare_constants(app)
    return render(table, bool(application.settings.get("xsrf_cookies")), safe, allowed, status)
