"""Translator for C30: the QUIC stream-id arithmetic, Python `ast` -> Gallina (coq/Gen/QuicIds.v).

Sources:  RawQuicLayer.get_next_available_stream_id and the literal `self.next_stream_id = [...]`
in RawQuicLayer.__init__ (mitmproxy/proxy/layers/quic/_raw_layers.py), and the two helpers
stream_is_client_initiated / stream_is_unidirectional that _raw_layers imports from
aioquic.quic.connection (the installed package).  Ints are N (stream ids are non-negative varints).
Subset: `&`, `|`, `<<`, `+` on ints, `not`, `int(bool)`, `bool(int)`, names, small int literals,
`self.next_stream_id[i]` read / write, `return`.  Anything else raises (fail closed)."""
import ast
import importlib.util
import os

OUT = "QuicIds.v"
RAW = os.path.join("mitmproxy", "proxy", "layers", "quic", "_raw_layers.py")
AIOQUIC_MOD = "aioquic.quic.connection"
HELPERS = ["stream_is_client_initiated", "stream_is_unidirectional"]


class Unsupported(ValueError):
    pass


def ann_type(a):
    if isinstance(a, ast.Name) and a.id in ("int", "bool"):
        return a.id
    raise Unsupported("parameter annotation must be int or bool: " + (ast.unparse(a) if a else "<none>"))


def expr(e, env):
    """-> (coq text, 'int'|'bool')"""
    if isinstance(e, ast.Constant):
        if type(e.value) is int and 0 <= e.value < 2 ** 62:
            return f"{e.value}", "int"
        raise Unsupported("constant " + repr(e.value))
    if isinstance(e, ast.Name):
        if e.id in env:
            return e.id, env[e.id]
        raise Unsupported("unknown name " + e.id)
    if isinstance(e, ast.BinOp):
        a, ta = expr(e.left, env)
        b, tb = expr(e.right, env)
        if ta != "int" or tb != "int":
            raise Unsupported("binary operator on non-int: " + ast.unparse(e))
        op = {ast.BitAnd: "N.land", ast.BitOr: "N.lor", ast.LShift: "N.shiftl", ast.Add: "N.add"}.get(type(e.op))
        if op is None:
            raise Unsupported("operator " + type(e.op).__name__)
        return f"({op} {a} {b})", "int"
    if isinstance(e, ast.UnaryOp) and isinstance(e.op, ast.Not):
        a, ta = expr(e.operand, env)
        return (f"(negb {a})" if ta == "bool" else f"(negb (py_truthy {a}))"), "bool"
    if isinstance(e, ast.Call) and isinstance(e.func, ast.Name) and len(e.args) == 1 and not e.keywords:
        a, ta = expr(e.args[0], env)
        if e.func.id == "int" and "int" not in env:
            return (f"(py_int {a})" if ta == "bool" else a), "int"
        if e.func.id == "bool" and "bool" not in env:
            return (f"(py_truthy {a})" if ta == "int" else a), "bool"
    raise Unsupported("expression " + ast.unparse(e))


def body_without_doc(fn):
    b = fn.body
    if b and isinstance(b[0], ast.Expr) and isinstance(b[0].value, ast.Constant) and isinstance(b[0].value.value, str):
        b = b[1:]
    return b


def plain_args(fn, skip_self):
    a = fn.args
    if a.vararg or a.kwarg or a.kwonlyargs or a.posonlyargs:
        raise Unsupported("unsupported parameter kinds in " + fn.name)
    args = a.args[1:] if skip_self else a.args
    if skip_self and (not a.args or a.args[0].arg != "self"):
        raise Unsupported("method without self")
    for d in a.defaults:
        if not (isinstance(d, ast.Constant) and type(d.value) is bool):
            raise Unsupported("default value " + ast.unparse(d))
    if fn.decorator_list:
        raise Unsupported("decorated function " + fn.name)
    return [(x.arg, ann_type(x.annotation)) for x in args]


def helper(fn):
    params = plain_args(fn, False)
    if len(params) != 1 or params[0][1] != "int":
        raise Unsupported(fn.name + " must take one int")
    b = body_without_doc(fn)
    if len(b) != 1 or not isinstance(b[0], ast.Return) or b[0].value is None:
        raise Unsupported(fn.name + " body must be a single return")
    if not (isinstance(fn.returns, ast.Name) and fn.returns.id == "bool"):
        raise Unsupported(fn.name + " must return bool")
    t, ty = expr(b[0].value, dict(params))
    if ty != "bool":
        raise Unsupported(fn.name + " returns a non-bool")
    return f"Definition {fn.name} ({params[0][0]} : N) : bool :=\n  {t}.\n"


def is_counter(e):
    return (isinstance(e, ast.Subscript) and isinstance(e.value, ast.Attribute) and e.value.attr == "next_stream_id"
            and isinstance(e.value.value, ast.Name) and e.value.value.id == "self")


def allocator(fn):
    params = plain_args(fn, True)
    if [p for p, _ in params] != ["is_client", "is_unidirectional"] or any(t != "bool" for _, t in params):
        raise Unsupported("get_next_available_stream_id signature changed")
    env = dict(params)
    lines = []
    closes = 0
    ret = None
    for st in body_without_doc(fn):
        if ret is not None:
            raise Unsupported("statement after return")
        if isinstance(st, ast.Assign) and len(st.targets) == 1 and isinstance(st.targets[0], ast.Name):
            name = st.targets[0].id
            if name in ("next_stream_id", "self") or name in env:
                raise Unsupported("re-assignment of " + name)
            if is_counter(st.value):
                i, ti = expr(st.value.slice, env)
                if ti != "int":
                    raise Unsupported("index type")
                lines.append(f"  match py_getitem next_stream_id {i} with None => None | Some {name} =>")
                closes += 1
            else:
                v, tv = expr(st.value, env)
                if tv != "int":
                    raise Unsupported("only int locals")
                lines.append(f"  let {name} : N := {v} in")
            env[name] = "int"
        elif isinstance(st, ast.Assign) and len(st.targets) == 1 and is_counter(st.targets[0]):
            i, ti = expr(st.targets[0].slice, env)
            v, tv = expr(st.value, env)
            if ti != "int" or tv != "int":
                raise Unsupported("counter update types")
            lines.append(f"  match py_setitem next_stream_id {i} {v} with None => None | Some next_stream_id =>")
            closes += 1
        elif isinstance(st, ast.Return) and st.value is not None:
            v, tv = expr(st.value, env)
            if tv != "int":
                raise Unsupported("return type")
            ret = v
        else:
            raise Unsupported("statement " + ast.unparse(st))
    if ret is None:
        raise Unsupported("no return")
    lines.append(f"  Some ({ret}, next_stream_id)" + " end" * closes + ".")
    return ("Definition get_next_available_stream_id (next_stream_id : list N) (is_client is_unidirectional : bool)\n"
            "  : option (N * list N) :=\n" + "\n".join(lines) + "\n")


def translate(repo: str) -> str:
    tree = ast.parse(open(os.path.join(repo, RAW)).read())
    imported = set()
    for n in tree.body:
        if isinstance(n, ast.ImportFrom) and n.module == AIOQUIC_MOD:
            imported |= {a.name for a in n.names if a.asname is None}
    for h in HELPERS:
        if h not in imported:
            raise Unsupported(f"{h} is not imported from {AIOQUIC_MOD}")
        if sum(1 for n in ast.walk(tree) if isinstance(n, (ast.FunctionDef, ast.Assign)) and
               (getattr(n, "name", None) == h or any(isinstance(t, ast.Name) and t.id == h for t in getattr(n, "targets", [])))):
            raise Unsupported(f"{h} is redefined in _raw_layers.py")
    cls = [n for n in tree.body if isinstance(n, ast.ClassDef) and n.name == "RawQuicLayer"]
    if len(cls) != 1:
        raise Unsupported("class RawQuicLayer not found exactly once")
    fns = {n.name: n for n in cls[0].body if isinstance(n, ast.FunctionDef)}
    if "get_next_available_stream_id" not in fns or "__init__" not in fns:
        raise Unsupported("RawQuicLayer methods missing")
    inits = [n for n in ast.walk(fns["__init__"]) if isinstance(n, ast.Assign) and len(n.targets) == 1
             and ast.unparse(n.targets[0]) == "self.next_stream_id"]
    if len(inits) != 1 or not isinstance(inits[0].value, ast.List):
        raise Unsupported("self.next_stream_id initialiser")
    init = [expr(e, {})[0] for e in inits[0].value.elts]
    # every other write to the counters anywhere in the class must be the one in the allocator
    writes = [n for n in ast.walk(cls[0]) if isinstance(n, (ast.Assign, ast.AugAssign, ast.Delete)) and
              "next_stream_id" in ast.unparse(n.targets[0] if isinstance(n, (ast.Assign, ast.Delete)) else n.target)]
    if len(writes) != 2:
        raise Unsupported("unexpected writes to next_stream_id: " + "; ".join(ast.unparse(w) for w in writes))
    spec = importlib.util.find_spec(AIOQUIC_MOD)
    if spec is None or not spec.origin:
        raise Unsupported("aioquic not installed")
    atree = ast.parse(open(spec.origin).read())
    out = ["(* GENERATED by harness/translators/quic_ids.py from RawQuicLayer (mitmproxy/proxy/layers/quic/_raw_layers.py)",
           "   and aioquic.quic.connection (stream_is_client_initiated, stream_is_unidirectional).",
           "   Do not edit: regenerated on every run of the check. *)",
           "From Coq Require Import NArith List Bool.",
           "From MV Require Import Model.QuicIdsPrelude.",
           "Import ListNotations.",
           "Open Scope N_scope.", ""]
    for h in HELPERS:
        defs = [n for n in atree.body if isinstance(n, ast.FunctionDef) and n.name == h]
        if len(defs) != 1:
            raise Unsupported(h + " not defined exactly once in aioquic")
        out.append(helper(defs[0]))
    out.append("Definition NEXT_STREAM_ID_INIT : list N := [" + "; ".join(init) + "].\n")
    out.append(allocator(fns["get_next_available_stream_id"]))
    return "\n".join(out)
