"""Python-ast -> Gallina: the echo-path table of mitmproxy/addons/dumper.py.

For every `self.echo(...)` call of class Dumper the translator computes, by abstract interpretation of the
enclosing method (assignments, if/else joins, loops, f-strings, +, str.format, str.join, helper methods inlined
by their return values), the expression that reaches the output stream as a term of Model.Dumper.sexp:

    Lit text | Num name (integers, enum names, fixed tables) | Raw name (anything read from the flow: attacker data)
    EscB name (strutils.bytes_to_escaped_str) | Esc e (strutils.escape_control_characters) | Sty e (Dumper.style)
    Ind e (indent) | Sub e (slice / highlighter chunk / cut_after_n_lines) | Cat | Alt (either branch) | Rep sep e

Every expression that is not on the whitelist below is Raw, i.e. treated as attacker-controlled; every syntactic
form that is not handled raises (fail closed).  It also checks the shape of Dumper.echo / Dumper.style / indent,
that nothing else writes to self.outfp, that contentviews.prettify_message filters every non-literal result, and
extracts the translation table of strutils.escape_control_characters."""
import ast
import os
import string

OUT = "DumperPaths.v"


class Unsupported(Exception):
    pass


# expressions (by exact source text) whose value is an integer, an enum member name or an entry of a fixed table
NUM_EXPR = {
    "flow.response.status_code", "f.websocket.close_code", "websocket.close_code", "message.type.name.lower()",
    "f.type", "f.type.upper()", "CloseReason(websocket.close_code).name",
    "dns.op_codes.to_str(f.request.op_code)", "dns.types.to_str(f.request.questions[0].type)",
    "response_codes.to_str(f.response.response_code)", "human.pretty_size(len(flow.response.raw_content))",
    "http.status_codes.RESPONSES.get(flow.response.status_code, '')", "shutil.get_terminal_size()[0]",
    "pretty.syntax_highlight", "ctx.options.content_view_lines_cutoff", "ctx.options.dumper_default_contentview",
}
NUM_FUNCS = {"len", "max", "min", "int"}
SKIP_METHODS = {"__init__", "load", "configure", "match", "style", "echo"}
EXPECT_STYLE = "if style and self.out_has_vt_codes:\n    text = miniclick.style(text, **style)\nreturn text"
EXPECT_ECHO = "if ident:\n    text = indent(ident, text)\ntext = self.style(text, **style)\nprint(text, file=self.outfp)"
EXPECT_INDENT = "lines = str(text).strip().splitlines()\npad = ' ' * n\nreturn '\\n'.join((pad + i for i in lines))"


def _body_src(fn):
    return "\n".join(ast.unparse(s) for s in fn.body if not (isinstance(s, ast.Expr) and isinstance(s.value, ast.Constant)))


def cat(parts):
    parts = [p for p in parts if p != ("Empty",)]
    if not parts:
        return ("Empty",)
    out = parts[-1]
    for p in reversed(parts[:-1]):
        out = ("Cat", p, out)
    return out


def alt(a, b):
    return a if a == b else ("Alt", a, b)


def is_safe(e):
    """no attacker data at all (used for style keyword arguments and repeat counts)"""
    k = e[0]
    if k in ("Lit", "Num", "Empty"):
        return True
    if k in ("Cat", "Alt"):
        return is_safe(e[1]) and is_safe(e[2])
    return False


class Method:
    def __init__(self, cls, fn):
        self.cls, self.fn, self.sites, self.returns = cls, fn, [], []

    # ---- expressions
    def ev(self, x, env):
        src = ast.unparse(x)
        if src in NUM_EXPR:
            return ("Num", src)
        if isinstance(x, ast.Constant):
            if isinstance(x.value, str):
                return ("Lit", x.value) if x.value else ("Empty",)
            if x.value is None or isinstance(x.value, (int, bool)):
                return ("Num", src)
            raise Unsupported(f"constant {src}")
        if isinstance(x, ast.JoinedStr):
            parts = []
            for v in x.values:
                if isinstance(v, ast.Constant):
                    parts.append(self.ev(v, env))
                elif isinstance(v, ast.FormattedValue) and v.conversion == -1 and v.format_spec is None:
                    parts.append(self.ev(v.value, env))
                else:
                    raise Unsupported(f"f-string part {ast.dump(v)}")
            return cat(parts)
        if isinstance(x, ast.Name):
            if x.id in env:
                return env[x.id]
            raise Unsupported(f"unbound name {x.id} in {self.fn.name}")
        if isinstance(x, ast.IfExp):
            return alt(self.ev(x.body, env), self.ev(x.orelse, env))
        if isinstance(x, (ast.Compare, ast.BoolOp)) or (isinstance(x, ast.UnaryOp) and isinstance(x.op, ast.Not)):
            return ("Num", src)
        if isinstance(x, ast.BinOp):
            a, b = self.ev(x.left, env), self.ev(x.right, env)
            if isinstance(x.op, ast.Add):
                if a[0] == "Num" and b[0] == "Num":
                    return ("Num", src)
                return cat([a, b])
            if isinstance(x.op, ast.Mult) and a[0] == "Lit" and is_safe(b):
                return ("Rep", "", a)
            if isinstance(x.op, ast.Sub) and is_safe(a) and is_safe(b):
                return ("Num", src)
            raise Unsupported(f"operator in {src}")
        if isinstance(x, ast.Subscript):
            if isinstance(x.slice, ast.Slice):
                return ("Sub", self.ev(x.value, env))
            return self.raw(x, env)
        if isinstance(x, ast.Attribute):
            if isinstance(x.value, ast.Name) and env.get(x.value.id) == ("PrettyObj",):
                if x.attr == "text":
                    return self.cls.pretty_text
                raise Unsupported(f"attribute {src} of the prettify_message result")
            return self.raw(x, env)
        if isinstance(x, ast.Dict):
            if all(isinstance(v, ast.Constant) for v in x.values):
                return ("Num", src)
            raise Unsupported(f"dict display {src}")
        if isinstance(x, ast.Call):
            return self.call(x, env, src)
        raise Unsupported(f"expression {ast.dump(x)}")

    def raw(self, x, env):
        """an attribute / index chain: attacker data unless it hangs off a local that is itself clean"""
        base = x
        while isinstance(base, (ast.Attribute, ast.Subscript, ast.Call)):
            base = base.func if isinstance(base, ast.Call) else base.value
        if not isinstance(base, ast.Name):
            raise Unsupported(f"chain {ast.unparse(x)}")
        if base.id in env or base.id in self.cls.modules or base.id == "self":
            return ("Raw", ast.unparse(x))
        raise Unsupported(f"unbound name {base.id} in {ast.unparse(x)}")

    def kwargs_safe(self, kws, env, what):
        for kw in kws:
            if kw.arg is None:
                if ast.unparse(kw.value) == "CONTENTVIEW_STYLES.get(tag, {})" and env.get("tag") == ("Num", "highlight tag"):
                    continue  # CONTENTVIEW_STYLES is checked to hold constants only
                raise Unsupported(f"**kwargs in {what}")
            if not is_safe(self.ev(kw.value, env)):
                raise Unsupported(f"style argument {kw.arg}={ast.unparse(kw.value)} of {what} is not a constant")

    def call(self, x, env, src):
        fn = ast.unparse(x.func)
        args = x.args
        if fn == "self.style":
            if len(args) != 1:
                raise Unsupported(src)
            self.kwargs_safe(x.keywords, env, src)
            e = self.ev(args[0], env)
            return ("Sty", e) if x.keywords else e
        if fn == "strutils.escape_control_characters":
            if len(args) != 1 or x.keywords:
                raise Unsupported(f"{src}: only the one-argument form (keep_spacing=True) is modelled")
            return ("Esc", self.ev(args[0], env))
        if fn == "strutils.bytes_to_escaped_str":
            e = self.ev(args[0], env) if len(args) == 1 and not x.keywords else None
            if not e or e[0] != "Raw":
                raise Unsupported(src)
            return ("EscB", e[1])
        if fn == "strutils.cut_after_n_lines" and len(args) == 2:
            return ("Sub", self.ev(args[0], env))
        if fn == "str" and len(args) == 1 and not x.keywords:
            e = self.ev(args[0], env)
            return e if e[0] in ("Num", "Raw") else ("Raw", src)
        if fn in NUM_FUNCS:
            return ("Num", src)
        if fn == "flow.Error" and len(args) == 1 and not x.keywords:
            return self.ev(args[0], env)  # Error.__str__ returns msg
        if fn == "contentviews.prettify_message":
            return ("PrettyObj",)
        if fn == "mitmproxy_rs.syntax_highlight.highlight" and len(args) == 2:
            return ("HlChunks", self.ev(args[0], env))
        if fn in ("self._fmt_client", "self.format_websocket_error") and len(args) == 1:
            return self.cls.summary(fn.split(".")[1])
        if isinstance(x.func, ast.Attribute) and x.func.attr == "join" and isinstance(x.func.value, ast.Constant) \
                and isinstance(x.func.value.value, str) and len(args) == 1 and isinstance(args[0], ast.GeneratorExp):
            g = args[0]
            if len(g.generators) != 1 or g.generators[0].ifs or g.generators[0].is_async:
                raise Unsupported(src)
            env2 = dict(env)
            self.bind_loop(g.generators[0].target, g.generators[0].iter, env, env2)
            return ("Rep", x.func.value.value, self.ev(g.elt, env2))
        if isinstance(x.func, ast.Attribute) and x.func.attr == "format" and isinstance(x.func.value, ast.Constant) \
                and isinstance(x.func.value.value, str) and not args:
            kw = {k.arg: k.value for k in x.keywords}
            parts = []
            for lit, field, spec, conv in string.Formatter().parse(x.func.value.value):
                if lit:
                    parts.append(("Lit", lit))
                if field is not None:
                    if field not in kw or spec or conv:
                        raise Unsupported(src)
                    parts.append(self.ev(kw[field], env))
            return cat(parts)
        if isinstance(x.func, ast.Attribute) and x.func.attr == "get" and isinstance(x.func.value, (ast.Dict, ast.Call)):
            d = x.func.value
            vals = d.values if isinstance(d, ast.Dict) else [k.value for k in d.keywords]
            if (isinstance(d, ast.Dict) or ast.unparse(d.func) == "dict") and all(isinstance(v, ast.Constant) for v in vals) \
                    and all(isinstance(a, ast.Constant) for a in args[1:]):
                return ("Num", src)
            raise Unsupported(src)
        if isinstance(x.func, ast.Attribute):
            return self.raw(x, env)  # any other method call on flow data, e.g. human.format_address(...), metadata.get
        raise Unsupported(f"call {src}")

    def bind_loop(self, target, it, env, env2):
        itv = self.ev(it, env)
        names = [target] if isinstance(target, ast.Name) else list(target.elts) if isinstance(target, ast.Tuple) else None
        if not names or not all(isinstance(n, ast.Name) for n in names):
            raise Unsupported(f"loop target {ast.unparse(target)}")
        if itv[0] == "HlChunks":
            if len(names) != 2:
                raise Unsupported("highlight chunks must be unpacked as (tag, chunk)")
            env2[names[0].id] = ("Num", "highlight tag")
            env2[names[1].id] = ("Sub", itv[1])
        elif itv[0] == "Raw":
            for n in names:
                env2[n.id] = ("Raw", f"{n.id} in {itv[1]}")
        else:
            raise Unsupported(f"loop over {ast.unparse(it)}")

    # ---- statements
    def run(self, stmts, env):
        for s in stmts:
            if env is None:  # after a return: unreachable
                break
            env = self.stmt(s, env)
        return env

    def merge(self, a, b):
        if a is None or b is None:  # one path returned
            return b if a is None else a
        out = {}
        for k in set(a) | set(b):
            if k in a and k in b:
                out[k] = alt(a[k], b[k])
            # a name bound on one path only is unusable afterwards (unbound name -> raise on use)
        return out

    def stmt(self, s, env):
        if isinstance(s, ast.Expr) and isinstance(s.value, ast.Constant):
            return env
        if isinstance(s, (ast.Assert, ast.Pass)):
            return env
        if isinstance(s, ast.Assign) and len(s.targets) == 1 and isinstance(s.targets[0], ast.Name):
            env = dict(env)
            env[s.targets[0].id] = self.ev(s.value, env)
            return env
        if isinstance(s, ast.AugAssign) and isinstance(s.op, ast.Add) and isinstance(s.target, ast.Name):
            env = dict(env)
            env[s.target.id] = cat([self.ev(s.target, env), self.ev(s.value, env)])
            return env
        if isinstance(s, ast.If):
            return self.merge(self.run(s.body, dict(env)), self.run(s.orelse, dict(env)))
        if isinstance(s, ast.For) and not s.orelse:
            env2 = dict(env)
            self.bind_loop(s.target, s.iter, env, env2)
            self.run(s.body, env2)
            return env
        if isinstance(s, ast.Try) and not s.orelse and not s.finalbody:
            out = self.run(s.body, dict(env))
            for h in s.handlers:
                out = self.merge(out, self.run(h.body, dict(env)))
            return out
        if isinstance(s, ast.Return):
            self.returns.append(("Empty",) if s.value is None else self.ev(s.value, env))
            return None  # nothing after a return is reachable on this path
        if isinstance(s, ast.Expr) and isinstance(s.value, ast.Call):
            c = s.value
            fn = ast.unparse(c.func)
            if fn == "self.echo":
                if len(c.args) != 1:
                    raise Unsupported(ast.unparse(c))
                e = self.ev(c.args[0], env)
                kws = [k for k in c.keywords if k.arg != "ident"]
                self.kwargs_safe(c.keywords, env, ast.unparse(c))
                if len(kws) != len(c.keywords):
                    e = ("Ind", e)
                if kws:
                    e = ("Sty", e)
                self.sites.append((f"{self.fn.name}.{len(self.sites)}", e))
                return env
            if fn == "self.outfp.flush" and not c.args:
                return env
            if fn.startswith("self.") and fn[5:] in self.cls.methods:
                for a in c.args:
                    self.ev(a, env)  # must be well-formed; the callee is analysed with Raw parameters
                return env
        raise Unsupported(f"statement in {self.fn.name}: {ast.unparse(s)[:80]}")

    def analyse(self):
        a = self.fn.args
        if a.vararg or a.kwarg or a.kwonlyargs or a.posonlyargs:
            raise Unsupported(f"signature of {self.fn.name}")
        env = {p.arg: ("Raw", p.arg) for p in a.args if p.arg != "self"}
        self.run(self.fn.body, env)
        return self


class DumperClass:
    def __init__(self, repo):
        mod = ast.parse(open(os.path.join(repo, "mitmproxy/addons/dumper.py")).read())
        ind = [n for n in mod.body if isinstance(n, ast.FunctionDef) and n.name == "indent"]
        if len(ind) != 1 or _body_src(ind[0]) != EXPECT_INDENT:
            raise Unsupported("indent() is not as modelled")
        cls = [n for n in mod.body if isinstance(n, ast.ClassDef) and n.name == "Dumper"]
        if len(cls) != 1:
            raise Unsupported("class Dumper not found")
        for n in ast.walk(mod):
            if isinstance(n, ast.Call) and ast.unparse(n.func) in ("print", "sys.stdout.write", "self.outfp.write"):
                if ast.unparse(n) != "print(text, file=self.outfp)":
                    raise Unsupported(f"unexpected write: {ast.unparse(n)}")
        self.modules = set()
        for n in mod.body:
            if isinstance(n, (ast.Import, ast.ImportFrom)):
                self.modules |= {(a.asname or a.name).split(".")[0] for a in n.names}
        cvs = [n for n in mod.body if isinstance(n, ast.AnnAssign) and ast.unparse(n.target) == "CONTENTVIEW_STYLES"]
        if len(cvs) != 1 or not isinstance(cvs[0].value, ast.Dict) or not all(
                isinstance(v, ast.Call) and ast.unparse(v.func) == "dict" and not v.args
                and all(isinstance(k.value, ast.Constant) for k in v.keywords) for v in cvs[0].value.values):
            raise Unsupported("CONTENTVIEW_STYLES is not a table of constant styles")
        self.methods = {n.name: n for n in cls[0].body if isinstance(n, ast.FunctionDef)}
        if len(self.methods) != len([n for n in cls[0].body if not (isinstance(n, ast.Expr) and isinstance(n.value, ast.Constant))]):
            raise Unsupported("class Dumper contains something other than plain methods")
        if _body_src(self.methods["style"]) != EXPECT_STYLE or _body_src(self.methods["echo"]) != EXPECT_ECHO:
            raise Unsupported("Dumper.style / Dumper.echo are not as modelled")
        for name, fn in self.methods.items():
            uses = [ast.unparse(n) for n in ast.walk(fn) if isinstance(n, ast.Attribute) and ast.unparse(n) == "self.outfp"]
            if uses and name not in ("__init__", "echo", "echo_flow"):
                raise Unsupported(f"{name} touches self.outfp")
        self.pretty_text = prettify_text(repo)
        self._summ = {}
        self.analysed = {n: Method(self, f).analyse() for n, f in self.methods.items() if n not in SKIP_METHODS}

    def summary(self, name):
        if name not in self._summ:
            m = Method(self, self.methods[name]).analyse()
            if m.sites or not m.returns:
                raise Unsupported(f"helper {name} echoes or returns nothing")
            out = m.returns[-1]
            for r in reversed(m.returns[:-1]):
                out = alt(r, out)
            self._summ[name] = out
        return self._summ[name]

    def paths(self):
        out = []
        for n, m in self.analysed.items():
            out += m.sites
        return out


def prettify_text(repo):
    """contentviews.prettify_message: every return is a ContentviewResult with a literal text, or `ret` directly
    after `ret.text = strutils.escape_control_characters(ret.text)`."""
    mod = ast.parse(open(os.path.join(repo, "mitmproxy/contentviews/__init__.py")).read())
    fn = [n for n in mod.body if isinstance(n, ast.FunctionDef) and n.name == "prettify_message"]
    if len(fn) != 1:
        raise Unsupported("prettify_message not found")
    lits, filtered = [], False
    for n in ast.walk(fn[0]):
        if isinstance(n, ast.Return):
            v = n.value
            if isinstance(v, ast.Call) and ast.unparse(v.func) == "ContentviewResult":
                t = [k.value for k in v.keywords if k.arg == "text"]
                if len(t) != 1 or not isinstance(t[0], ast.Constant) or not isinstance(t[0].value, str):
                    raise Unsupported("prettify_message returns an unfiltered non-literal text")
                lits.append(("Lit", t[0].value))
            elif isinstance(v, ast.Name) and v.id == "ret":
                body = fn[0].body
                if n is not body[-1] or ast.unparse(body[-2]) != "ret.text = strutils.escape_control_characters(ret.text)":
                    raise Unsupported("prettify_message: `return ret` is not directly preceded by the control-character filter")
                filtered = True
            else:
                raise Unsupported(f"prettify_message: {ast.unparse(n)}")
    if not filtered:
        raise Unsupported("prettify_message has no filtered return")
    out = ("Esc", ("Raw", "content view output"))
    for l in lits:
        out = alt(l, out)
    return out


def cc_table(repo):
    """The translation tables of strutils.escape_control_characters, by interpreting exactly the statements that
    build them."""
    mod = ast.parse(open(os.path.join(repo, "mitmproxy/utils/strutils.py")).read())
    tbl, tbl_nl, seen_copy, frozen = None, None, False, 0
    for s in mod.body:
        src = ast.unparse(s)
        if "_control_char_trans" not in src or isinstance(s, ast.FunctionDef):
            continue
        if src == "_control_char_trans = {x: ord('.') for x in range(32)}":
            tbl = list(range(32))
        elif src == "_control_char_trans[127] = ord('.')" and tbl is not None and not seen_copy:
            tbl.append(127)
        elif isinstance(s, ast.For) and tbl is not None and not seen_copy and ast.unparse(s.target) == "x" \
                and isinstance(s.iter, ast.Call) and ast.unparse(s.iter.func) == "range" and len(s.iter.args) == 2 \
                and all(isinstance(a, ast.Constant) and isinstance(a.value, int) for a in s.iter.args) \
                and [ast.unparse(b) for b in s.body] == ["_control_char_trans[x] = ord('.')"]:
            tbl += list(range(s.iter.args[0].value, s.iter.args[1].value))
        elif src == "_control_char_trans_newline = _control_char_trans.copy()" and tbl is not None:
            tbl_nl, seen_copy = list(tbl), True
        elif src == "for x in ('\\r', '\\n', '\\t'):\n    del _control_char_trans_newline[ord(x)]" and seen_copy:
            for c in (13, 10, 9):
                tbl_nl.remove(c)
        elif src in ("_control_char_trans = str.maketrans(_control_char_trans)",
                     "_control_char_trans_newline = str.maketrans(_control_char_trans_newline)") and seen_copy:
            frozen += 1
        else:
            raise Unsupported(f"strutils control-character table: unexpected statement {src[:80]}")
    if frozen != 2:
        raise Unsupported("strutils control-character tables not finished by str.maketrans")
    fn = [n for n in mod.body if isinstance(n, ast.FunctionDef) and n.name == "escape_control_characters"][0]
    want = ("if not isinstance(text, str):\n    raise ValueError(f'text type must be unicode but is {type(text).__name__}')\n"
            "trans = _control_char_trans_newline if keep_spacing else _control_char_trans\nreturn text.translate(trans)")
    if _body_src(fn) != want or ast.unparse(fn.args) != "text: str, keep_spacing=True":
        raise Unsupported("escape_control_characters is not as modelled")
    return tbl, tbl_nl


# ---- Gallina printing
def cstring(s):
    if not s.isascii() or any(ord(c) < 32 for c in s):
        raise Unsupported(f"name {s!r}")
    return '"' + s.replace('"', '""') + '"'


def ctext(s):
    return "[" + ";".join(str(ord(c)) for c in s) + "]" if s else "[]"


def term(e):
    k = e[0]
    if k == "Empty":
        return "Empty"
    if k == "Lit":
        return f"(Lit {ctext(e[1])})"
    if k in ("Num", "Raw", "EscB"):
        return f"({k} {cstring(e[1])})"
    if k in ("Esc", "Sty", "Ind", "Sub"):
        return f"({k} {term(e[1])})"
    if k in ("Cat", "Alt"):
        return f"({k} {term(e[1])} {term(e[2])})"
    if k == "Rep":
        return f"(Rep {ctext(e[1])} {term(e[2])})"
    raise Unsupported(f"value {e!r} reaches the output")


def translate(repo: str) -> str:
    cls = DumperClass(repo)
    tbl, tbl_nl = cc_table(repo)
    lines = ["(* GENERATED by harness/translators/dumper_paths.py from mitmproxy/addons/dumper.py,",
             "   mitmproxy/contentviews/__init__.py and mitmproxy/utils/strutils.py -- do not edit. *)",
             "From Coq Require Import List NArith String.",
             "From MV Require Import Model.Dumper.",
             "Import ListNotations.",
             "Local Open Scope N_scope.",
             "Local Open Scope string_scope.",
             "Definition cc_table : list N := [" + ";".join(map(str, tbl)) + "].",
             "Definition cc_table_spacing : list N := [" + ";".join(map(str, tbl_nl)) + "].",
             "Definition paths : list (string * sexp) := ["]
    lines.append(";\n".join(f"  ({cstring(n)}, {term(e)})" for n, e in cls.paths()))
    lines.append("].")
    return "\n".join(lines) + "\n"


if __name__ == "__main__":
    import sys
    print(translate(sys.argv[1] if len(sys.argv) > 1 else "/repo"))
