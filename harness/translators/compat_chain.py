"""Fail-closed translator for C38: mitmproxy/io/compat.py + mitmproxy/version.py -> coq/Gen/CompatChain.v.

Emits
  * FLOW_FORMAT_VERSION : Z                   (version.py, module-level int literal)
  * converters : chain_t                      the `converters = {...}` dict literal in source order: key (int or
                                              tuple of ints), and for the function it names the *version effect* of
                                              its body: which version entry it assigns (bytes key / str key / str key
                                              after convert_unicode) and the literal assigned
  * progress_guard : bool                     whether migrate_flow refuses to run the converter of the same
                                              flow_version twice in a row (the repair proposed in
                                              fixes/C38-stale-bytes-version-loop.diff); False for today's driver.
Checked, not emitted (any deviation raises Unsupported): the statement shape of migrate_flow (version read with the
bytes key first, int test, tuple(...)[:2], == FLOW_FORMAT_VERSION -> break, `in converters` -> call, else ValueError
with the should_upgrade expression); in every converter: exactly one top-level assignment to data[<version key>],
no other mention of a version key, `data` rebound only by convert_unicode(data) before that assignment (or, in a
converter that swaps in a stored handshake, by a pop from a module dict that only ever receives copy.deepcopy(data)
taken after the version assignment, or by a dict literal whose "version" entry equals the assigned literal), every
return is `return data`, `data` passed whole only to convert_unicode/copy.deepcopy; convert_unicode/_convert_dict_keys
map every key through always_str and never mention a version key.
Converter bodies are otherwise NOT translated (they are abstract in the model)."""
import ast
import os

OUT = "CompatChain.v"
VKEYS = ("version", b"version")


class Unsupported(Exception):
    pass


def _lit_version(n):
    """int literal or tuple of int literals -> python value"""
    if isinstance(n, ast.Constant) and type(n.value) is int:
        return n.value
    if isinstance(n, ast.Tuple) and n.elts and all(isinstance(e, ast.Constant) and type(e.value) is int for e in n.elts):
        return tuple(e.value for e in n.elts)
    raise Unsupported("version literal is neither an int nor a tuple of ints: " + ast.unparse(n))


def _is_version_store(st):
    return (isinstance(st, ast.Assign) and len(st.targets) == 1 and isinstance(st.targets[0], ast.Subscript)
            and isinstance(st.targets[0].value, ast.Name) and st.targets[0].value.id == "data"
            and isinstance(st.targets[0].slice, ast.Constant) and st.targets[0].slice.value in VKEYS)


def _effect(fn: ast.FunctionDef):
    if [a.arg for a in fn.args.args] != ["data"] or fn.args.vararg or fn.args.kwarg or fn.args.kwonlyargs:
        raise Unsupported(f"{fn.name}: signature is not (data)")
    stores = [(i, st) for i, st in enumerate(fn.body) if _is_version_store(st)]
    if len(stores) != 1:
        raise Unsupported(f"{fn.name}: expected exactly one top-level assignment to data[version key]")
    pos, store = stores[0]
    target = _lit_version(store.value)
    bytes_key = isinstance(store.targets[0].slice.value, bytes)
    # no other mention of a version key anywhere, except a dict-literal entry equal to the target (made-up flow)
    allowed_consts = {id(store.targets[0].slice)}
    for n in ast.walk(fn):
        if isinstance(n, ast.Dict):
            for k, v in zip(n.keys, n.values):
                if isinstance(k, ast.Constant) and k.value in VKEYS:
                    if bytes_key or k.value != "version" or _lit_version(v) != target:
                        raise Unsupported(f"{fn.name}: dict literal with a version entry different from the assigned one")
                    allowed_consts.add(id(k))
    for n in ast.walk(fn):
        if isinstance(n, ast.Constant) and n.value in VKEYS and id(n) not in allowed_consts:
            raise Unsupported(f"{fn.name}: version key mentioned outside the single assignment")
    for n in ast.walk(fn):
        if isinstance(n, ast.Return) and not (isinstance(n.value, ast.Name) and n.value.id == "data"):
            raise Unsupported(f"{fn.name}: return of something other than data")
        if isinstance(n, (ast.Global, ast.Nonlocal, ast.Delete, ast.Starred)) and "data" in ast.unparse(n).split():
            raise Unsupported(f"{fn.name}: unsupported statement on data")
        if isinstance(n, ast.Call):
            whole = [a for a in list(n.args) + [k.value for k in n.keywords] if isinstance(a, ast.Name) and a.id == "data"]
            if whole and ast.unparse(n.func) not in ("convert_unicode", "copy.deepcopy"):
                raise Unsupported(f"{fn.name}: data passed whole to {ast.unparse(n.func)}")
    if not isinstance(fn.body[-1], ast.Return):
        raise Unsupported(f"{fn.name}: does not end with return data")
    # rebinding of data
    unicode_first = False
    swaps = False
    for n in ast.walk(fn):
        tgts = []
        if isinstance(n, ast.Assign):
            tgts = n.targets
        elif isinstance(n, (ast.AugAssign, ast.AnnAssign, ast.NamedExpr)):
            tgts = [n.target]
        elif isinstance(n, (ast.For, ast.comprehension)):
            tgts = [n.target]
        elif isinstance(n, ast.With):
            tgts = [i.optional_vars for i in n.items if i.optional_vars is not None]
        for t in tgts:
            for leaf in ast.walk(t):
                if isinstance(leaf, ast.Name) and leaf.id == "data" and isinstance(leaf.ctx, ast.Store):
                    if not isinstance(n, ast.Assign) or len(n.targets) != 1 or not isinstance(t, ast.Name):
                        raise Unsupported(f"{fn.name}: data rebound in an unsupported way")
                    src = ast.unparse(n.value)
                    if src == "convert_unicode(data)":
                        if n not in fn.body or fn.body.index(n) > pos or bytes_key:
                            raise Unsupported(f"{fn.name}: convert_unicode not before the str version assignment")
                        unicode_first = True
                    elif src.startswith("_websocket_handshakes.pop(") or isinstance(n.value, ast.Dict):
                        if isinstance(n.value, ast.Dict) and not any(
                                isinstance(k, ast.Constant) and k.value == "version" for k in n.value.keys):
                            raise Unsupported(f"{fn.name}: made-up flow without a version entry")
                        swaps = True
                    else:
                        raise Unsupported(f"{fn.name}: data rebound to {src}")
    if swaps:
        if pos != 0 or bytes_key:
            raise Unsupported(f"{fn.name}: swapping converter must assign the str version first")
        puts = [n for n in ast.walk(fn) if isinstance(n, ast.Assign) and "_websocket_handshakes" in ast.unparse(n.targets[0])]
        if any(ast.unparse(p.value) != "copy.deepcopy(data)" for p in puts):
            raise Unsupported(f"{fn.name}: handshake store receives something other than copy.deepcopy(data)")
        for n in ast.walk(fn):
            if isinstance(n, ast.Call) and "_websocket_handshakes" in ast.unparse(n.func) \
                    and not ast.unparse(n.func).endswith(".pop"):
                raise Unsupported(f"{fn.name}: unsupported use of the handshake store")
    eff = "WB" if bytes_key else ("US" if unicode_first else "WS")
    return eff, target


def _check_unicode(funcs):
    want = {
        "_convert_dict_keys": "if isinstance(o, dict):\n    return {strutils.always_str(k): _convert_dict_keys(v) for k, v in o.items()}\nelse:\n    return o",
    }
    for name, body in want.items():
        if name not in funcs or "\n".join(ast.unparse(s) for s in funcs[name].body) != body:
            raise Unsupported(f"{name} is not as modelled (every key through always_str)")
    cu = funcs.get("convert_unicode")
    if cu is None:
        raise Unsupported("convert_unicode missing")
    stmts = [s for s in cu.body if not (isinstance(s, ast.Expr) and isinstance(s.value, ast.Constant))]
    if not (len(stmts) == 3 and ast.unparse(stmts[0]) == "data = _convert_dict_keys(data)"
            and isinstance(stmts[1], ast.Assign) and ast.unparse(stmts[1].targets[0]) == "data"
            and ast.unparse(stmts[1].value).startswith("_convert_dict_vals(data, ")
            and ast.unparse(stmts[2]) == "return data"):
        raise Unsupported("convert_unicode is not keys-then-vals")
    for f in (cu, funcs.get("_convert_dict_vals")):
        if f is None:
            raise Unsupported("_convert_dict_vals missing")
        for n in ast.walk(f):
            if isinstance(n, ast.Constant) and n.value in VKEYS:
                raise Unsupported(f"{f.name} mentions a version key")
    dv = funcs["_convert_dict_vals"]
    for n in ast.walk(dv):
        if isinstance(n, (ast.Delete,)) or (isinstance(n, ast.Call) and ast.unparse(n.func).split(".")[-1] in
                                            ("pop", "clear", "update", "popitem", "setdefault")):
            raise Unsupported("_convert_dict_vals removes or adds keys")


def _check_driver(fn: ast.FunctionDef) -> bool:
    """-> progress_guard"""
    body = [s for s in fn.body if not (isinstance(s, ast.Expr) and isinstance(s.value, ast.Constant))]
    guard = False
    if len(body) == 3 and ast.unparse(body[0]) == "previous_version = None":
        guard = True
        body = body[1:]
    if not (len(body) == 2 and isinstance(body[0], ast.While) and ast.unparse(body[0].test) == "True"
            and not body[0].orelse and ast.unparse(body[1]) == "return flow_data"):
        raise Unsupported("migrate_flow: not `while True: ...; return flow_data`")
    loop = body[0].body
    if len(loop) != 3:
        raise Unsupported("migrate_flow: loop body is not read / normalise / dispatch")
    if ast.unparse(loop[0]) != "flow_version = flow_data.get(b'version', flow_data.get('version'))":
        raise Unsupported("migrate_flow: version read not as modelled")
    if not (isinstance(loop[1], ast.If) and not loop[1].orelse and ast.unparse(loop[1].test) == "not isinstance(flow_version, int)"
            and [ast.unparse(s) for s in loop[1].body] == ["flow_version = tuple(flow_version)[:2]"]):
        raise Unsupported("migrate_flow: normalisation not as modelled")
    d = loop[2]
    if not (isinstance(d, ast.If) and ast.unparse(d.test) == "flow_version == version.FLOW_FORMAT_VERSION"
            and [ast.unparse(s) for s in d.body] == ["break"] and len(d.orelse) == 1 and isinstance(d.orelse[0], ast.If)):
        raise Unsupported("migrate_flow: current-version test not as modelled")
    e = d.orelse[0]
    test = ast.unparse(e.test)
    call = "flow_data = converters[flow_version](flow_data)"
    stmts = [ast.unparse(s) for s in e.body]
    if not guard and test == "flow_version in converters" and stmts == [call]:
        pass
    elif guard and test == "flow_version in converters and flow_version != previous_version" \
            and stmts == ["previous_version = flow_version", call]:
        pass
    else:
        raise Unsupported("migrate_flow: converter dispatch not as modelled: " + test)
    rej = e.orelse
    if not (len(rej) == 2 and ast.unparse(rej[0]) ==
            "should_upgrade = isinstance(flow_version, int) and flow_version > version.FLOW_FORMAT_VERSION"
            and isinstance(rej[1], ast.Raise) and isinstance(rej[1].exc, ast.Call)
            and ast.unparse(rej[1].exc.func) == "ValueError"
            and "', please update mitmproxy' if should_upgrade else ''" in ast.unparse(rej[1].exc)):
        raise Unsupported("migrate_flow: rejection branch not as modelled")
    for n in ast.walk(fn):
        if isinstance(n, (ast.Try, ast.Continue)):
            raise Unsupported("migrate_flow: try/continue not modelled")
    return guard


def extract(repo: str):
    vt = ast.parse(open(os.path.join(repo, "mitmproxy/version.py")).read())
    cur = [n for n in vt.body if isinstance(n, ast.Assign) and ast.unparse(n.targets[0]) == "FLOW_FORMAT_VERSION"]
    if len(cur) != 1 or not (isinstance(cur[0].value, ast.Constant) and type(cur[0].value.value) is int):
        raise Unsupported("FLOW_FORMAT_VERSION is not a single int literal")
    current = cur[0].value.value
    tree = ast.parse(open(os.path.join(repo, "mitmproxy/io/compat.py")).read())
    funcs = {}
    for n in tree.body:
        if isinstance(n, ast.FunctionDef):
            if n.name in funcs:
                raise Unsupported(f"function {n.name} defined twice")
            funcs[n.name] = n
    tables = [n for n in tree.body if isinstance(n, (ast.Assign, ast.AnnAssign))
              and ast.unparse(n.targets[0] if isinstance(n, ast.Assign) else n.target) == "converters"]
    if len(tables) != 1 or not isinstance(tables[0].value, ast.Dict):
        raise Unsupported("converters is not a single dict literal")
    for n in ast.walk(tree):
        if isinstance(n, ast.Name) and n.id == "converters" and isinstance(n.ctx, ast.Store) and n is not (
                tables[0].targets[0] if isinstance(tables[0], ast.Assign) else tables[0].target):
            raise Unsupported("converters assigned more than once")
        if isinstance(n, (ast.Subscript, ast.Attribute)) and isinstance(n.ctx, (ast.Store, ast.Del)) \
                and ast.unparse(n.value) == "converters":
            raise Unsupported("converters mutated after its definition")
    chain, seen = [], set()
    for k, v in zip(tables[0].value.keys, tables[0].value.values):
        if k is None:
            raise Unsupported("dict unpacking in converters")
        key = _lit_version(k)
        if key in seen:
            raise Unsupported(f"duplicate converter key {key}")
        seen.add(key)
        if not isinstance(v, ast.Name) or v.id not in funcs:
            raise Unsupported(f"converter for {key} is not a module-level function")
        eff, target = _effect(funcs[v.id])
        chain.append((key, eff, target, v.id))
    _check_unicode(funcs)
    if "migrate_flow" not in funcs:
        raise Unsupported("migrate_flow missing")
    guard = _check_driver(funcs["migrate_flow"])
    return current, chain, guard


def _z(n: int) -> str:
    return f"({n})%Z"


def _fver(key) -> str:
    if isinstance(key, int):
        return f"FInt {_z(key)}"
    return "FTup [" + "; ".join(f"EInt {_z(x)}" for x in key) + "]"


def _verval(t) -> str:
    if isinstance(t, int):
        return f"VInt {_z(t)}"
    return "VSeq [" + "; ".join(f"EInt {_z(x)}" for x in t) + "]"


def translate(repo: str) -> str:
    current, chain, guard = extract(repo)
    rows = ";\n".join(f"  ({_fver(k)}, ({e}, {_verval(t)}))  (* {name} *)" for k, e, t, name in chain)
    return ("(* GENERATED by harness/translators/compat_chain.py from mitmproxy/io/compat.py and mitmproxy/version.py\n"
            "   -- do not edit. Converter keys in source order with the version effect of each converter body. *)\n"
            "From Coq Require Import ZArith List.\n"
            "From MV Require Import Model.CompatPrelude.\n"
            "Import ListNotations.\n\n"
            f"Definition FLOW_FORMAT_VERSION : Z := {_z(current)}.\n\n"
            f"Definition converters : chain_t := [\n{rows}\n].\n\n"
            f"Definition progress_guard : bool := {'true' if guard else 'false'}.\n")
