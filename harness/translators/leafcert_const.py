"""Translator for C16: reads three facts with the Python ast and writes coq/Gen/LeafCertConst.v.
(1) mitmproxy/certs.py: CERT_VALIDITY_OFFSET and CERT_EXPIRY, each `datetime.timedelta(days=<int literal>)`
    (optionally negated), as seconds;
(2) mitmproxy/addons/tlsconfig.py TlsConfig.get_cert: whether the statement
    `altnames.append(_ip_or_dns_name(upstream_cert.cn))` stands alone (CN_GUARDED = false) or is the only
    statement of a `try:` whose single handler is `except ValueError: pass` (CN_GUARDED = true).
(3) mitmproxy/certs.py dummy_cert: the `critical=` argument of the SubjectAlternativeName extension is
    `not is_valid_commonname` (SAN_CRIT_BY_SUBJECT = false) or `not subject` (true).
(4) the cache key of the SSL.Context that carries the presented chain: net/tls.py create_client_proxy_context must be
    an lru_cache over keyword parameters including chain_file and dhparams and load the chain with
    load_verify_locations(str(chain_file), None); TlsConfig.tls_start_client must pass chain_file=entry.chain_file and
    dhparams=self.certstore.dhparams; CertStore.from_files must pass a `dh = cls.load_dhparam(dhparam_file)` to the
    constructor; CertStore.load_dhparam decorated with staticmethod only (DH_SHARED = false: a new object per store
    load) or additionally with functools.cache / lru_cache (DH_SHARED = true: one object per path).
Fails closed on anything else."""
import ast
import os

OUT = "LeafCertConst.v"


def _days(node, name):
    neg = False
    if isinstance(node, ast.UnaryOp) and isinstance(node.op, ast.USub):
        neg, node = True, node.operand
    if not (isinstance(node, ast.Call) and ast.unparse(node.func) == "datetime.timedelta" and not node.args
            and len(node.keywords) == 1 and node.keywords[0].arg == "days"):
        raise ValueError(f"{name} is not datetime.timedelta(days=...)")
    v = node.keywords[0].value
    if isinstance(v, ast.UnaryOp) and isinstance(v.op, ast.USub):
        neg, v = not neg, v.operand
    if not (isinstance(v, ast.Constant) and type(v.value) is int and 0 <= v.value < 100000):
        raise ValueError(f"{name}: days is not a small int literal")
    return -v.value if neg else v.value


def translate(repo: str) -> str:
    tree = ast.parse(open(os.path.join(repo, "mitmproxy", "certs.py")).read())
    consts = {}
    for n in tree.body:
        if isinstance(n, ast.Assign) and len(n.targets) == 1 and isinstance(n.targets[0], ast.Name) \
                and n.targets[0].id in ("CERT_VALIDITY_OFFSET", "CERT_EXPIRY"):
            if n.targets[0].id in consts:
                raise ValueError(n.targets[0].id + " assigned twice")
            consts[n.targets[0].id] = _days(n.value, n.targets[0].id)
    if set(consts) != {"CERT_VALIDITY_OFFSET", "CERT_EXPIRY"}:
        raise ValueError("CERT_VALIDITY_OFFSET / CERT_EXPIRY not found")
    # dummy_cert must use exactly these two names for the validity
    dc = [n for n in tree.body if isinstance(n, ast.FunctionDef) and n.name == "dummy_cert"]
    if len(dc) != 1:
        raise ValueError("dummy_cert not found exactly once")
    src = ast.unparse(dc[0])
    if "builder.not_valid_before(now + CERT_VALIDITY_OFFSET)" not in src \
            or "builder.not_valid_after(now + CERT_VALIDITY_OFFSET + CERT_EXPIRY)" not in src \
            or "now = datetime.datetime.now()" not in src:
        raise ValueError("dummy_cert validity expressions changed")

    # criticality of the subjectAltName extension in dummy_cert
    crit = []
    for n in ast.walk(dc[0]):
        if isinstance(n, ast.Call) and ast.unparse(n.func) == "builder.add_extension" and n.args \
                and ast.unparse(n.args[0]).startswith("x509.SubjectAlternativeName("):
            kw = [k for k in n.keywords if k.arg == "critical"]
            if len(kw) != 1 or len(n.args) != 1:
                raise ValueError("SubjectAlternativeName: unexpected add_extension arguments")
            crit.append(ast.unparse(kw[0].value))
    if crit == ["not is_valid_commonname"]:
        crit_by_subject = False
    elif crit == ["not subject"]:
        if "subject = []" not in src or "builder.subject_name(x509.Name(subject))" not in src:
            raise ValueError("dummy_cert: `subject` is not the list of subject attributes")
        crit_by_subject = True
    else:
        raise ValueError(f"unknown subjectAltName criticality expression(s): {crit}")

    # (4) context cache key
    store = [n for n in tree.body if isinstance(n, ast.ClassDef) and n.name == "CertStore"]
    if len(store) != 1:
        raise ValueError("class CertStore not found exactly once")
    fns = {n.name: n for n in store[0].body if isinstance(n, ast.FunctionDef)}
    if "load_dhparam" not in fns or "from_files" not in fns or "from_store" not in fns:
        raise ValueError("CertStore.load_dhparam / from_files / from_store missing")
    decos = [ast.unparse(d) for d in fns["load_dhparam"].decorator_list]
    memo = [d for d in decos if d != "staticmethod"]
    if "staticmethod" not in decos:
        raise ValueError("load_dhparam is not a staticmethod")
    if not memo:
        dh_shared = False
    elif len(memo) == 1 and (memo[0] in ("functools.cache", "cache", "functools.lru_cache", "lru_cache")
                             or memo[0].startswith(("functools.lru_cache(", "lru_cache("))):
        dh_shared = True
    else:
        raise ValueError(f"unknown decorators on load_dhparam: {decos}")
    ff = ast.unparse(fns["from_files"])
    if "dh = cls.load_dhparam(dhparam_file)" not in ff or "return cls(key, ca, chain_file, crl, dh)" not in ff \
            or "chain_file: Path | None = ca_file" not in ff:
        raise ValueError("CertStore.from_files changed (dhparams / chain_file wiring)")
    if "return cls.from_files(ca_file, dhparam_file, passphrase)" not in ast.unparse(fns["from_store"]):
        raise ValueError("CertStore.from_store changed")
    if [ast.unparse(d) for d in fns["from_files"].decorator_list] != ["classmethod"] \
            or [ast.unparse(d) for d in fns["from_store"].decorator_list] != ["classmethod"]:
        raise ValueError("unexpected decorators on CertStore.from_files / from_store")
    t3 = ast.parse(open(os.path.join(repo, "mitmproxy", "net", "tls.py")).read())
    ccp = [n for n in t3.body if isinstance(n, ast.FunctionDef) and n.name == "create_client_proxy_context"]
    if len(ccp) != 1:
        raise ValueError("create_client_proxy_context not found exactly once")
    cd = [ast.unparse(d) for d in ccp[0].decorator_list]
    if len(cd) != 1 or not cd[0].startswith(("lru_cache(", "functools.lru_cache(")):
        raise ValueError(f"create_client_proxy_context is not an lru_cache: {cd}")
    kw = [a.arg for a in ccp[0].args.kwonlyargs]
    if "chain_file" not in kw or "dhparams" not in kw or ccp[0].args.args:
        raise ValueError("create_client_proxy_context: chain_file/dhparams are not keyword-only cache-key components")
    if "context.load_verify_locations(str(chain_file), None)" not in ast.unparse(ccp[0]):
        raise ValueError("create_client_proxy_context no longer loads chain_file into the context")

    t2 = ast.parse(open(os.path.join(repo, "mitmproxy", "addons", "tlsconfig.py")).read())
    cls = [n for n in t2.body if isinstance(n, ast.ClassDef) and n.name == "TlsConfig"]
    if len(cls) != 1:
        raise ValueError("class TlsConfig not found exactly once")
    gc = [n for n in cls[0].body if isinstance(n, ast.FunctionDef) and n.name == "get_cert"]
    if len(gc) != 1:
        raise ValueError("TlsConfig.get_cert not found exactly once")
    target = "altnames.append(_ip_or_dns_name(upstream_cert.cn))"
    found = []

    def walk(stmts, in_try):
        for s in stmts:
            if isinstance(s, ast.Expr) and ast.unparse(s) == target:
                found.append(in_try)
            elif isinstance(s, ast.Try):
                ok = (len(s.body) == 1 and isinstance(s.body[0], ast.Expr) and ast.unparse(s.body[0]) == target
                      and len(s.handlers) == 1 and s.handlers[0].type is not None
                      and ast.unparse(s.handlers[0].type) == "ValueError" and s.handlers[0].name is None
                      and len(s.handlers[0].body) == 1 and isinstance(s.handlers[0].body[0], ast.Pass)
                      and not s.orelse and not s.finalbody)
                if ok:
                    found.append(True)
                else:
                    walk(s.body, in_try)
                    for h in s.handlers:
                        walk(h.body, in_try)
                    walk(s.orelse, in_try)
                    walk(s.finalbody, in_try)
            else:
                for f in ("body", "orelse", "finalbody"):
                    sub = getattr(s, f, None)
                    if isinstance(sub, list) and sub and isinstance(sub[0], ast.stmt):
                        walk(sub, in_try)

    tsc = [n for n in cls[0].body if isinstance(n, ast.FunctionDef) and n.name == "tls_start_client"]
    if len(tsc) != 1:
        raise ValueError("TlsConfig.tls_start_client not found exactly once")
    tsrc = ast.unparse(tsc[0])
    if "chain_file=entry.chain_file" not in tsrc or "dhparams=self.certstore.dhparams" not in tsrc \
            or "entry = self.get_cert(tls_start.context)" not in tsrc \
            or "tls_start.ssl_conn.use_certificate(entry.cert.to_cryptography())" not in tsrc:
        raise ValueError("tls_start_client: chain_file / dhparams / leaf wiring changed")

    walk(gc[0].body, False)
    if len(found) != 1:
        raise ValueError("expected exactly one conversion of upstream_cert.cn in TlsConfig.get_cert")
    return ("(* generated by harness/translators/leafcert_const.py from mitmproxy/certs.py and "
            "mitmproxy/addons/tlsconfig.py -- do not edit *)\n"
            "From Coq Require Import ZArith.\n"
            f"Definition VALIDITY_OFFSET : Z := ({consts['CERT_VALIDITY_OFFSET'] * 86400})%Z.\n"
            f"Definition CERT_EXPIRY : Z := ({consts['CERT_EXPIRY'] * 86400})%Z.\n"
            f"Definition CN_GUARDED : bool := {'true' if found[0] else 'false'}.\n"
            f"Definition SAN_CRIT_BY_SUBJECT : bool := {'true' if crit_by_subject else 'false'}.\n"
            f"Definition DH_SHARED : bool := {'true' if dh_shared else 'false'}.\n")
