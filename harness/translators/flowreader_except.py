"""Python-ast -> Gallina: the exception classes named by the two `except` clauses of
FlowReader.stream (mitmproxy/io/io.py, tnetstring branch) as predicates on Model.Tnet.pyexc.
Fails closed: any shape other than

    try:                                   # outer
        while True:
            loaded = ... tnetstring.load(self.fo) ...
            try:                           # inner
                if not isinstance(loaded, dict): raise ValueError(...)
                [yield | f =] flow.Flow.from_state(compat.migrate_flow(loaded))
            except <classes> as e: raise exceptions.FlowReadException(...)   # one or more
            [yield f]
    except <classes> as e:
        if str(e) == "not a tnetstring: empty file": return
        raise exceptions.FlowReadException(...)

raises, and so does any class name that has no meaning in the model."""
import ast
import os

OUT = "FlowReaderExcept.v"

ALL = ["ValueError", "TypeError", "IndexError", "RecursionError", "KeyError", "AttributeError", "AssertionError", "OtherExc"]
CLASSES = {
    "ValueError": ["ValueError"], "TypeError": ["TypeError"], "IndexError": ["IndexError"],
    "RecursionError": ["RecursionError"], "KeyError": ["KeyError"], "AttributeError": ["AttributeError"],
    "AssertionError": ["AssertionError"], "LookupError": ["KeyError", "IndexError"], "Exception": ALL,
}


class Unsupported(Exception):
    pass


def _names(handler: ast.ExceptHandler):
    t = handler.type
    if t is None:
        raise Unsupported("bare except")
    elts = t.elts if isinstance(t, ast.Tuple) else [t]
    out = []
    for e in elts:
        if not isinstance(e, ast.Name) or e.id not in CLASSES:
            raise Unsupported(f"exception class {ast.dump(e)} has no meaning in the model")
        out += CLASSES[e.id]
    return out


def _raises_fre(body) -> bool:
    last = body[-1]
    return (isinstance(last, ast.Raise) and isinstance(last.exc, ast.Call)
            and ast.unparse(last.exc.func) == "exceptions.FlowReadException")


def _contains(node, text) -> bool:
    return any(text in ast.unparse(n) for n in ast.walk(node) if isinstance(n, ast.Call))


def extract(repo: str):
    src = open(os.path.join(repo, "mitmproxy/io/io.py")).read()
    mod = ast.parse(src)
    cls = [n for n in mod.body if isinstance(n, ast.ClassDef) and n.name == "FlowReader"]
    if len(cls) != 1:
        raise Unsupported("class FlowReader not found")
    fn = [n for n in cls[0].body if isinstance(n, ast.FunctionDef) and n.name == "stream"]
    if len(fn) != 1:
        raise Unsupported("FlowReader.stream not found")
    ifs = [n for n in fn[0].body if isinstance(n, ast.If) and 'startswith(b\'{\')' in ast.unparse(n.test)]
    if len(ifs) != 1 or "peek(1)" not in ast.unparse(ifs[0].test):
        raise Unsupported("HAR branch test `self.peek(1).startswith(b'{')` not found")
    bom = [n for n in fn[0].body if isinstance(n, ast.If) and "\\xef\\xbb\\xbf{" in ast.unparse(n.test) and "peek(4)" in ast.unparse(n.test)]
    if len(bom) != 1 or ast.unparse(bom[0].body[0]) != "self.fo.read(3)":
        raise Unsupported("BOM skipping not as modelled")
    orelse = ifs[0].orelse
    if len(orelse) != 1 or not isinstance(orelse[0], ast.Try):
        raise Unsupported("tnetstring branch is not a single try statement")
    outer = orelse[0]
    if outer.orelse or outer.finalbody or len(outer.handlers) != 1:
        raise Unsupported("outer try: expected exactly one handler, no else/finally")
    oh = outer.handlers[0]
    if not (len(oh.body) == 2 and isinstance(oh.body[0], ast.If)
            and ast.unparse(oh.body[0].test) == "str(e) == 'not a tnetstring: empty file'"
            and isinstance(oh.body[0].body[0], ast.Return) and oh.body[0].body[0].value is None and _raises_fre(oh.body)):
        raise Unsupported("outer handler body not as modelled (EOF test, then raise FlowReadException)")
    if len(outer.body) != 1 or not isinstance(outer.body[0], ast.While) or ast.unparse(outer.body[0].test) != "True":
        raise Unsupported("outer try body is not `while True:`")
    loop = outer.body[0].body
    if not (len(loop) in (2, 3) and isinstance(loop[0], ast.Assign) and ast.unparse(loop[0].targets[0]) == "loaded"
            and "tnetstring.load(self.fo)" in ast.unparse(loop[0].value) and isinstance(loop[1], ast.Try)):
        raise Unsupported("loop body is not `loaded = tnetstring.load(self.fo)` followed by a try statement")
    inner = loop[1]
    if inner.orelse or inner.finalbody or not inner.handlers:
        raise Unsupported("inner try: no else/finally expected")
    first = inner.body[0]
    if not (isinstance(first, ast.If) and ast.unparse(first.test) == "not isinstance(loaded, dict)"
            and isinstance(first.body[0], ast.Raise) and ast.unparse(first.body[0].exc.func) == "ValueError"):
        raise Unsupported("inner try does not start with the isinstance(loaded, dict) test raising ValueError")
    if len(inner.body) != 2 or "flow.Flow.from_state(compat.migrate_flow(loaded))" not in ast.unparse(inner.body[1]):
        raise Unsupported("inner try body is not the from_state(migrate_flow(loaded)) step")
    yields_inside = isinstance(inner.body[1], ast.Expr) and isinstance(inner.body[1].value, ast.Yield)
    if yields_inside:
        if len(loop) != 2:
            raise Unsupported("unexpected statement after the inner try")
    else:
        if not (isinstance(inner.body[1], ast.Assign) and len(loop) == 3 and isinstance(loop[2], ast.Expr)
                and isinstance(loop[2].value, ast.Yield)
                and ast.unparse(loop[2].value.value) == ast.unparse(inner.body[1].targets[0])):
            raise Unsupported("flow is neither yielded inside the inner try nor assigned and yielded right after it")
    inner_names = []
    for h in inner.handlers:
        if not _raises_fre(h.body) or len(h.body) != 1:
            raise Unsupported("inner handler does not just raise FlowReadException")
        inner_names += _names(h)
    return sorted(set(_names(oh)), key=ALL.index), sorted(set(inner_names), key=ALL.index)


def _pred(name, classes):
    if set(classes) == set(ALL):
        return f"Definition {name} (e : pyexc) : bool := true.\n"
    return f"Definition {name} (e : pyexc) : bool :=\n  match e with {' | '.join(classes)} => true | _ => false end.\n"


def translate(repo: str) -> str:
    outer, inner = extract(repo)
    return ("(* GENERATED by harness/translators/flowreader_except.py from mitmproxy/io/io.py -- do not edit.\n"
            "   Exception classes named by the handlers of FlowReader.stream. *)\n"
            "From MV Require Import Model.Tnet.\n"
            + _pred("outer_gen", outer) + _pred("inner_gen", inner))
