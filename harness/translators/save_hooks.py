"""Fail-closed translator for C39: class Save (mitmproxy/addons/save.py) -> coq/Gen/SaveHooks.v.

Extracted (so that moving or dropping an action changes the definitions the theorems are about):
  * hook_table   : per flow-lifecycle hook method, its primitive actions in program order
                   (self.active_flows.add(flow) / self.save_flow(flow)), each with the conjunction of the
                   enclosing guards (`if self.stream:` / `if flow.websocket is None:`); delegation to another
                   hook method (error -> response, tcp_error -> tcp_end, ...) is inlined.  A hook method that
                   is absent from the class has the empty body.
  * done_body    : the statements of the `if self.stream:` block of Save.done in program order.
  * save_flow_discards : whether save_flow removes the flow from active_flows after a successful write.
  * rotate_open_first  : whether maybe_rotate_to_new_file opens the new file before it gives up the old
                   stream (False for the code as found: close + forget the old stream, then open).
Shape-checked only (exact comparison of the normalised source, any difference raises): Save.__init__,
Save.configure, the remaining statements of maybe_rotate_to_new_file and save_flow, and
FilteredFlowWriter.__init__/add in mitmproxy/io/io.py.  These are modelled by hand in coq/Model/Save.v.
Any unknown method, statement or expression raises Unsupported."""
import ast
import os

OUT = "SaveHooks.v"

HOOKS = [("request", "HRequest"), ("response", "HResponse"), ("error", "HError"), ("websocket_end", "HWebsocketEnd"),
         ("tcp_start", "HTcpStart"), ("tcp_end", "HTcpEnd"), ("tcp_error", "HTcpError"),
         ("udp_start", "HUdpStart"), ("udp_end", "HUdpEnd"), ("udp_error", "HUdpError"),
         ("dns_request", "HDnsRequest"), ("dns_response", "HDnsResponse"), ("dns_error", "HDnsError")]
HOOK_NAMES = {n for n, _ in HOOKS}
OTHER_METHODS = {"__init__", "load", "configure", "maybe_rotate_to_new_file", "save_flow", "done", "save"}

EXPECT_INIT = ["self.stream: io.FilteredFlowWriter | None = None",
               "self.filt: flowfilter.TFilter | None = None",
               "self.active_flows: set[flow.Flow] = set()",
               "self.current_path: str | None = None"]
EXPECT_CONFIGURE = [
    "if 'save_stream_filter' in updated:\n    if ctx.options.save_stream_filter:\n        try:\n"
    "            self.filt = flowfilter.parse(ctx.options.save_stream_filter)\n        except ValueError as e:\n"
    "            raise exceptions.OptionsError(str(e)) from e\n    else:\n        self.filt = None",
    "if 'save_stream_file' in updated or 'save_stream_filter' in updated:\n    if ctx.options.save_stream_file:\n"
    "        try:\n            self.maybe_rotate_to_new_file()\n        except OSError as e:\n"
    "            raise exceptions.OptionsError(str(e)) from e\n        assert self.stream\n"
    "        self.stream.flt = self.filt\n    else:\n        self.done()"]
ROT_HEAD = ["path = datetime.today().strftime(_path(ctx.options.save_stream_file))",
            "if self.current_path == path:\n    return"]
ROT_OPEN = ["new_log_file = Path(path)",
            "new_log_file.parent.mkdir(parents=True, exist_ok=True)",
            "f = new_log_file.open(_mode(ctx.options.save_stream_file))"]
ROT_INSTALL = ["self.stream = io.FilteredFlowWriter(f, self.filt)", "self.current_path = path"]
ROT_CLOSE_FIRST = ["if self.stream:\n    self.stream.fo.close()\n    self.stream = None"]
ROT_CLOSE_LATE = ["if self.stream:\n    self.stream.fo.close()"]
SAVE_GUARD = "if not self.stream:\n    return"
SAVE_TRY = ["self.maybe_rotate_to_new_file()", "self.stream.add(flow)"]
SAVE_EXCEPT = ["sys.stderr.write(f'Error while writing to {self.current_path}: {e}')", "sys.exit(1)"]
EXPECT_WRITER_INIT = ["self.fo = fo", "self.flt = flt"]
EXPECT_WRITER_ADD = ["if self.flt and (not flowfilter.match(self.flt, f)):\n    return", "d = f.get_state()",
                     "tnetstring.dump(d, self.fo)", "self.fo.flush()"]
DONE_STMTS = {"for f in self.active_flows:\n    self.stream.add(f)": "DWriteActive",
              "self.active_flows.clear()": "DClearActive",
              "self.current_path = None": "DResetPath",
              "self.stream.fo.close()": "DCloseFile",
              "self.stream = None": "DDropStream"}


class Unsupported(Exception):
    pass


def body_of(fn):
    """statements without a leading docstring"""
    b = list(fn.body)
    if b and isinstance(b[0], ast.Expr) and isinstance(b[0].value, ast.Constant) and isinstance(b[0].value.value, str):
        b = b[1:]
    return b


def texts(stmts):
    return [ast.unparse(s) for s in stmts]


def expect(what, got, want):
    if got != want:
        raise Unsupported(f"{what}: source differs from the shape the hand model was written for:\n  got  {got!r}\n  want {want!r}")


def flow_param(fn):
    a = fn.args
    if a.vararg or a.kwarg or a.kwonlyargs or a.defaults or a.posonlyargs or len(a.args) != 2 or a.args[0].arg != "self":
        raise Unsupported(f"hook {fn.name}: unexpected signature")
    if fn.decorator_list:
        raise Unsupported(f"hook {fn.name}: decorators are not supported")
    return a.args[1].arg


def is_self_call(e, param):
    """self.<name>(<param>) -> name"""
    if (isinstance(e, ast.Call) and not e.keywords and len(e.args) == 1 and isinstance(e.args[0], ast.Name)
            and e.args[0].id == param and isinstance(e.func, ast.Attribute) and isinstance(e.func.value, ast.Name)
            and e.func.value.id == "self"):
        return e.func.attr
    return None


def cond_of(test, param):
    t = ast.unparse(test)
    if t == "self.stream":
        return "CStream"
    if t == f"{param}.websocket is None":
        return "CNoWebsocket"
    raise Unsupported("unknown guard: " + t)


def stmts_to_actions(stmts, param, methods, guards, stack):
    out = []
    for s in stmts:
        if isinstance(s, ast.Expr) and isinstance(s.value, ast.Constant) and isinstance(s.value.value, str):
            continue  # stray docstring / string comment
        if isinstance(s, ast.Pass):
            continue
        if isinstance(s, ast.If):
            if s.orelse:
                raise Unsupported("if with else in hook body: " + ast.unparse(s))
            out += stmts_to_actions(s.body, param, methods, guards + [cond_of(s.test, param)], stack)
            continue
        if isinstance(s, ast.Expr):
            e = s.value
            name = is_self_call(e, param)
            if name == "save_flow":
                out.append((list(guards), "PSave"))
                continue
            if name in HOOK_NAMES:
                if name in stack:
                    raise Unsupported("recursive hook delegation via " + name)
                if name not in methods:
                    raise Unsupported("delegation to a hook that is not defined: " + name)
                callee = methods[name]
                out += stmts_to_actions(body_of(callee), flow_param(callee), methods, guards, stack + [name])
                continue
            if ast.unparse(e) == f"self.active_flows.add({param})":
                out.append((list(guards), "PAdd"))
                continue
        raise Unsupported("unsupported statement in hook body: " + ast.unparse(s))
    return out


def translate_done(fn):
    b = body_of(fn)
    if fn.args.args[1:] or len(b) != 1 or not isinstance(b[0], ast.If) or b[0].orelse or ast.unparse(b[0].test) != "self.stream":
        raise Unsupported("done: expected a single `if self.stream:` block")
    out = []
    for s in b[0].body:
        t = ast.unparse(s)
        if t not in DONE_STMTS:
            raise Unsupported("done: unsupported statement: " + t)
        out.append(DONE_STMTS[t])
    # the model gives DCloseFile no effect and lets a write after DDropStream do nothing; both are only
    # faithful when the stream is closed/dropped after its last use (Python would raise otherwise)
    if len(set(out)) != len(out):
        raise Unsupported("done: repeated statement")
    pos = {d: k for k, d in enumerate(out)}
    for late, early in (("DCloseFile", "DWriteActive"), ("DDropStream", "DWriteActive"), ("DDropStream", "DCloseFile")):
        if late in pos and early in pos and pos[late] < pos[early]:
            raise Unsupported(f"done: {late} before {early} (would raise at run time)")
    return out


def translate_save_flow(fn):
    b = body_of(fn)
    if [a.arg for a in fn.args.args] != ["self", "flow"]:
        raise Unsupported("save_flow: unexpected signature")
    if len(b) != 2 or ast.unparse(b[0]) != SAVE_GUARD or not isinstance(b[1], ast.Try):
        raise Unsupported("save_flow: expected `if not self.stream: return` followed by try")
    tr = b[1]
    expect("save_flow try body", texts(tr.body), SAVE_TRY)
    if tr.finalbody or len(tr.handlers) != 1 or ast.unparse(tr.handlers[0].type) != "OSError":
        raise Unsupported("save_flow: unexpected handlers")
    expect("save_flow except body", texts(tr.handlers[0].body), SAVE_EXCEPT)
    els = texts(tr.orelse)
    if els == ["self.active_flows.discard(flow)"]:
        return True
    if els == []:
        return False
    raise Unsupported("save_flow: unsupported else block: " + repr(els))


def translate_rotate(fn):
    t = texts(body_of(fn))
    if t == ROT_HEAD + ROT_CLOSE_FIRST + ROT_OPEN + ROT_INSTALL:
        return False
    if t == ROT_HEAD + ROT_OPEN + ROT_CLOSE_LATE + ROT_INSTALL:
        return True
    raise Unsupported("maybe_rotate_to_new_file: unsupported shape: " + repr(t))


def coq_body(actions):
    if not actions:
        return "[]"
    return "[" + "; ".join("([" + "; ".join(g) + "], " + p + ")" for g, p in actions) + "]"


def translate(repo: str) -> str:
    mod = ast.parse(open(os.path.join(repo, "mitmproxy/addons/save.py")).read())
    classes = [n for n in mod.body if isinstance(n, ast.ClassDef) and n.name == "Save"]
    if len(classes) != 1:
        raise Unsupported("class Save not found exactly once")
    cls = classes[0]
    if cls.bases or cls.decorator_list:
        raise Unsupported("class Save: bases/decorators not supported")
    methods = {}
    for n in cls.body:
        if isinstance(n, ast.Expr) and isinstance(n.value, ast.Constant):
            continue
        if not isinstance(n, ast.FunctionDef):
            raise Unsupported("class Save: unsupported member: " + ast.unparse(n)[:80])
        if n.name in methods:
            raise Unsupported("duplicate method " + n.name)
        if n.name not in HOOK_NAMES and n.name not in OTHER_METHODS:
            raise Unsupported("class Save: unknown method (possibly a new hook): " + n.name)
        methods[n.name] = n
    for req in ("__init__", "configure", "maybe_rotate_to_new_file", "save_flow", "done"):
        if req not in methods:
            raise Unsupported("class Save: missing method " + req)
    expect("Save.__init__", texts(body_of(methods["__init__"])), EXPECT_INIT)
    expect("Save.configure", texts(body_of(methods["configure"])), EXPECT_CONFIGURE)
    open_first = translate_rotate(methods["maybe_rotate_to_new_file"])
    discards = translate_save_flow(methods["save_flow"])
    done_body = translate_done(methods["done"])

    iomod = ast.parse(open(os.path.join(repo, "mitmproxy/io/io.py")).read())
    wcls = [n for n in iomod.body if isinstance(n, ast.ClassDef) and n.name == "FilteredFlowWriter"]
    if len(wcls) != 1:
        raise Unsupported("FilteredFlowWriter not found")
    wm = {n.name: n for n in wcls[0].body if isinstance(n, ast.FunctionDef)}
    if set(wm) != {"__init__", "add"}:
        raise Unsupported("FilteredFlowWriter: unexpected methods " + repr(sorted(wm)))
    expect("FilteredFlowWriter.__init__", texts(body_of(wm["__init__"])), EXPECT_WRITER_INIT)
    expect("FilteredFlowWriter.add", texts(body_of(wm["add"])), EXPECT_WRITER_ADD)

    lines = ["(* GENERATED by harness/translators/save_hooks.py from mitmproxy/addons/save.py; do not edit *)",
             "From Coq Require Import List Bool.", "From MV Require Import Model.SavePrelude.", "Import ListNotations.", "",
             "(* per hook method: primitive actions in program order with their guards *)",
             "Definition hook_table (h : hook) : hook_body :=", "  match h with"]
    for py, coq in HOOKS:
        if py in methods:
            fn = methods[py]
            acts = stmts_to_actions(body_of(fn), flow_param(fn), methods, [], [py])
        else:
            acts = []
        lines.append(f"  | {coq} => {coq_body(acts)}")
    lines += ["  end.", "",
              "(* the `if self.stream:` block of Save.done *)",
              "Definition done_body : list dstmt := [" + "; ".join(done_body) + "].", "",
              "(* save_flow: `else: self.active_flows.discard(flow)` present after a successful write *)",
              f"Definition save_flow_discards : bool := {'true' if discards else 'false'}.", "",
              "(* maybe_rotate_to_new_file opens the new file before giving up the old stream *)",
              f"Definition rotate_open_first : bool := {'true' if open_first else 'false'}.", ""]
    return "\n".join(lines)


if __name__ == "__main__":
    import sys
    print(translate(sys.argv[1] if len(sys.argv) > 1 else "/repo"))
