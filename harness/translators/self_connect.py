"""Translator for C23: mitmproxy/addons/proxyserver.py `Proxyserver.server_connect`  ->  coq/Gen/SelfConnect.v.

Fail closed: the statement skeleton (sockname default, assert, tuple unpacking, the two nested loops, the
`if self_connect: data.server.error = <literal>; return` body) is matched by shape; the `self_connect`
expression itself is translated generically (and / or / not, ==, !=, in / not in over tuples, names and
string literals, with a tiny type discipline host / port / transport).  Anything else raises.
Dropped: `data.server.sockname = self._connect_addr` (not an observable of this property).
"""
from __future__ import annotations

import ast
import os

OUT = "SelfConnect.v"


class Unsupported(Exception):
    pass


def bad(node, why=""):
    raise Unsupported(f"{why or 'unsupported construct'}: {ast.unparse(node)[:160]!r} (line {getattr(node, 'lineno', '?')})")


def cbytes(s: str) -> str:
    b = s.encode("utf-8")
    return "[" + ";".join("x%02x" % c for c in b) + "]" if b else "(@nil byte)"


def coq_string(s: str) -> str:
    if not all(32 <= ord(c) < 127 for c in s):
        raise Unsupported(f"non-ASCII literal {s!r}")
    return '"' + s.replace('"', '""') + '"%string'


NAMES = {"connect_host": "host", "connect_port": "port", "listen_host": "host", "listen_port": "port"}
ATTRS = {"server.mode.transport_protocol": ("(mode_transport server)", "transport"),
         "data.server.transport_protocol": ("connect_transport", "transport")}
TRANSPORTS = {"tcp": "TCP", "udp": "UDP", "both": "BOTH"}
EQB = {"host": "bytes_eqb", "port": "N.eqb", "transport": "transport_eqb"}


def atom(e, want=None):
    """-> (coq, type); string literals take the type demanded by the other operand"""
    if isinstance(e, ast.Name) and e.id in NAMES:
        return e.id, NAMES[e.id]
    if isinstance(e, ast.Attribute) and ast.unparse(e) in ATTRS:
        return ATTRS[ast.unparse(e)]
    if isinstance(e, ast.Constant) and isinstance(e.value, str):
        if want == "host":
            return cbytes(e.value), "host"
        if want == "transport" and e.value in TRANSPORTS:
            return TRANSPORTS[e.value], "transport"
        bad(e, f"string literal where a {want} is expected")
    if isinstance(e, ast.Constant) and isinstance(e.value, int) and not isinstance(e.value, bool) and want == "port" and e.value >= 0:
        return f"{e.value}%N", "port"
    bad(e)


def typeof(e):
    if isinstance(e, ast.Name) and e.id in NAMES:
        return NAMES[e.id]
    if isinstance(e, ast.Attribute) and ast.unparse(e) in ATTRS:
        return ATTRS[ast.unparse(e)][1]
    return None


def expr(e):
    if isinstance(e, ast.BoolOp):
        op = " && " if isinstance(e.op, ast.And) else " || "
        return "(" + op.join(expr(v) for v in e.values) + ")"
    if isinstance(e, ast.UnaryOp) and isinstance(e.op, ast.Not):
        return f"(negb {expr(e.operand)})"
    if isinstance(e, ast.Compare) and len(e.ops) == 1:
        op, l, r = e.ops[0], e.left, e.comparators[0]
        if isinstance(op, (ast.Eq, ast.NotEq)):
            ty = typeof(l) or typeof(r)
            if ty is None:
                bad(e, "comparison between two literals")
            a, b = atom(l, ty)[0], atom(r, ty)[0]
            if atom(l, ty)[1] != ty or atom(r, ty)[1] != ty:
                bad(e, "comparison across types")
            t = f"({EQB[ty]} {a} {b})"
            return t if isinstance(op, ast.Eq) else f"(negb {t})"
        if isinstance(op, (ast.In, ast.NotIn)) and isinstance(r, (ast.Tuple, ast.List)):
            ty = typeof(l)
            if ty is None:
                bad(e, "membership test of a literal")
            elts = []
            for x in r.elts:
                c, t = atom(x, ty)
                if t != ty:
                    bad(e, "tuple element of another type")
                elts.append(c)
            t = f"(in_tuple {EQB[ty]} {atom(l, ty)[0]} [{'; '.join(elts)}])"
            return t if isinstance(op, ast.In) else f"(negb {t})"
    bad(e)


def translate(repo: str) -> str:
    tree = ast.parse(open(os.path.join(repo, "mitmproxy/addons/proxyserver.py")).read())
    cls = [n for n in tree.body if isinstance(n, ast.ClassDef) and n.name == "Proxyserver"]
    if len(cls) != 1:
        raise Unsupported("class Proxyserver not found")
    fns = [m for m in cls[0].body if isinstance(m, ast.FunctionDef) and m.name == "server_connect"]
    if len(fns) != 1 or [a.arg for a in fns[0].args.args] != ["self", "data"] or fns[0].decorator_list:
        raise Unsupported("Proxyserver.server_connect: definition/signature")
    body = [s for s in fns[0].body if not (isinstance(s, ast.Expr) and isinstance(s.value, ast.Constant))]
    if len(body) != 4:
        raise Unsupported(f"server_connect: expected 4 statements, found {len(body)}")
    s0, s1, s2, s3 = body
    if ast.unparse(s0) != "if data.server.sockname is None:\n    data.server.sockname = self._connect_addr":
        bad(s0, "sockname default")
    if ast.unparse(s1) != "assert data.server.address":
        bad(s1, "address assertion")
    if ast.unparse(s2) != "connect_host, connect_port, *_ = data.server.address":
        bad(s2, "destination unpacking")
    if not (isinstance(s3, ast.For) and not s3.orelse and ast.unparse(s3.target) == "server" and ast.unparse(s3.iter) == "self.servers"
            and len(s3.body) == 1 and isinstance(s3.body[0], ast.For)):
        bad(s3, "outer loop")
    inner = s3.body[0]
    if not (not inner.orelse and ast.unparse(inner.target) == "(listen_host, listen_port, *_)"
            and ast.unparse(inner.iter) == "server.listen_addrs" and len(inner.body) == 2):
        bad(inner, "inner loop")
    a, i = inner.body
    if not (isinstance(a, ast.Assign) and len(a.targets) == 1 and ast.unparse(a.targets[0]) == "self_connect"):
        bad(a, "self_connect assignment")
    if not (isinstance(i, ast.If) and ast.unparse(i.test) == "self_connect" and not i.orelse and len(i.body) == 2
            and isinstance(i.body[0], ast.Assign) and ast.unparse(i.body[0].targets[0]) == "data.server.error"
            and isinstance(i.body[0].value, ast.Constant) and isinstance(i.body[0].value.value, str)
            and isinstance(i.body[1], ast.Return) and i.body[1].value is None):
        bad(i, "guarded error assignment")
    test = expr(a.value)
    msg = coq_string(i.body[0].value.value)
    return "\n".join([
        "(* GENERATED by harness/translators/self_connect.py from mitmproxy/addons/proxyserver.py -- do not edit. *)",
        "From Coq Require Import NArith List Bool String.",
        "From MV Require Import Base.Bytes Model.SelfConnectBase.",
        "Import ListNotations.",
        "",
        "Definition self_connect (connect_host : bytes) (connect_port : N) (connect_transport : transport)",
        "                        (server : server) (listen_host : bytes) (listen_port : N) : bool :=",
        f"  {test}.",
        "",
        f"Definition error_message : string := {msg}.",
        "",
        "(* value of data.server.error after the hook (None: untouched); the two loops return at the first hit *)",
        "Definition server_connect (servers : list server) (connect_host : bytes) (connect_port : N) (connect_transport : transport) : option string :=",
        "  if existsb (fun server => existsb (fun la => self_connect connect_host connect_port connect_transport server (fst la) (snd la))",
        "                                    (listen_addrs server)) servers",
        "  then Some error_message else None.",
        ""])


if __name__ == "__main__":
    import sys
    print(translate(sys.argv[1] if len(sys.argv) > 1 else "/repo"))
