#!/bin/bash
# seedprep2.sh Cxx... : second-round scratch worktrees /var/tmp/seed-Cxx-2 with an adapted prompt
for p in "$@"; do wt=/var/tmp/seed-$p-2; git -C /repo worktree add --detach $wt HEAD -q && sed "s#/var/tmp/seed-$p#$wt#g" /verif/harness/prompts/seed_$p.txt > $wt/PROMPT.txt && cat >> $wt/PROMPT.txt <<'EOT'

Additional steer for this round: prefer a change that involves EITHER two cooperating sites that each look fine alone, OR a path that only runs after a fault / under a particular timing or ordering, OR a boundary slip on sizes/offsets/encodings; avoid the most obvious single dropped condition in the function named first in the anchored files. Do NOT use `git stash` (all scratch worktrees share one stash); use `git apply -R patch.diff` / `git apply patch.diff`.
EOT
echo "prepared $p-2"; done
