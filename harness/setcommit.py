#!/usr/bin/env python3
"""setcommit.py Cxx key=commit [key=commit...] | Cxx ALL=commit : mark findings fixed with a commit"""
import json,sys
pid=sys.argv[1]; m=dict(a.split('=') for a in sys.argv[2:])
p=f'/verif/findings/{pid}.jsonl'; out=[]
for l in open(p):
    if not l.strip(): continue
    e=json.loads(l)
    c=m.get(e['key']) or (m.get('ALL') if e.get('commit')=='PENDING' else None)
    if c: e['kind']='fixed'; e['commit']=c
    out.append(json.dumps(e)); print(pid,e['kind'],e['key'],e.get('commit'))
open(p,'w').write("\n".join(out)+"\n")
