#!/bin/bash
# run every claimed check (quick by default), summary on stdout
cd /verif; tier=${1:-quick}
for pid in $(cat props/claimed.txt); do
  s=$(date +%s); out=$(./check $pid --tier $tier 2>&1); rc=$?; e=$(date +%s)
  echo "$pid rc=$rc $((e-s))s $(echo "$out" | grep -c '^KNOWN-FINDING') known; $(echo "$out" | grep '^VIOLATION' | head -1)"
done
