#!/bin/bash
# seedtest.sh Cxx [name] : confirm a seeded change in /var/tmp/seed-<name> and run ./check Cxx against it
pid=$1; name=${2:-$1}; wt=/var/tmp/seed-$name; out=/verif/seeded/$name
cd $wt || exit 2
[ -s patch.diff ] || git diff > patch.diff
mkdir -p $out; cp patch.diff demo.py meta.json $out/ 2>/dev/null
git checkout -q -- . ; base0=$(git rev-parse HEAD); git checkout -q --detach main 2>/dev/null; git apply --check patch.diff 2>/dev/null || { echo "patch does not apply on main HEAD; staying on its base"; git checkout -q --detach $base0; }
git apply patch.diff || { echo "patch does not apply"; exit 2; }
PYTHONPATH=$wt timeout 600 /venv/bin/python demo.py > $out/demo_with.log 2>&1; with=$?
git apply -R patch.diff
PYTHONPATH=$wt timeout 600 /venv/bin/python demo.py > $out/demo_without.log 2>&1; without=$?
git apply patch.diff
REPO_DIR=$wt /verif/harness/baseline.py 8 > $out/baseline.log 2>&1; base=$?
cd /verif
VERIF_REPO=$wt timeout 3000 ./check $pid --tier quick > $out/check.log 2>&1; chk=$?
viol=$(grep -m1 '^VIOLATION' $out/check.log)
rp=$(echo "$viol" | sed -n 's/.*replay=\([^ ]*\).*/\1/p'); [ -n "$rp" ] && cp "$rp" $out/replay.json 2>/dev/null
python3 - <<PY
import json,os
p="$out/meta.json"
try: m=json.load(open(p))
except Exception: m={}
m.update({"property":"$pid","demo_exit_with_patch":$with,"demo_exit_without_patch":$without,
 "stable_baseline_with_patch":"pass" if $base==0 else "FAIL (see baseline.log)",
 "check_exit":$chk,"check_line":"""$viol""","caught":bool($chk==1 and """$viol""".startswith("VIOLATION")),
 "ran":"demo.py with/without patch; harness/baseline.py against the patched worktree; VERIF_REPO=<worktree> ./check $pid --tier quick"})
json.dump(m,open(p,"w"),indent=1)
print({k:m[k] for k in ("demo_exit_with_patch","demo_exit_without_patch","stable_baseline_with_patch","check_exit","caught")}, m["check_line"][:150])
PY
