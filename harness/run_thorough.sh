#!/bin/bash
# run_thorough.sh [P] : thorough tier for every claimed check, P at a time; one line per check in /var/tmp/thorough.log
cd /verif; P=${1:-4}
: > /var/tmp/thorough.log
for pid in $(cat props/claimed.txt); do echo $pid; done | xargs -P $P -I{} bash -c 's=$(date +%s); out=$(./check {} --tier thorough 2>&1); rc=$?; e=$(date +%s); echo "{} rc=$rc $((e-s))s $(echo "$out" | grep "^VIOLATION" | head -1) $(echo "$out" | grep "^\[" | tail -1 | cut -c1-160)" >> /var/tmp/thorough.log'
