#!/bin/bash
# run_thorough.sh [P] [pids...] : thorough tier for the given (default: every claimed) checks, P at a time; one line per check in /var/tmp/thorough.log, full output in /verif/.work/thorough/<pid>.out
cd /verif; P=${1:-4}; shift
pids=${@:-$(cat props/claimed.txt)}
mkdir -p /verif/.work/thorough
for pid in $pids; do echo $pid; done | xargs -P $P -I{} bash -c 's=$(date +%s); ./check {} --tier thorough > /verif/.work/thorough/{}.out 2>&1; rc=$?; e=$(date +%s); echo "{} rc=$rc $((e-s))s $(grep "^VIOLATION" /verif/.work/thorough/{}.out | head -1) $(grep "^\[" /verif/.work/thorough/{}.out | tail -1 | cut -c1-160)" >> /var/tmp/thorough.log'
