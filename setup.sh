#!/bin/bash
# MANIFEST.setup_cmd: build the whole Coq development from files on disk (full .vo build).
set -e
cd "$(dirname "$0")"
export PYTHONHASHSEED=0 PYTHONPATH=${VERIF_REPO:-/repo} PYTHONDONTWRITEBYTECODE=1
mkdir -p evidence replays .work coq/Gen
/venv/bin/python harness/setup.py
cd coq
timeout 6000 make -j16 -k 2>&1 | grep -E "^(File|Error|make.*Error)" | head -50 || true
# a failing file must not hide the others; per-property checks report their own cone
exit 0
